CONSTANTS
  NConns = 1
  MaxReq = 1
  OfferLen = 3
  AdvOfferSum = 4
  AcceptedSets = {{}, {"v4"}, {"v5"}, {"v4", "v5"}, {"v3"}, {"v3", "v4"}, {"v3", "v5"}, {"v3", "v4", "v5"}}
  AdvCookies = {0, 1, 2, 3, 4, 5, 6, 7, 8, 9}
INIT GenInit
NEXT GenNext
CHECK_DEADLOCK FALSE
INVARIANTS C28_OnlyMutuallySupported
