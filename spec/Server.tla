------------------------------- MODULE Server -------------------------------
(***************************************************************************)
(* The NTP server request pipeline of ntpd-rs:                             *)
(*   ntp-proto/src/server.rs       Server::handle / handle_inner /         *)
(*                                 intended_action / TimestampedCache      *)
(*   ntp-proto/src/packet/mod.rs   NtpPacket::deserialize, response        *)
(*                                 builders, serialize (v5 padding)        *)
(*   ntp-proto/src/packet/extension_fields.rs  field parser and the size   *)
(*                                 rules of the encoder                    *)
(*   ntp-proto/src/keyset.rs       CipherProvider for KeySet               *)
(*                                                                         *)
(* State: the rate-limit cache (slot -> occupant and age).  One action     *)
(* Handle(cfg, addr, body) -- a datagram `body` from address class `addr`  *)
(* handled by a server configured with `cfg` -- and Tick(n).  The          *)
(* configuration is part of the action so that one TLC run enumerates      *)
(* configurations x addresses x datagram classes (the harness keeps one    *)
(* real Server per configuration).  Every datagram is handled twice by the *)
(* harness, with a buffer as long as the datagram (what the daemon does)   *)
(* and with a large buffer; Out describes both.                            *)
(*                                                                         *)
(* The module transcribes WHAT THE CODE DOES, branch by branch.  The       *)
(* properties C15..C22 are stated declaratively over Post/Out below; where *)
(* the transcribed code contradicts a property the offending input shape   *)
(* is named (F3_Shape, F4_Shape, F16_Shape: known deviations, see          *)
(* known_findings.json) and excluded from the invariant TLC checks, and    *)
(* every explored transition carries the list of properties it falsifies   *)
(* (`bad`), so that the check can confirm the counterexample on the        *)
(* implementation and report it.                                           *)
(*                                                                         *)
(* Properties anchored here: C15 C16 C17 C18 C19 C20 C21 C22.              *)
(***************************************************************************)
EXTENDS Naturals, Integers, Sequences, FiniteSets, TLC

CONSTANTS Cutoff        \* rate-limiting cutoff in clock ticks (harness: one tick = one hour)

Min(a, b) == IF a <= b THEN a ELSE b
Max(a, b) == IF a >= b THEN a ELSE b
Pad4(n) == ((n + 3) \div 4) * 4
Big == 8192             \* the large buffer

RECURSIVE SumSeq(_)
SumSeq(q) == IF q = <<>> THEN 0 ELSE Head(q) + SumSeq(Tail(q))

(***************************************************************************)
(* Abstract datagram.                                                      *)
(*  form  "empty" | "short" (47 bytes) | "badver" (48 bytes, version not   *)
(*        3/4/5) | "pkt"                                                   *)
(*  ver, mode  header bits; hdrok: (v5) timescale/flags octets are valid   *)
(*  marker  (v4) reference timestamp = NTP5DRFT upgrade request            *)
(*  items   extension fields, each [k, n, q, enc]:                         *)
(*    uid     n = body bytes                                               *)
(*    cookie  n = body bytes; q = v256 | v512 (issued by the current key   *)
(*            set for AES-SIV-CMAC-256/512 session keys) | old (issued     *)
(*            before the last rotation, still valid) | expired | foreign   *)
(*            | junk (shorter than a cookie header)                        *)
(*    ph      cookie placeholder of n zero bytes                           *)
(*    unk     unknown type, n body bytes                                   *)
(*    draft   (v5) draft identification, q = ok | other | nonascii         *)
(*    refreq  (v5) reference-id request, n payload bytes, q = in | out     *)
(*            (requested window inside / outside the 512-byte filter)      *)
(*    pad     (v5) padding field                                           *)
(*    auth    NTS authenticator, q = ok | wrongKey | tampered | short      *)
(*            (8 bytes, nonce length beyond the field) | empty (8 bytes,   *)
(*            zero-length nonce and ciphertext: well-formed, cannot verify)*)
(*            n = 256 | 512: algorithm of the c2s key it is sealed with;   *)
(*            enc = the encrypted fields (never auth themselves)           *)
(*    bad     malformed field occupying 4+n bytes, q = len0 | len3 | over  *)
(*            | unaligned (v4 only) | phnz (non-zero placeholder)          *)
(*  tail    bytes after the last item (v4: <= 24; v5: < 4)                 *)
(***************************************************************************)
InnerWire(f) == Pad4(4 + f.n)
RECURSIVE SumInner(_)
SumInner(q) == IF q = <<>> THEN 0 ELSE InnerWire(Head(q)) + SumInner(Tail(q))

\* bytes the item occupies on the wire. authenticator: 4 header + 4 lengths + 16 nonce + plaintext + 16 tag
Wire(f) == IF f.k = "auth" THEN (IF f.q \in {"short", "empty"} THEN 8 ELSE 40 + SumInner(f.enc)) ELSE Pad4(4 + f.n)
RECURSIVE SumWire(_)
SumWire(q) == IF q = <<>> THEN 0 ELSE Wire(Head(q)) + SumWire(Tail(q))

ReqLen(b) == CASE b.form = "empty" -> 0 [] b.form = "short" -> 47 [] b.form = "badver" -> 48
               [] OTHER -> 48 + SumWire(b.items) + b.tail

FallbackVer(b) == IF b.form = "empty" THEN 0 ELSE b.ver       \* fallback_message_version

(***************************************************************************)
(* Parser: ExtensionFieldData::deserialize + NtpPacket::deserialize.       *)
(* unt / aut hold positions in b.items, enc the decrypted inner items.     *)
(***************************************************************************)
IsBad(f, ver) == f.k = "bad" /\ (f.q = "unaligned" => ver = 4)
InnerErr(enc, ver) == \E j \in 1..Len(enc) : IsBad(enc[j], ver)

Decodable(c) == c.q \in {"v256", "v512", "old"}                \* KeySet::decode_cookie succeeds
AlgOf(c) == IF c.q = "v512" THEN 512 ELSE 256

\* KeySet as CipherProvider: exactly one cookie among the fields seen so far, and it decodes;
\* then decryption under that cookie's c2s key
DecryptOK(items, f, unt) ==
  LET cs == SelectSeq(unt, LAMBDA i : items[i].k = "cookie")
  IN f.q = "ok" /\ Len(cs) = 1 /\ Decodable(items[cs[1]]) /\ f.n = AlgOf(items[cs[1]])

StepItem(items, ver, i, acc) ==
  LET f == items[i]
      r == acc.rem - Wire(f)
  IN IF IsBad(f, ver) THEN [acc EXCEPT !.err = TRUE]
     ELSE IF f.k = "auth" THEN
            IF f.q = "short" THEN [acc EXCEPT !.err = TRUE]
            ELSE IF DecryptOK(items, f, acc.unt) THEN
                   IF InnerErr(f.enc, ver) THEN [acc EXCEPT !.err = TRUE]
                   ELSE [acc EXCEPT !.enc = acc.enc \o f.enc, !.ck = f.n,
                                    !.aut = acc.aut \o acc.unt, !.unt = <<>>, !.rem = r]
            ELSE [acc EXCEPT !.dec = TRUE, !.rem = r]       \* InvalidNtsEncryptedField, parsing goes on
     ELSE IF ver = 5 /\ f.k = "refreq" /\ f.n < 2 THEN [acc EXCEPT !.err = TRUE]
     ELSE IF ver = 5 /\ f.k = "draft" /\ f.q = "nonascii" THEN [acc EXCEPT !.err = TRUE]
     ELSE [acc EXCEPT !.unt = Append(acc.unt, i), !.rem = r]

\* fields are taken while more than `cut` bytes remain (v4: 24 = largest MAC; v5: 0)
RECURSIVE Walk(_, _, _, _, _)
Walk(items, ver, cut, i, acc) ==
  IF acc.err \/ i > Len(items) \/ acc.rem <= cut THEN acc
  ELSE Walk(items, ver, cut, i + 1, StepItem(items, ver, i, acc))

Acc0(b) == [err |-> FALSE, dec |-> FALSE, unt |-> <<>>, aut |-> <<>>, enc |-> <<>>, ck |-> 0,
            rem |-> SumWire(b.items) + b.tail]

\* res: "err" (ParseError) | "dec" (DecryptError) | "ok"
Parse(b) ==
  LET a0 == Acc0(b)
      none == [a0 EXCEPT !.err = TRUE]
  IN CASE b.form # "pkt" -> [none EXCEPT !.err = TRUE] @@ [res |-> "err"]
       [] b.ver = 3 -> IF a0.rem = 0 \/ (a0.rem >= 4 /\ a0.rem <= 24) THEN a0 @@ [res |-> "ok"] ELSE none @@ [res |-> "err"]
       [] b.ver = 4 ->
            LET w == Walk(b.items, 4, 24, 1, a0)
            IN IF w.err \/ (w.rem > 0 /\ w.rem < 4) THEN w @@ [res |-> "err"]
               ELSE IF w.dec THEN w @@ [res |-> "dec"] ELSE w @@ [res |-> "ok"]
       [] b.ver = 5 ->
            IF b.mode \notin {3, 4} \/ ~b.hdrok THEN none @@ [res |-> "err"]
            ELSE LET w == Walk(b.items, 5, 0, 1, a0)
                     ds == SelectSeq(w.unt \o w.aut, LAMBDA i : b.items[i].k = "draft")
                 IN IF w.err \/ w.rem > 0 THEN w @@ [res |-> "err"]
                    \* (the draft identification is required on the decrypt-error path as well: fix for the v5
                    \*  variant of finding F-4)
                    ELSE IF ~(Len(ds) > 0 /\ b.items[ds[1]].q = "ok") THEN w @@ [res |-> "err"]
                    ELSE IF w.dec THEN w @@ [res |-> "dec"]
                    ELSE w @@ [res |-> "ok"]

(***************************************************************************)
(* Response builders (packet/mod.rs) and encoder sizes.                    *)
(* kinds: time ntstime deny ntsdeny nak                                    *)
(***************************************************************************)
NtsKind(kind) == kind \in {"ntstime", "ntsdeny"}

\* the fields echoed: unique identifiers (from the unauthenticated and authenticated lists; NTS builders: only
\* the authenticated list), v5 time answers also reference-id responses, v5 always a draft identification
EchoOf(items, ver, kind, p) ==
  LET src == IF NtsKind(kind) THEN p.aut ELSE p.unt \o p.aut
      keep(i) == \/ items[i].k = "uid"
                 \/ (ver = 5 /\ kind \in {"time", "ntstime"} /\ items[i].k = "refreq" /\ items[i].q = "in")
      sel == SelectSeq(src, keep)
  IN IF ver = 3 THEN <<>>
     ELSE [j \in 1..Len(sel) |-> [k |-> IF items[sel[j]].k = "uid" THEN "uid" ELSE "refresp", i |-> sel[j], n |-> items[sel[j]].n]]
          \o (IF ver = 5 THEN <<[k |-> "draft", i |-> 0, n |-> 23]>> ELSE <<>>)

EfLen(body, minimum) == Pad4(Max(4 + body, minimum))
EchoLen(e, minimum) == IF e.k = "refresp" THEN Pad4(4 + e.n) ELSE EfLen(e.n, minimum)
\* RFC 7822 minimum sizes for unauthenticated v4 fields: 28 for the last, 16 otherwise; v5: 4; authenticated: 16
UntrustedLen(echo, ver) ==
  SumSeq([j \in 1..Len(echo) |-> EchoLen(echo[j], IF ver = 5 THEN 4 ELSE IF j = Len(echo) THEN 28 ELSE 16)])
AuthLen(echo) == SumSeq([j \in 1..Len(echo) |-> EchoLen(echo[j], 16)])

CookieBase(ck) == IF ck = 512 THEN 168 ELSE 104     \* 6 + 16 nonce + 2 + 2 * key bytes + 16 tag

\* nts_timestamp_response: the first MAX_COOKIES (8) fields of authenticated ++ encrypted; a fresh cookie for
\* each cookie / placeholder among them that is at least as long as a fresh cookie
Fresh(items, p) ==
  LET all == [j \in 1..Len(p.aut) |-> items[p.aut[j]]] \o p.enc
      \* (as repaired by the fix for finding F-16: the cookie / placeholder fields that fit are selected first and
      \*  then limited to eight; before the fix only the first eight request fields were looked at)
      fit == SelectSeq(all, LAMBDA f : f.k \in {"cookie", "ph"} /\ f.n >= CookieBase(p.ck))
  IN Min(8, Len(fit))

Written(ver, kind, echo, nc, base) ==
  IF ver = 3 THEN 48
  ELSE IF NtsKind(kind) THEN 48 + AuthLen(echo) + (IF Len(echo) > 0 \/ nc > 0 THEN 40 + nc * (4 + base) ELSE 0)
  ELSE 48 + UntrustedLen(echo, ver)

\* NtpPacket::serialize: v5 time answers are padded up to the request's length
WantLen(ver, kind, echo, nc, base, reqlen) ==
  LET w == Written(ver, kind, echo, nc, base)
  IN IF ver = 5 /\ kind \in {"time", "ntstime"} THEN Max(w, reqlen) ELSE w

\* symbolic header of the answer (resolved to bytes by the harness)
HdrOf(ver, kind) ==
  IF kind \in {"time", "ntstime"}
    THEN [stratum |-> "info", poll |-> "echo", times |-> "server", ref |-> IF ver = 5 THEN "none" ELSE "info", nak |-> FALSE]
  ELSE [stratum |-> "zero", poll |-> IF ver = 5 /\ kind \in {"deny", "ntsdeny"} THEN "never" ELSE "zero", times |-> "zero",
        ref |-> IF ver = 5 THEN "none" ELSE IF kind = "nak" THEN "NTSN" ELSE "DENY", nak |-> ver = 5 /\ kind = "nak"]

(***************************************************************************)
(* Policy: intended_action and handle_inner.                               *)
(* addr = [name, den, alw, slot]; cfg = [denyAct, allowAct, requireNts,    *)
(* accepted, cache, info]                                                  *)
(***************************************************************************)
PassesLists(a) == ~a.addr.den /\ a.addr.alw
Limited(s, a) == /\ a.cfg.cache > 0 /\ PassesLists(a)
                 /\ s.cache[a.addr.slot].who = a.addr.name /\ s.cache[a.addr.slot].age < Cutoff

Stat(v, nts, reason, resp) == [ver |-> v, nts |-> nts, reason |-> reason, resp |-> resp]
NoHdr == [stratum |-> "", poll |-> "", times |-> "", ref |-> "", nak |-> FALSE]
IgnoreD(stat) == [kind |-> "ignore", stat |-> stat, echo |-> <<>>, nc |-> 0, len |-> 0, sealed |-> FALSE,
                  marker |-> FALSE, hdr |-> NoHdr]

Decide(s, a) ==
  LET b == a.body
      c == a.cfg
      fb == FallbackVer(b)
      first == IF a.addr.den THEN <<c.denyAct, "Policy">>
               ELSE IF ~a.addr.alw THEN <<c.allowAct, "Policy">>
               ELSE IF Limited(s, a) THEN <<"ignore", "RateLimit">>
               ELSE <<"time", "Policy">>
      p == Parse(b)
  IN IF first[1] = "ignore" THEN IgnoreD(Stat(fb, FALSE, first[2], "Ignore"))
     \* (the mode test also on the decrypt-error path: fix for finding F-3)
     ELSE IF p.res = "err" \/ (p.res \in {"ok", "dec"} /\ b.mode # 3) THEN IgnoreD(Stat(fb, FALSE, "ParseError", "Ignore"))
     ELSE LET act1 == IF p.res = "dec" /\ first[1] # "deny" THEN <<"nak", "InvalidCrypto">> ELSE first
              ck   == IF p.res = "ok" THEN p.ck ELSE 0
              nts  == ck # 0 \/ act1[1] = "nak"
          IN IF b.ver \notin c.accepted THEN IgnoreD(Stat(b.ver, FALSE, "Policy", "Ignore"))
             ELSE IF ~nts /\ c.requireNts = "ignore" THEN IgnoreD(Stat(b.ver, FALSE, "Policy", "Ignore"))
             ELSE LET act2 == IF ~nts /\ c.requireNts = "deny" THEN <<"deny", "Policy">> ELSE act1
                      kind == CASE act2[1] = "nak" -> "nak"
                                [] act2[1] = "deny" -> IF ck # 0 THEN "ntsdeny" ELSE "deny"
                                [] OTHER -> IF ck # 0 THEN "ntstime" ELSE "time"
                      echo == EchoOf(b.items, b.ver, kind, p)
                      nc   == IF kind = "ntstime" THEN Fresh(b.items, p) ELSE 0
                  IN [kind |-> kind,
                      stat |-> Stat(b.ver, nts, act2[2], CASE act2[1] = "nak" -> "NTSNak" [] act2[1] = "deny" -> "Deny" [] OTHER -> "ProvideTime"),
                      echo |-> echo, nc |-> nc,
                      len |-> WantLen(b.ver, kind, echo, nc, CookieBase(ck), ReqLen(b)),
                      sealed |-> NtsKind(kind) /\ (Len(echo) > 0 \/ nc > 0),
                      marker |-> b.ver = 4 /\ kind = "time" /\ b.marker,
                      hdr |-> HdrOf(b.ver, kind)]

RespOf(kind) == CASE kind \in {"time", "ntstime"} -> "time" [] kind \in {"deny", "ntsdeny"} -> "deny"
                  [] kind = "nak" -> "nak" [] OTHER -> "ignore"

\* Server::handle: encode into a buffer of L bytes; what does not fit is dropped as InternalError
Emit(d, L) ==
  IF d.kind = "ignore" THEN [resp |-> "ignore", len |-> 0, stat |-> d.stat]
  ELSE IF d.len <= L THEN [resp |-> RespOf(d.kind), len |-> d.len, stat |-> d.stat]
  ELSE [resp |-> "ignore", len |-> 0, stat |-> Stat(d.stat.ver, d.stat.nts, "InternalError", "Ignore")]

NoOut == [resp |-> "", len |-> 0, stat |-> Stat(0, FALSE, "", ""), bresp |-> "", blen |-> 0, bstat |-> Stat(0, FALSE, "", ""),
          same |-> TRUE, limited |-> FALSE, kind |-> "", echo |-> <<>>, nc |-> 0, sealed |-> FALSE, marker |-> FALSE,
          hdr |-> NoHdr, reqlen |-> 0]

OutHandle(s, a) ==
  LET d == Decide(s, a)
      r == Emit(d, ReqLen(a.body))
      g == Emit(d, Big)
  IN [resp |-> r.resp, len |-> r.len, stat |-> r.stat, bresp |-> g.resp, blen |-> g.len, bstat |-> g.stat,
      same |-> r.resp = g.resp, limited |-> Limited(s, a), kind |-> d.kind, echo |-> d.echo, nc |-> d.nc,
      sealed |-> d.sealed, marker |-> d.marker, hdr |-> d.hdr, reqlen |-> ReqLen(a.body)]

\* C21, daemon side: ServerStats::register (ntpd/src/daemon/server.rs) as a table; action t = "Reg"
StatCounters(nts, reason, resp) ==
  {"received"}
  \cup (CASE resp = "ProvideTime" -> {"accepted"}
          [] resp = "Ignore" /\ reason = "RateLimit" -> {"rate_limited"}
          [] resp = "Ignore" -> {"ignored"}
          [] resp = "Deny" -> {"denied"}
          [] resp = "NTSNak" -> {"nts_nak"})
  \cup (IF nts THEN {"nts_received"} \cup (CASE resp = "ProvideTime" -> {"nts_accepted"}
                                              [] resp = "Deny" -> {"nts_denied"}
                                              [] resp = "Ignore" /\ reason = "RateLimit" -> {"nts_rate_limited"}
                                              [] OTHER -> {})
         ELSE {})
C21_Counters(a) ==
  a.t = "Reg" =>
    LET c == StatCounters(a.nts, a.reason, a.resp)
        main == {"accepted", "rate_limited", "ignored", "denied", "nts_nak"}
    IN /\ "received" \in c /\ Cardinality(c \cap main) = 1
       /\ ("accepted" \in c <=> a.resp = "ProvideTime") /\ ("denied" \in c <=> a.resp = "Deny") /\ ("nts_nak" \in c <=> a.resp = "NTSNak")
       /\ ("rate_limited" \in c \/ "ignored" \in c <=> a.resp = "Ignore")
       /\ (c \cap {"nts_received", "nts_accepted", "nts_denied", "nts_rate_limited"} # {} => a.nts)
       /\ (a.nts => "nts_received" \in c) /\ (a.nts /\ a.resp = "ProvideTime" => "nts_accepted" \in c)

\* TimestampedCache::is_allowed: consulted (and the slot overwritten) only after both lists passed
PostHandle(s, a) ==
  IF a.cfg.cache > 0 /\ PassesLists(a)
    THEN [s EXCEPT !.cache[a.addr.slot] = [who |-> a.addr.name, age |-> 0]]
  ELSE s

PostTick(s, n) == [s EXCEPT !.cache = [k \in DOMAIN s.cache |->
                      IF s.cache[k].who = "" THEN s.cache[k] ELSE [s.cache[k] EXCEPT !.age = Min(Cutoff, @ + n)]]]

\* t = "Mut": a structurally mutated datagram (C22); nothing but "no panic, one statistics entry" is predicted
Post(s, a) == CASE a.t = "Tick" -> PostTick(s, a.n) [] a.t \in {"Mut", "Reg"} -> s [] OTHER -> PostHandle(s, a)
Out(s, a) == CASE a.t = "Handle" -> OutHandle(s, a) [] a.t = "Reg" -> [counters |-> StatCounters(a.nts, a.reason, a.resp)] [] OTHER -> NoOut

InitState == [cache |-> [k \in 1..2 |-> [who |-> "", age |-> 0]]]

(***************************************************************************)
(* Cones: which observables each property constrains on a step.            *)
(* Observables reported by the harness: the fields of Out for the          *)
(* request-sized buffer (resp len stat ...), "b"-prefixed for the large    *)
(* buffer, `cache`, and relational ones it evaluates itself:               *)
(*   fits      answer length <= request length (request-sized buffer)      *)
(*   nstat     exactly one statistics entry per call                       *)
(*   statresp  the entry's response kind equals what was actually done     *)
(*   stat.nts stat.ver stat.resp stat.reason  fields of the entry (either  *)
(*             buffer); the reason is a matter of the policy path (C15)    *)
(*   shadow    TimestampedCache::is_allowed on a second cache driven with  *)
(*             exact instants (elapsed = cutoff exactly is not limited)    *)
(*   hdr       header of the answer equals the symbolic expectation        *)
(*   canary    no marked request content found in the answer               *)
(*   cookies   fresh cookies fit, decode under the current key set to the  *)
(*             request cookie's keys                                       *)
(* Secondary observables (len, echo, sealed, nc, statistics fields) are compared only *)
(* when the decision (resp) agrees, so that one wrong decision is          *)
(* attributed to the policy properties and not to every other one.         *)
(***************************************************************************)
NtsIsh(a) == a.t = "Handle" /\ a.body.form = "pkt" /\ \E i \in 1..Len(a.body.items) : a.body.items[i].k \in {"auth", "cookie"}
ConeKeys == {"tick", "plain", "nts", "mut", "reg"}
ConeKey(s, a) == IF a.t = "Tick" THEN "tick" ELSE IF a.t = "Mut" THEN "mut" ELSE IF a.t = "Reg" THEN "reg" ELSE IF NtsIsh(a) THEN "nts" ELSE "plain"
ConeKeyStr(k) == k
ConesOf(k) ==
  LET h == k \in {"plain", "nts"} IN
  [C15 |-> IF h THEN {"bresp", "panic"} ELSE {},   \* (the statistics entry, reason included, is C21's business)
   C16 |-> IF h THEN {"fits", "len", "blen", "panic"} ELSE {},
   C17 |-> IF h THEN {"same", "resp", "len", "blen", "panic"} ELSE {},
   C18 |-> IF h THEN {"echo", "hdr", "canary", "marker", "panic"} ELSE {},
   C19 |-> IF k = "nts" THEN {"bresp", "sealed", "nc", "cookies", "panic"} ELSE {},
   C20 |-> IF h THEN {"cache", "limited", "shadow", "panic"} ELSE {"cache"},
   C21 |-> IF h THEN {"nstat", "statresp", "stat.nts", "stat.ver", "stat.resp", "panic"} ELSE IF k = "mut" THEN {"nstat", "statresp"} ELSE IF k = "reg" THEN {"counters", "panic"} ELSE {},
   C22 |-> IF h \/ k = "mut" THEN {"panic"} ELSE {}]
Cones(s, a) == ConesOf(ConeKey(s, a))
ConeTable == [k \in ConeKeys |-> ConesOf(k)]

VARIABLE st
vars == <<st>>

(***************************************************************************)
(* Declarative statements of the properties.                               *)
(***************************************************************************)
\* Reading taken (the weaker one): a datagram is an NTS request when the parser meets an authenticator field.
\* Bytes that look like one but lie in the last 24 octets of a v4 datagram are a MAC by RFC 7822 (and the code),
\* so such a datagram is a plain request with an ignored MAC.
NtsSeen(b) == b.form = "pkt" /\ (Parse(b).res = "dec" \/ (Parse(b).res = "ok" /\ Parse(b).ck # 0))
\* an authenticator that verifies: the request is a genuine NTS request
Authentic(b) == b.form = "pkt" /\ Parse(b).res = "ok" /\ Parse(b).ck # 0
AuthFails(b) == b.form = "pkt" /\ Parse(b).res = "dec"
Malformed(b) == Parse(b).res = "err"
NonClient(b) == b.form = "pkt" /\ b.mode # 3

\* KNOWN DEVIATION F-3: a datagram that is not a client request but carries an NTS authenticator that does not
\* verify is answered (NTS-NAK, or DENY for a denied client)
F3_Shape(a) == a.t = "Handle" /\ NonClient(a.body) /\ AuthFails(a.body)

\* C15 (decision with an ample buffer; whether the answer fits is C17's question)
C15_Step(s, a) ==
  a.t = "Handle" =>
    LET o == Out(s, a) b == a.body c == a.cfg ad == a.addr IN
    /\ ad.den => /\ o.bresp \in {"ignore", "deny"}
                 /\ (c.denyAct = "ignore" => o.bresp = "ignore")
    /\ (~ad.den /\ ~ad.alw) => /\ o.bresp \in {"ignore", "deny"}
                               /\ (c.allowAct = "ignore" => o.bresp = "ignore")
    /\ (Malformed(b) \/ NonClient(b) \/ (b.form = "pkt" /\ b.ver \notin c.accepted)) => o.bresp = "ignore"
    /\ (c.requireNts # "none" /\ ~Authentic(b)) => o.bresp # "time"
    /\ (/\ PassesLists(a) /\ ~Limited(s, a) /\ ~Malformed(b) /\ ~NonClient(b) /\ b.ver \in c.accepted
        /\ (Authentic(b) \/ (~NtsSeen(b) /\ c.requireNts = "none"))) => o.bresp = "time"

\* C16: what is sent (request-sized buffer, as the daemon passes) is never longer than the request
C16_Step(s, a) == a.t = "Handle" => LET o == Out(s, a) IN o.resp # "ignore" => o.len <= o.reqlen

\* KNOWN DEVIATION F-4: echoed fields grow on re-encoding (unique identifiers shorter than the RFC 7822 minimum
\* of their new position; a v5 draft identification added to the answer of a request that had none)
F4_Shape(a) == a.t = "Handle" /\ LET o == OutHandle(InitState, a) IN o.bresp # "ignore" /\ o.blen > o.reqlen

\* C17: the decision does not depend on the buffer being only as long as the request
C17_Step(s, a) == a.t = "Handle" => Out(s, a).same

\* C18: per kind, the echo list is made of the request's unique identifiers (outside the encrypted part),
\* reference-id responses (v5 time) and the draft identification (v5), in order; KISS answers carry no time
C18_Step(s, a) ==
  a.t = "Handle" =>
    LET o == Out(s, a) b == a.body IN
    o.kind # "ignore" =>
      /\ \A j \in 1..Len(o.echo) :
           LET e == o.echo[j] IN
           \/ (e.k = "uid" /\ b.items[e.i].k = "uid" /\ e.n = b.items[e.i].n)
           \/ (e.k = "refresp" /\ b.ver = 5 /\ o.kind \in {"time", "ntstime"} /\ b.items[e.i].k = "refreq" /\ e.n = b.items[e.i].n)
           \/ (e.k = "draft" /\ b.ver = 5 /\ j = Len(o.echo))
      /\ \A j, l \in 1..Len(o.echo) : (j # l /\ o.echo[j].k # "draft" /\ o.echo[l].k # "draft") => o.echo[j].i # o.echo[l].i
      /\ (o.kind \in {"deny", "ntsdeny", "nak"} => o.hdr.stratum = "zero" /\ o.hdr.times = "zero")
      /\ (o.kind \in {"time", "ntstime"} => o.hdr.stratum = "info" /\ o.hdr.times = "server" /\ o.hdr.poll = "echo")

\* KNOWN DEVIATION F-16: a time answer to an authenticated request that has no unique identifier in the
\* authenticated part and no cookie / placeholder among its first eight fields carries no authenticator at all
F16_Shape(a) == a.t = "Handle" /\ LET o == OutHandle(InitState, a) IN o.kind = "ntstime" /\ ~o.sealed

\* C19
CookieFields(b) ==
  LET p == Parse(b) IN
  Cardinality({i \in 1..Len(b.items) : b.items[i].k \in {"cookie", "ph"}})
    + Len(SelectSeq(p.enc, LAMBDA f : f.k \in {"cookie", "ph"}))
C19_Step(s, a) ==
  a.t = "Handle" =>
    LET o == Out(s, a) b == a.body IN
    /\ AuthFails(b) => o.bresp # "time"
    /\ (Authentic(b) /\ o.bresp = "time") => /\ o.sealed
                                             /\ o.nc <= Min(8, CookieFields(b))

\* C20
C20_Step(s, a) ==
  a.t = "Handle" =>
    LET o == Out(s, a) n == Post(s, a) IN
    /\ a.cfg.cache = 0 => ~o.limited /\ n = s
    /\ o.limited <=> (a.cfg.cache > 0 /\ PassesLists(a) /\ s.cache[a.addr.slot].who = a.addr.name /\ s.cache[a.addr.slot].age < Cutoff)
    /\ o.limited => o.resp = "ignore" /\ o.stat.reason = "RateLimit"
    /\ (o.stat.reason = "RateLimit") => o.limited
    /\ (a.cfg.cache > 0 /\ PassesLists(a)) => n.cache[a.addr.slot] = [who |-> a.addr.name, age |-> 0]
    /\ ~PassesLists(a) => n = s

\* C21: one entry (structural: Out has exactly one `stat` per buffer), kind matches what was done,
\* NTS flag only for NTS requests and for every answered NTS request
StatKind(r) == CASE r = "time" -> "ProvideTime" [] r = "deny" -> "Deny" [] r = "nak" -> "NTSNak" [] OTHER -> "Ignore"
C21_Step(s, a) ==
  a.t = "Handle" =>
    LET o == Out(s, a) b == a.body IN
    /\ o.stat.resp = StatKind(o.resp) /\ o.bstat.resp = StatKind(o.bresp)
    /\ (o.stat.nts \/ o.bstat.nts) => NtsSeen(b)
    /\ (Authentic(b) /\ o.bresp # "ignore") => o.bstat.nts
    /\ (Authentic(b) /\ o.resp # "ignore") => o.stat.nts
C21_Reg(s, a) == C21_Step(s, a) /\ C21_Counters(a)

\* C22: handling is total (the interesting half -- the implementation never panics -- is the replay's)
C22_Step(s, a) == a.t = "Handle" => Out(s, a).resp \in {"ignore", "time", "deny", "nak"}
=============================================================================
