CONSTANTS
  N = 2
  OneWay = {}
  MaxMeas = 2
  MaxChan = 2
  UsableVals = {}
  Steers = {TRUE}
  Arms = {}
INIT Init
NEXT Next
CHECK_DEADLOCK FALSE
INVARIANTS TypeOK C37_StepHolds C37_Invariant
