CONSTANTS
  Family = "small"
  Stride = 8
  Phase = 0
INIT GenInit
NEXT GenNext
CHECK_DEADLOCK FALSE
INVARIANTS C31_SetSemantics C31_CoverLemma C31_Strings
