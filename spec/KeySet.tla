------------------------------- MODULE KeySet -------------------------------
(***************************************************************************)
(* The NTS cookie key set of ntpd-rs and its persistence.                  *)
(*   ntp-proto/src/keyset.rs   KeySetProvider::{new, rotate, load, store}, *)
(*                             KeySet::{encode_cookie, decode_cookie}      *)
(*   ntpd/src/daemon/nts_key_provider.rs   spawn: load-or-fresh at start,  *)
(*                             then forever { open(create, truncate, write,*)
(*                             mode 0600); store; publish; sleep; rotate } *)
(*                                                                         *)
(* One record-valued variable `st`; Post(s, a) / Out(s, a) / Enabled(s, a) *)
(* are the transition function; the same operators serve the exhaustive    *)
(* model (MC_KeySet), the test generator (every explored transition is     *)
(* replayed on the real KeySetProvider and a real file) and the trace      *)
(* validator (Trace_KeySet).                                               *)
(*                                                                         *)
(* Key material is abstracted to key *identities* (integers): fresh keys   *)
(* get consecutive identities `next`, -1 is a key of a foreign key set,    *)
(* identities >= 100 are keys found in a pre-existing file, and            *)
(* CorruptId + i stands for "key i of the file with a byte changed".       *)
(* Wire ids wrap modulo M (2^32 in the code, 8 in the bounded model --     *)
(* DESIGN 5.1; the harness starts the real key set at id_offset = 2^32-k). *)
(*                                                                         *)
(* Properties anchored here: C26 C27.                                      *)
(***************************************************************************)
EXTENDS Naturals, Integers, Sequences, FiniteSets, TLC

CONSTANTS History,     \* stale_key_count: old keys kept valid (0..)
          M,           \* modulus of the wire-id counter
          InitOffset,  \* id_offset of the pre-existing key file (if any)
          InitKeys,    \* number of keys in the pre-existing key file; 0 = no file at first start
          Trunc,       \* the store path opens the file with O_TRUNC (recorded from the code: TRUE)
          MaxGen,      \* bound: fresh keys created
          MaxCookies,  \* bound: cookies remembered
          MaxFaults    \* bound: file faults injected

MAXV == 1000           \* stands for 2^32-1 in header fields
CorruptId == 500       \* CorruptId + i: key token i with a flipped byte
FileMode == 384        \* 0o600

Min(a, b) == IF a <= b THEN a ELSE b
Max(a, b) == IF a >= b THEN a ELSE b
Range(q) == { q[i] : i \in 1..Len(q) }
LastN(q, n) == SubSeq(q, Len(q) - Min(n, Len(q)) + 1, Len(q))

(***************************************************************************)
(* The file: a sequence of tokens in the order `store` writes them         *)
(*   1 time (8 bytes)  2 id_offset (4)  3 primary (4)  4 len (4)           *)
(*   5.. keys (64 bytes each)                                              *)
(* A token is [v |-> value, part |-> TRUE iff only a proper prefix of its  *)
(* bytes is present (then it is the last token of the file)].              *)
(***************************************************************************)
Tok(v) == [v |-> v, part |-> FALSE]
FileOf(keys, offset, primary) ==
  <<Tok(0), Tok(offset), Tok(primary), Tok(Len(keys))>> \o [i \in 1..Len(keys) |-> Tok(keys[i])]

NoDisk == [exists |-> FALSE, mode |-> 0, toks |-> <<>>]
InitDisk == IF InitKeys = 0 THEN NoDisk
            ELSE [exists |-> TRUE, mode |-> FileMode,
                  toks |-> FileOf([i \in 1..InitKeys |-> 99 + i], InitOffset, InitKeys - 1)]

(***************************************************************************)
(* KeySetProvider::load, branch by branch, on tokens.  INTENDED behaviour: *)
(* `primary >= len` is rejected (the code has `>`: suspected defect F-6).  *)
(* Trailing tokens after the declared keys are ignored, as in the code.    *)
(***************************************************************************)
Complete(toks, n) == Len(toks) >= n /\ \A i \in 1..n : ~toks[i].part
LoadClass(d) ==
  IF ~d.exists THEN "nofile"
  ELSE IF ~Complete(d.toks, 4) THEN "shorthdr"
  ELSE LET p == d.toks[3].v  n == d.toks[4].v IN
       IF p > n THEN "p>len"
       ELSE IF p = n THEN "p=len"
       ELSE IF ~Complete(d.toks, 4 + n) THEN "shortkeys"
       ELSE "ok"
LoadOk(d) == LoadClass(d) = "ok"
Loaded(d) == [keys |-> [i \in 1..d.toks[4].v |-> d.toks[4 + i].v], offset |-> d.toks[2].v, primary |-> d.toks[3].v]
SetOf(s) == [keys |-> s.keys, offset |-> s.offset, primary |-> s.primary]

(***************************************************************************)
(* State.                                                                  *)
(*  up       the daemon is running (mem meaningful)                        *)
(*  keys/offset/primary   the KeySet held by the provider                  *)
(*  next     identity of the next fresh key                                *)
(*  cookies  cookies issued so far: [w |-> wire id, k |-> issuing key]     *)
(*  disk     the key file                                                  *)
(*  fd       0: no store in progress; j >= 1: next token to write          *)
(*  nf       faults injected so far                                        *)
(***************************************************************************)
InitState == [up |-> FALSE, keys |-> <<>>, offset |-> 0, primary |-> 0, next |-> 0, cookies |-> <<>>,
              disk |-> InitDisk, fd |-> 0, nf |-> 0]

NTok(s) == 4 + Len(s.keys)
Wire(s) == (s.primary + s.offset) % M
Usable(set) == set.primary < Len(set.keys)

\* --- KeySetProvider::rotate -------------------------------------------------------------------------------
PostRotate(s) ==
  LET d  == Max(Len(s.keys) - History, 0)
      nk == SubSeq(s.keys, d + 1, Len(s.keys)) \o <<s.next>>
  IN [s EXCEPT !.keys = nk, !.offset = (s.offset + d) % M, !.primary = Len(nk) - 1, !.next = s.next + 1]

\* --- KeySet::encode_cookie / decode_cookie -----------------------------------------------------------------
IssuedCookie(s) == [w |-> Wire(s), k |-> s.keys[s.primary + 1]]
Variants == {"intact", "padded", "cut", "tamper", "foreign", "short"}
\* intact: as issued; padded: bytes appended after the declared length; cut: last byte(s) removed;
\* tamper: one byte inside the declared length changed (the harness tries EVERY byte);
\* foreign: a cookie with the same wire id made by another key set; short: fewer than 22 bytes.
DecodeHit(s, c) == LET idx == (c.w - s.offset + M) % M IN idx < Len(s.keys) /\ s.keys[idx + 1] = c.k
DecodeRes(s, c, var) == IF var \in {"intact", "padded"} /\ DecodeHit(s, c) THEN "ok" ELSE "err"

\* --- store path (nts_key_provider.rs: OpenOptions create/truncate/write/mode(0o600); keyset.rs store) -----------
Overlay(old, j, t) ==   \* token j of the file replaced / appended
  IF j <= Len(old) THEN [old EXCEPT ![j] = t] ELSE old \o <<t>>
NewTok(s, j) == FileOf(s.keys, s.offset, s.primary)[j]
PostOpen(s) ==
  [s EXCEPT !.disk = [exists |-> TRUE, mode |-> IF s.disk.exists THEN s.disk.mode ELSE FileMode,
                      toks |-> IF Trunc THEN <<>> ELSE s.disk.toks],
            !.fd = 1]
PostWrite(s) == [s EXCEPT !.disk.toks = Overlay(s.disk.toks, s.fd, NewTok(s, s.fd)), !.fd = s.fd + 1]
PostClose(s) == [s EXCEPT !.fd = 0]

\* crash of the daemon (process killed / power loss).  torn: in the middle of writing token fd.  Only modelled
\* for a truncating open, where the torn token is the last of the file (a non-truncating open is the negative
\* configuration, for which token-boundary crashes already show the defect).
TornDisk(s) == [s.disk EXCEPT !.toks = Overlay(s.disk.toks, s.fd, [v |-> NewTok(s, s.fd).v, part |-> TRUE])]
PostCrash(s, torn) ==
  [s EXCEPT !.up = FALSE, !.fd = 0, !.disk = IF torn THEN TornDisk(s) ELSE s.disk]

\* daemon start: load, falling back to a fresh key set (KeySetProvider::new: one key, offset 0, primary 0)
PostRestart(s) ==
  IF LoadOk(s.disk)
  THEN LET l == Loaded(s.disk) IN [s EXCEPT !.up = TRUE, !.keys = l.keys, !.offset = l.offset, !.primary = l.primary]
  ELSE [s EXCEPT !.up = TRUE, !.keys = <<s.next>>, !.offset = 0, !.primary = 0, !.next = s.next + 1]

\* --- faults on the file at rest --------------------------------------------------------------------------------
\* Truncate(n, part): the file is cut after n complete tokens (+ a partial one)
PostTruncate(s, n, part) ==
  LET keep == SubSeq(s.disk.toks, 1, n)
  IN [s EXCEPT !.disk.toks = IF part THEN keep \o <<[s.disk.toks[n + 1] EXCEPT !.part = TRUE]>> ELSE keep,
               !.nf = s.nf + 1]
\* CorruptHeader(field, cls): value classes relative to the number of complete key tokens in the file (for len)
\* and to the len field (for primary); "bump" for the offset (+1 modulo M).
FieldPos(f) == CASE f = "offset" -> 2 [] f = "primary" -> 3 [] f = "len" -> 4
NKeysOnDisk(d) == Cardinality({ i \in 5..Len(d.toks) : ~d.toks[i].part })
ClassValue(d, f, cls) ==
  LET ref == IF f = "len" THEN NKeysOnDisk(d) ELSE d.toks[4].v
  IN CASE cls = "zero" -> 0 [] cls = "refm1" -> ref - 1 [] cls = "ref" -> ref [] cls = "refp1" -> ref + 1
       [] cls = "max" -> MAXV [] cls = "bump" -> (d.toks[2].v + 1) % M
PostCorruptHeader(s, f, cls) ==
  [s EXCEPT !.disk.toks[FieldPos(f)].v = ClassValue(s.disk, f, cls), !.nf = s.nf + 1]
PostCorruptKey(s, i) ==
  [s EXCEPT !.disk.toks[4 + i].v = CorruptId + i, !.nf = s.nf + 1]

(***************************************************************************)
(* Actions: records [t |-> ..., parameters].                               *)
(***************************************************************************)
Enabled(s, a) ==
  CASE a.t = "Rotate"  -> s.up /\ s.fd = 0 /\ s.next < MaxGen
    [] a.t = "Issue"   -> s.up /\ Usable(s) /\ Len(s.cookies) < MaxCookies
                          /\ IssuedCookie(s) \notin Range(s.cookies)
    [] a.t = "Decode"  -> s.up /\ a.c \in 1..Len(s.cookies)
    [] a.t = "Open"    -> s.up /\ s.fd = 0
    [] a.t = "Write"   -> s.up /\ s.fd \in 1..NTok(s)
    [] a.t = "Close"   -> s.up /\ s.fd = NTok(s) + 1
    [] a.t = "Crash"   -> s.up /\ (a.torn => Trunc /\ s.fd \in 1..NTok(s))
    [] a.t = "Restart" -> ~s.up /\ s.next < MaxGen
    [] a.t = "Truncate" -> ~s.up /\ s.disk.exists /\ s.nf < MaxFaults /\ a.n < Len(s.disk.toks)
                           /\ (a.part => ~s.disk.toks[a.n + 1].part)
    [] a.t = "CorruptHeader" -> ~s.up /\ s.disk.exists /\ s.nf < MaxFaults /\ Complete(s.disk.toks, 4)
                                /\ ClassValue(s.disk, a.f, a.cls) >= 0
                                /\ ClassValue(s.disk, a.f, a.cls) # s.disk.toks[FieldPos(a.f)].v
                                /\ ((a.cls = "bump") <=> (a.f = "offset"))
    [] a.t = "CorruptKey" -> ~s.up /\ s.disk.exists /\ s.nf < MaxFaults /\ Complete(s.disk.toks, 4 + a.i)
                             /\ s.disk.toks[4 + a.i].v < CorruptId

Post(s, a) ==
  CASE a.t = "Rotate"  -> PostRotate(s)
    [] a.t = "Issue"   -> [s EXCEPT !.cookies = Append(s.cookies, IssuedCookie(s))]
    [] a.t = "Decode"  -> s
    [] a.t = "Open"    -> PostOpen(s)
    [] a.t = "Write"   -> PostWrite(s)
    [] a.t = "Close"   -> PostClose(s)
    [] a.t = "Crash"   -> PostCrash(s, a.torn)
    [] a.t = "Restart" -> PostRestart(s)
    [] a.t = "Truncate" -> PostTruncate(s, a.n, a.part)
    [] a.t = "CorruptHeader" -> PostCorruptHeader(s, a.f, a.cls)
    [] a.t = "CorruptKey" -> PostCorruptKey(s, a.i)

\* Outputs.  res: what the call returned; w/k: wire id and key of an issued cookie; load: what a start of the
\* daemon on the file as it is after this step would do ("-" where not observed): on the store path "err" /
\* "same" (the set being stored) / "other"; for Restart and faults "ok" / "err", with cls = the branch of `load`
\* taken (not observable; used to name findings).  The harness reports "unusable" for a file that loads to a key
\* set which cannot issue and decode a cookie.
NoOut == [res |-> "-", w |-> -1, k |-> -1, load |-> "-", cls |-> "-"]
OkErr(d) == IF LoadOk(d) THEN "ok" ELSE "err"
LoadView(d, expectSet) ==   \* classification used for crash points: the set being stored, an error, or something else
  IF ~LoadOk(d) THEN "err" ELSE IF Loaded(d) = expectSet THEN "same" ELSE "other"
Out(s, a) ==
  CASE a.t = "Issue"   -> [NoOut EXCEPT !.res = "cookie", !.w = Wire(s), !.k = s.keys[s.primary + 1]]
    [] a.t = "Decode"  -> [NoOut EXCEPT !.res = DecodeRes(s, s.cookies[a.c], a.var)]
    [] a.t = "Open"    -> [NoOut EXCEPT !.res = IF s.disk.exists THEN "opened" ELSE "created",
                                        !.load = LoadView(PostOpen(s).disk, SetOf(s))]
    [] a.t = "Write"   -> [NoOut EXCEPT !.load = LoadView(PostWrite(s).disk, SetOf(s))]
    [] a.t = "Close"   -> [NoOut EXCEPT !.load = LoadView(s.disk, SetOf(s))]
    [] a.t = "Crash"   -> [NoOut EXCEPT !.load = IF s.fd = 0 THEN "-" ELSE LoadView(PostCrash(s, a.torn).disk, SetOf(s))]
    [] a.t = "Restart" -> [NoOut EXCEPT !.res = IF LoadOk(s.disk) THEN "loaded" ELSE "fresh", !.load = OkErr(s.disk),
                                        !.cls = LoadClass(s.disk)]
    [] a.t \in {"Truncate", "CorruptHeader", "CorruptKey"} ->
         [NoOut EXCEPT !.load = OkErr(Post(s, a).disk), !.cls = LoadClass(Post(s, a).disk)]
    [] OTHER -> NoOut

(***************************************************************************)
(* Cones: which observables each property constrains on a step.            *)
(* Observables: keys offset primary (the provider's key set, projected by  *)
(* the harness to identities), disk (exists/mode/tokens), out.res out.w    *)
(* out.k out.load, usable (the key set can issue a cookie and decode it    *)
(* again without panicking), panic.                                        *)
(***************************************************************************)
MemObs == {"keys", "offset", "primary"}
ConeKeys == {"Rotate", "Issue", "Decode", "Open", "Write", "Close", "Crash", "Restart", "Truncate", "CorruptHeader", "CorruptKey"}
ConeKey(s, a) == a.t
ConeKeyStr(k) == k
ConesOf(k) ==
  [C26 |-> CASE k = "Rotate" -> MemObs \cup {"usable", "panic"}
             [] k = "Issue"  -> {"out.res", "out.w", "out.k", "panic"}
             [] k = "Decode" -> {"out.res", "panic"}
             [] OTHER -> {},
   C27 |-> CASE k \in {"Open", "Write", "Close", "Crash"} -> {"disk", "out.res", "out.load", "panic"}
             [] k = "Restart" -> MemObs \cup {"out.res", "out.load", "usable", "panic"}
             [] k = "Decode" -> {"out.res", "panic"}      \* cookies issued before a restart stay valid
             [] k \in {"Truncate", "CorruptHeader", "CorruptKey"} -> {"out.load", "panic"}
             [] OTHER -> {}]
Cones(s, a) == ConesOf(ConeKey(s, a))
ConeTable == [k \in ConeKeys |-> ConesOf(k)]

VARIABLE st
vars == <<st>>

(***************************************************************************)
(* Declarative statements of the properties over Post/Out.                 *)
(***************************************************************************)
\* C26 (a): a cookie decodes to what it was made from iff its issuing key is still in the window -- for every
\* cookie ever issued, in every reachable state without file faults; modified / foreign / short cookies never decode.
\* (Reading taken: bytes appended after the declared length are not "within its declared length": such a cookie
\* still decodes, as the code does.)
C26_Decode(s, a) ==
  (a.t = "Decode" /\ s.nf = 0) =>
     LET c == s.cookies[a.c] IN
     (Out(s, a).res = "ok") <=> (c.k \in Range(s.keys) /\ a.var \in {"intact", "padded"})
\* C26 (b): rotation keeps the newest `History` keys and appends a fresh one; at most History+1 keys afterwards
C26_Rotate(s, a) ==
  a.t = "Rotate" =>
     LET n == Post(s, a) IN
     /\ n.keys = LastN(s.keys, History) \o <<s.next>>
     /\ Len(n.keys) <= History + 1
     /\ n.primary = Len(n.keys) - 1
     /\ \A i \in 1..Len(n.keys) : \A j \in 1..Len(s.keys) :     \* surviving keys keep their wire id
           n.keys[i] = s.keys[j] => (n.offset + i - 1) % M = (s.offset + j - 1) % M
\* C26 (c): new cookies are issued under the newest key (after the first rotation, or a fresh start)
C26_Newest(s, a) ==
  (a.t = "Issue" /\ s.nf = 0 /\ s.primary = Len(s.keys) - 1) => Out(s, a).k = s.keys[Len(s.keys)]
C26_PrimaryLast == (st.up /\ st.nf = 0) => st.primary = Len(st.keys) - 1
\* wire ids of the keys in the window are pairwise distinct (needs window <= M)
C26_UniqueIds == st.up => \A i, j \in 1..Len(st.keys) : i # j => (st.offset + i) % M # (st.offset + j) % M

\* C27 (a): a completed store is restored exactly (Restart is Load, so: the closed file loads to the stored set)
C27_CleanRestore(s, a) == (a.t = "Close" /\ s.nf = 0) => Out(s, a).load = "same"
\* C27 (b): at every point of the store path -- between tokens and inside any token -- a start of the daemon
\* finds an unreadable file (fresh keys) or exactly the set being stored
C27_CrashAtomic(s, a) ==
  (a.t \in {"Open", "Write", "Close", "Crash"} /\ s.nf = 0) => Out(s, a).load \in {"-", "err", "same"}
\* C27 (c): whatever happened to the file, the daemon starts with a key set it can use
C27_Usable(s, a) == /\ a.t = "Restart" => Usable(SetOf(Post(s, a)))
                    /\ LoadOk(Post(s, a).disk) => Usable(Loaded(Post(s, a).disk))
\* C27 (d): a file created by the store path is accessible by its owner only
C27_Mode(s, a) == (a.t = "Open" /\ ~s.disk.exists) => Post(s, a).disk.mode = FileMode
\* C27 (e): cookies issued before a restart stay valid when their key is restored
C27_CookiesSurvive(s, a) ==
  (a.t = "Restart" /\ s.nf = 0) =>
     LET n == Post(s, a) IN
     \A i \in 1..Len(s.cookies) : s.cookies[i].k \in Range(n.keys) => DecodeHit(n, s.cookies[i])
=============================================================================
