-------------------------- MODULE MC_CsptpClient --------------------------
(***************************************************************************)
(* Bounded model of the client part of Csptp.tla (C44): the RequestState   *)
(* machine of one CSPTP source over MaxReq successive requests, driven by  *)
(* the datagram classes below and by timeouts.  Every explored transition  *)
(* is printed and replayed on the real CsptpSource::run (paused clock,     *)
(* scripted ClientSocket).                                                 *)
(***************************************************************************)
EXTENDS Csptp, Json

CONSTANTS MaxReq,    \* requests per behaviour
          T3s,       \* origin timestamp classes of one-step responses / follow-ups
          Corrs,     \* correction classes of response / follow-up headers
          ReqCorrs   \* echoed request correction classes

VARIABLE st
vars == <<st>>

Pkt(kind, match, t3, corr, reqcorr, status) ==
  [kind |-> kind, match |-> match, t3 |-> t3, corr |-> corr, reqcorr |-> reqcorr, status |-> status]

Matching ==
  { Pkt("resp1", "match", t, c, r, FALSE) : t \in T3s, c \in Corrs, r \in ReqCorrs }
  \cup { Pkt("resp2", "match", "zero", c, r, FALSE) : c \in Corrs, r \in ReqCorrs }
  \cup { Pkt("followup", "match", t, c, "zero", FALSE) : t \in T3s, c \in Corrs }
  \cup { Pkt("resp1", "match", "midC", "zero", "zero", TRUE), Pkt("resp2", "match", "zero", "pos1", "zero", TRUE) }
Others ==
  { Pkt(k, m, "midC", "zero", "zero", FALSE) : k \in {"resp1", "resp2", "followup"}, m \in {"wrongseq", "wrongdomain"} }
  \cup { Pkt(k, "match", "midC", "zero", "zero", FALSE) : k \in {"request", "otherptp", "garbage", "resp_nots"} }
  \cup { Pkt("request", "wrongseq", "midC", "zero", "zero", FALSE) }

Acts == { [t |-> "Recv", p |-> p] : p \in Matching \cup Others } \cup { [t |-> "Timeout"] }

Enabled(s, a) == IF a.t = "Timeout" THEN s.req < MaxReq ELSE s.rs # "Idle"

Init == st = CliInit
Next == \E a \in Acts : Enabled(st, a) /\ st' = CliPost(st, a)
Spec == Init /\ [][Next]_vars

TypeOK == st.req \in 1..MaxReq /\ st.rs \in {"WaitResp", "WaitFollowUp", "HaveFollowUp", "Idle"} /\ st.got \in 0..1
C44_OnlyMatchingAnswers == (\A a \in Acts : Enabled(st, a) => C44_Step(st, a)) /\ C44_AtMostOnce(st)

GenInit == Init /\ PrintT(<<"INIT", ToJson(st)>>) /\ PrintT(<<"CONES", ToJson(CliConeTable)>>)
GenNext == \E a \in Acts :
             /\ Enabled(st, a)
             /\ st' = CliPost(st, a)
             /\ PrintT(<<"EDGE", ToJson([pre |-> st, act |-> a, post |-> st', out |-> CliOut(st, a), ck |-> CliConeKey(st, a)])>>)
=============================================================================
