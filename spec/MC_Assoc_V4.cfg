CONSTANTS
  Mode = "NtsV4"
  MinPoll = 4
  MaxPoll = 4
  LocalStratum = 16
  SrcLocal = FALSE
  History = 1
  MaxGen = 2
  MaxNet = 2
  CLen = 104
  Desired = {4}
INIT Init
NEXT Next
CHECK_DEADLOCK FALSE
INVARIANTS TypeOK E08_OneMeasurementPerRequest E13_CookieEconomy E07_NakHasNoEffect E26_KeyWindow
