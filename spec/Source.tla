------------------------------- MODULE Source -------------------------------
(***************************************************************************)
(* The NTP source association of ntpd-rs (ntp-proto/src/source.rs):        *)
(* one client<->server association, driven by two public calls             *)
(*   handle_timer()            -> action Timer(desired)                    *)
(*   handle_incoming(datagram) -> action Recv(p)                           *)
(* and the passage of time (Tick), which only matters through the 5 s poll *)
(* window of the outstanding request.                                      *)
(*                                                                         *)
(* The state is one record `st`; Post(s, a) is the transition function,    *)
(* Out(s, a) what the call returns / emits, Cones(s, a) the observables    *)
(* each listed property constrains on that step.  The same three operators *)
(* are used by the exhaustive model (MC_Source), by the test generator     *)
(* (every explored transition is printed and replayed on the real          *)
(* NtpSource) and by the trace validator (Trace_Source).                   *)
(*                                                                         *)
(* Properties anchored here: C07 C08 C09 C10 C11 C12 C13 C14 C33.          *)
(***************************************************************************)
EXTENDS Naturals, Integers, Sequences, FiniteSets, TLC

CONSTANTS Mode,          \* "PlainV4" | "PlainV5" | "PlainAuto" | "NtsV4" | "NtsV5"
          MinPoll,       \* configured minimum poll exponent
          MaxPoll,       \* configured maximum poll exponent
          LocalStratum,  \* local stratum (sources must be strictly below it)
          SrcLocal       \* TRUE iff the source's address is one of this daemon's own addresses

Nts   == Mode \in {"NtsV4", "NtsV5"}
NEVER == 127                     \* PollInterval::NEVER
MaxCookies == 8                  \* cookiestash::MAX_COOKIES
UpgradeTries == 8                \* ProtocolVersion::DEFAULT_UPGRADE_TRIES
StartupTries == 3                \* STARTUP_TRIES_THRESHOLD
AfterUpgradeTries == 2           \* AFTER_UPGRADE_TRIES_THRESHOLD
MaxStratum == 16
BufLen == 1024

Min(a, b) == IF a <= b THEN a ELSE b
Max(a, b) == IF a >= b THEN a ELSE b

(***************************************************************************)
(* State.  proto/k: ProtocolVersion (k = tries_left while upgrading).      *)
(* since: polls since the last usable answer, saturating at 8 -- an exact  *)
(*   abstraction of the 8-bit reach register (Reach.tla proves it).        *)
(* tries: polls sent, saturating at 3 (only ">= 3" is ever read).          *)
(* pend: 0 none, 1 outstanding & inside the poll window, 2 outstanding at  *)
(*   the closing instant of the window (still valid), 3 outstanding but    *)
(*   expired.                                                              *)
(* stash: byte lengths of the NTS cookies held, oldest first.              *)
(***************************************************************************)
InitProto == CASE Mode = "PlainV4" -> "V4" [] Mode = "NtsV4" -> "V4"
               [] Mode = "PlainV5" -> "V5" [] Mode = "NtsV5" -> "V5"
               [] Mode = "PlainAuto" -> "Upg"

InitState(initialStash) ==
  [proto |-> InitProto, k |-> IF Mode = "PlainAuto" THEN UpgradeTries ELSE 0,
   since |-> 8, tries |-> 0, pend |-> 0, deny |-> FALSE,
   remoteMin |-> MinPoll, lastPoll |-> MinPoll,
   stash |-> initialStash, stratum |-> 16, refLocal |-> FALSE]

(***************************************************************************)
(* Loop / stratum / reachability test (accept_synchronization).  The Bloom *)
(* filter clause lives in Bloom.tla.  Reading of C33 taken: the self/loop  *)
(* clause is skipped for stratum-1 sources, as the code does.              *)
(***************************************************************************)
Usable(s) == /\ s.stratum < LocalStratum
             /\ ~(s.stratum # 1 /\ (SrcLocal \/ s.refLocal))
             /\ s.since <= 7

(***************************************************************************)
(* Timer(desired): handle_timer with the clock filter asking for `desired`.*)
(***************************************************************************)
TimerDone(s) == s.since = 8 /\ s.tries >= StartupTries     \* unreachable: reset / demobilize

Fallback(s) == IF s.proto = "Upgraded" /\ s.since >= AfterUpgradeTries THEN "V4" ELSE s.proto

\* A cookie is one integer: identity * 2048 + byte length (identity 0 in the bounded model, where cookies of
\* one length are interchangeable; real identities in validated traces).
CLenOf(c) == c % 2048

\* how many cookies the request asks for, given the cookie about to be sent and the stash after taking it
NewCookies(c, stashAfter) ==
  Min(MaxCookies - Len(stashAfter), Min((BufLen - 300) \div Max(CLenOf(c), 1), 255))

TimerShift(s) == [s EXCEPT !.proto = Fallback(s), !.since = Min(s.since + 1, 8),
                            !.tries = Min(s.tries + 1, StartupTries)]

TimerPoll(s, desired) == Max(desired, s.remoteMin)

TimerKind(s) ==   \* which exit of handle_timer is taken
  IF TimerDone(s) THEN (IF s.deny THEN "demobilize" ELSE "reset")
  ELSE IF Nts /\ Len(s.stash) = 0 THEN "nocookie"
  ELSE IF Nts /\ NewCookies(Head(s.stash), Tail(s.stash)) = 0 THEN "bigcookie"
  ELSE "send"

PostTimer(s, desired) ==
  LET kind == TimerKind(s)
      sh   == TimerShift(s)
  IN CASE kind \in {"demobilize", "reset"} -> s
       [] kind = "nocookie"  -> sh
       [] kind = "bigcookie" -> [sh EXCEPT !.stash = Tail(s.stash)]
       [] kind = "send" ->
            [sh EXCEPT !.pend = 1, !.lastPoll = TimerPoll(s, desired),
                       !.stash = IF Nts THEN Tail(s.stash) ELSE s.stash]

SendVersion(p) == IF p \in {"V4", "Upg"} THEN 4 ELSE 5

\* Size of the request the encoder produces (C14): header 48; NTS: uid field 36, cookie field,
\* placeholders, v5 draft-id field + reference-id request (authenticated, minimum 16 each), authenticator
\* field 8 + 16 nonce + 16 tag (no encrypted content); plain v5: draft id + reference-id request.
Pad4(n) == ((n + 3) \div 4) * 4
EfLen(body, minimum) == Pad4(Max(body + 4, minimum))
DraftLen == 23                     \* "draft-ietf-ntp-ntpv5-09"
ReqLen(ver, nts, clen, ncookies) ==
  48
  + (IF nts THEN EfLen(32, 16) + EfLen(clen, 16) + (ncookies - 1) * EfLen(clen, 16) ELSE 0)
  + (IF ver = 5 THEN (IF nts THEN EfLen(DraftLen, 16) + 20 ELSE EfLen(DraftLen, 4) + 20) ELSE 0)
  + (IF nts THEN 8 + 16 + 16 ELSE 0)

OutTimer(s, desired) ==
  LET kind == TimerKind(s)
      post == PostTimer(s, desired)
      none == [actions |-> <<>>, ver |-> 0, poll |-> 0, marker |-> FALSE, cookie |-> -1,
               placeholders |-> 0, usable |-> "none", meas |-> 0, stored |-> 0, len |-> 0]
  IN CASE kind = "demobilize" -> [none EXCEPT !.actions = <<"Demobilize">>]
       [] kind \in {"reset", "nocookie"} -> [none EXCEPT !.actions = <<"Reset">>]
       [] kind = "bigcookie" -> [none EXCEPT !.actions = <<"Reset">>]
       [] kind = "send" ->
            LET ver == SendVersion(post.proto)
                nc  == IF Nts THEN NewCookies(Head(s.stash), Tail(s.stash)) ELSE 0
            IN [actions |-> <<"Send", "SetTimer">>, ver |-> ver, poll |-> post.lastPoll,
                marker |-> (post.proto = "Upg"), cookie |-> IF Nts THEN Head(s.stash) ELSE -1,
                placeholders |-> IF Nts THEN nc - 1 ELSE 0,
                usable |-> IF Usable(post) THEN "yes" ELSE "no", meas |-> 0, stored |-> 0,
                len |-> ReqLen(ver, Nts, IF Nts THEN CLenOf(Head(s.stash)) ELSE 0, nc)]

(***************************************************************************)
(* Recv(p): handle_incoming.  p is an abstract datagram:                   *)
(*  parse   "ok" | "garbage"     (garbage: does not decode at all)         *)
(*  ver     3 | 4 | 5 ; draft: v5 draft identification present             *)
(*  mode    "server" | "other"                                             *)
(*  id      "cur" | "old" | "none" : origin timestamp / client cookie      *)
(*          equals the latest request's, the previous request's, neither   *)
(*  seal    "none" (no authenticator field) | "s2c" | "other" (sealed      *)
(*          under a different key) | "tampered" (sealed, then modified)    *)
(*  ua/ue/uu unique identifier in the authenticated / encrypted /          *)
(*          unauthenticated part: "none" | "ok" | "bad"                    *)
(*  stratum 0 (KISS) .. ; code: v3/v4 KISS code; poll, authnak: v5 header  *)
(*  marker  v4 upgrade marker in the reference timestamp                   *)
(*  cEnc/cAuth/cUnt: sequences of cookie lengths carried in the encrypted  *)
(*          / authenticated-only / unauthenticated part                    *)
(*  refLocal: the (v3/v4) reference id is one of our own addresses         *)
(***************************************************************************)
IsKiss(p) == p.stratum = 0
IsNtsn(p) == IsKiss(p) /\ (IF p.ver = 5 THEN p.authnak ELSE p.code = "NTSN")
IsRate(p, own) == IsKiss(p) /\ (IF p.ver = 5 THEN p.poll > own /\ p.poll # NEVER ELSE p.code = "RATE")
IsDeny(p) == IsKiss(p) /\ (IF p.ver = 5 THEN p.poll = NEVER ELSE p.code \in {"DENY", "RSTR"})

Decodes(p) ==   \* NtpPacket::deserialize returns Ok
  /\ p.parse = "ok"
  /\ (p.ver = 5 => p.draft)
  /\ (p.ver = 3 => /\ p.seal = "none" /\ p.ua = "none" /\ p.ue = "none" /\ p.uu = "none"   \* v3 has no extension fields
                   /\ p.cEnc = <<>> /\ p.cAuth = <<>> /\ p.cUnt = <<>>)
  /\ IF Nts THEN p.seal \in {"none", "s2c"} ELSE p.seal = "none"

ExpectedVersion(proto, ver) ==
  CASE proto = "V4" -> ver \in {3, 4}
    [] proto = "Upg" -> ver = 4
    [] proto \in {"Upgraded", "V5"} -> ver = 5

\* valid_server_response: unique-identifier binding (NTS requests only) and origin match
UidBound(p) ==
  /\ p.ua # "bad" /\ p.ue # "bad"
  /\ (p.uu # "bad" \/ ~IsNtsn(p))
  /\ (p.ua = "ok" \/ p.ue = "ok" \/ (IsNtsn(p) /\ p.uu = "ok"))

\* C07: "authenticated under the session's server-to-client key and bound to the pending request"
Authentic(p) == p.seal = "s2c" /\ (p.ua = "ok" \/ p.ue = "ok")

Valid(s, p) ==   \* the datagram is an answer to the outstanding request
  /\ Decodes(p)
  /\ ExpectedVersion(s.proto, p.ver)
  /\ s.pend \in {1, 2}
  /\ p.id = "cur"
  /\ (Nts => UidBound(p) /\ Authentic(p))

RecvKind(s, p) ==
  IF ~Valid(s, p) THEN "ignore"
  ELSE IF IsNtsn(p) THEN "ntsn"
  ELSE IF IsRate(p, s.lastPoll) THEN "rate"
  ELSE IF IsDeny(p) THEN "deny"
  ELSE IF IsKiss(p) THEN "kiss"
  ELSE IF p.stratum > MaxStratum THEN "stratum"
  ELSE IF p.mode # "server" THEN "mode"
  ELSE "time"

\* upgrade state machine, run for every Valid answer (whatever its kind)
Negotiate(s, p) ==
  IF s.proto = "Upg" THEN
       IF p.marker THEN [s EXCEPT !.proto = "Upgraded", !.k = 0]
       ELSE IF s.k - 1 = 0 THEN [s EXCEPT !.proto = "V4", !.k = 0]
       ELSE [s EXCEPT !.k = s.k - 1]
  ELSE IF s.proto = "Upgraded" THEN [s EXCEPT !.proto = "V5"]
  ELSE s

RateInc(rm) == Min(IF rm >= NEVER THEN NEVER ELSE rm + 1, MaxPoll)   \* PollInterval::inc, saturating

KeepNewest(q) == IF Len(q) <= MaxCookies THEN q ELSE SubSeq(q, Len(q) - MaxCookies + 1, Len(q))

PostRecv(s, p) ==
  LET kind == RecvKind(s, p)
      n    == IF kind = "ignore" THEN s ELSE Negotiate(s, p)
  IN CASE kind \in {"ignore"} -> s
       [] kind \in {"ntsn", "kiss", "stratum", "mode"} -> n
       [] kind = "rate" -> [n EXCEPT !.remoteMin = Max(RateInc(s.remoteMin), s.lastPoll)]
       [] kind = "deny" -> IF Nts THEN n ELSE [n EXCEPT !.deny = TRUE]
       [] kind = "time" ->
            [n EXCEPT !.since = 0, !.deny = FALSE, !.pend = 0,
                      !.stratum = p.stratum,
                      !.refLocal = IF p.ver = 5 THEN FALSE ELSE p.refLocal,
                      !.remoteMin = IF p.ver = 5 /\ p.poll > s.remoteMin /\ p.poll <= NEVER THEN p.poll ELSE s.remoteMin,
                      !.stash = IF Nts THEN KeepNewest(s.stash \o p.cEnc) ELSE s.stash]

OutRecv(s, p) ==
  LET kind == RecvKind(s, p)
      post == PostRecv(s, p)
      none == [actions |-> <<>>, ver |-> 0, poll |-> 0, marker |-> FALSE, cookie |-> -1,
               placeholders |-> 0, usable |-> "none", meas |-> 0, stored |-> 0, len |-> 0]
  IN CASE kind = "deny" /\ Nts -> [none EXCEPT !.actions = <<"Demobilize">>]
       [] kind = "time" -> [none EXCEPT !.usable = IF Usable(post) THEN "yes" ELSE "no", !.meas = 2,
                                         !.stored = IF Nts THEN Len(p.cEnc) ELSE 0]
       [] OTHER -> none

(***************************************************************************)
(* Tick(n): time passes. n = 1: up to and including the instant the poll   *)
(* window closes; n = 2: beyond it.                                        *)
(***************************************************************************)
PostTick(s, n) == IF s.pend = 0 THEN s ELSE [s EXCEPT !.pend = Min(3, Max(s.pend, n + 1))]

Post(s, a) == CASE a.t = "Timer" -> PostTimer(s, a.desired)
                [] a.t = "Recv"  -> PostRecv(s, a.p)
                [] a.t = "Tick"  -> PostTick(s, a.n)

NoOut == [actions |-> <<>>, ver |-> 0, poll |-> 0, marker |-> FALSE, cookie |-> -1,
          placeholders |-> 0, usable |-> "none", meas |-> 0, stored |-> 0, len |-> 0]

Out(s, a) == CASE a.t = "Timer" -> OutTimer(s, a.desired)
               [] a.t = "Recv"  -> OutRecv(s, a.p)
               [] a.t = "Tick"  -> NoOut

(***************************************************************************)
(* Which observables each property constrains on a step (used to attribute *)
(* a disagreement between implementation and specification to properties). *)
(* State fields are named as in `st`; outputs are prefixed "out.".         *)
(***************************************************************************)
AllState == {"proto", "k", "since", "tries", "pend", "deny", "remoteMin", "lastPoll", "stash", "stratum", "refLocal"}
AllOut == {"out.actions", "out.ver", "out.poll", "out.marker", "out.cookie", "out.placeholders",
           "out.usable", "out.meas", "out.meas_over", "out.stored", "out.len", "out.timer_ok", "panic"}

\* The cones depend on the step only through three attributes, gathered in a key (so that the generator can
\* print the key with every transition and the table once).
Kinds == {"n/a", "ignore", "ntsn", "rate", "deny", "kiss", "stratum", "mode", "time"}
ConeKeys == {"Timer", "Recv", "Tick"} \X Kinds \X BOOLEAN
ConeKey(s, a) == <<a.t, IF a.t = "Recv" THEN RecvKind(s, a.p) ELSE "n/a",
                   a.t = "Recv" /\ ~(a.p.parse = "ok" /\ Authentic(a.p) /\ a.p.id = "cur")>>
ConeKeyStr(k) == k[1] \o ":" \o k[2] \o ":" \o (IF k[3] THEN "unauth" ELSE "auth")

ConesOf(k) ==
  LET recv  == k[1] = "Recv"
      timer == k[1] = "Timer"
      kind  == k[2]
  IN [C07 |-> IF Nts /\ recv /\ k[3] THEN AllState \cup AllOut ELSE {},
      \* C08 is a necessary condition ("only if"): a measurement the specification does not expect, or an
      \* outstanding request not consumed/kept as specified (replay protection), falsifies it; a *missing*
      \* measurement does not ("out.meas_over" = more measurements than expected).
      C08 |-> IF recv THEN {"out.meas_over", "pend", "panic"} ELSE {},
      C09 |-> IF recv /\ kind \in {"rate", "deny", "ntsn", "kiss"}
                 THEN {"remoteMin", "deny", "since", "tries", "pend", "stratum", "lastPoll", "out.actions", "out.meas", "panic"}
              \* (a usable answer clears the mark an unauthenticated DENY/RSTR left: "demobilised solely if it also stays unreachable")
              ELSE IF recv /\ kind = "time" /\ ~Nts THEN {"deny"}
              ELSE IF timer THEN {"out.poll", "out.actions"} ELSE {},
      C10 |-> IF timer THEN {"out.poll", "out.timer_ok", "lastPoll"}
              ELSE IF recv THEN {"remoteMin"} ELSE {},
      C11 |-> IF timer THEN {"out.actions", "since", "tries", "panic"}
              \* (pend: a usable answer only counts if the outstanding request is still there to be answered)
              ELSE IF recv THEN {"since", "pend", "deny"} ELSE {},
      C12 |-> IF timer THEN {"proto", "k", "out.ver", "out.marker"}
              ELSE IF recv THEN {"proto", "k", "out.meas_over"} ELSE {},
      C13 |-> IF Nts /\ timer THEN {"out.cookie", "out.placeholders", "stash"}
              ELSE IF Nts /\ recv THEN {"stash", "out.stored"} ELSE {},
      C14 |-> IF timer THEN {"panic", "out.len", "out.actions"} ELSE {},
      C33 |-> IF timer \/ recv THEN {"out.usable", "stratum", "refLocal"} ELSE {}]

Cones(s, a) == ConesOf(ConeKey(s, a))
ConeTable == [k \in {ConeKeyStr(x) : x \in ConeKeys} |-> ConesOf(CHOOSE x \in ConeKeys : ConeKeyStr(x) = k)]

(***************************************************************************)
(* The state machine.  Acts is supplied by the configuration module.       *)
(***************************************************************************)
VARIABLE st
vars == <<st>>

(***************************************************************************)
(* Declarative statements of the properties, checked against Post/Out for  *)
(* every reachable state s and every action a of the configuration.        *)
(***************************************************************************)
Unchanged(s, a) == Post(s, a) = s /\ Out(s, a) = NoOut

\* C07: an NTS source ignores whatever is not authentic and bound to the outstanding request
C07_Step(s, a) ==
  (Nts /\ a.t = "Recv" /\ ~(a.p.parse = "ok" /\ Authentic(a.p) /\ a.p.id = "cur" /\ s.pend \in {1, 2}))
     => Unchanged(s, a)
\* ... and cookies are only ever taken from the encrypted part of an accepted time answer
C07_Cookies(s, a) ==
  (Nts /\ a.t = "Recv") =>
     \/ Post(s, a).stash = s.stash
     \/ (RecvKind(s, a.p) = "time" /\ Post(s, a).stash = KeepNewest(s.stash \o a.p.cEnc))

\* C08: a measurement iff a fresh, matching, well-formed time answer; at most one per request
C08_Step(s, a) ==
  a.t = "Recv" =>
    LET p == a.p o == Out(s, a) IN
    /\ (o.meas > 0) <=> /\ Decodes(p) /\ ExpectedVersion(s.proto, p.ver) /\ s.pend \in {1, 2} /\ p.id = "cur"
                        /\ (Nts => UidBound(p) /\ Authentic(p))
                        /\ ~IsKiss(p) /\ p.stratum <= 16 /\ p.mode = "server"
    /\ (o.meas > 0) => Post(s, a).pend = 0

\* C09: KISS handling
C09_Step(s, a) ==
  a.t = "Recv" =>
    LET p == a.p n == Post(s, a) o == Out(s, a) kind == RecvKind(s, p) IN
    /\ kind = "rate" => /\ n.remoteMin >= s.lastPoll
                        /\ (s.remoteMin < MaxPoll => n.remoteMin >= s.remoteMin + 1) \/ n.remoteMin >= MaxPoll
                        /\ o.actions = <<>> /\ n.since = s.since /\ n.deny = s.deny
    /\ kind = "deny" => IF Nts THEN o.actions = <<"Demobilize">>
                        ELSE n.deny /\ o.actions = <<>> /\ n.since = s.since
    /\ kind \in {"ntsn", "kiss"} => /\ o = NoOut
                                    /\ [n EXCEPT !.proto = s.proto, !.k = s.k] = s
C09_Timer(s, a) ==   \* after RATE the next poll is not faster than the last one
  a.t = "Timer" /\ TimerKind(s) = "send" => Out(s, a).poll >= s.remoteMin
\* plain sources are demobilised only from the timer, and only when also unreachable
C09_Demob(s, a) ==
  (~Nts /\ Out(s, a).actions = <<"Demobilize">>) => a.t = "Timer" /\ s.deny /\ s.since = 8 /\ s.tries >= 3

\* C10: poll exponent within [MinPoll, max(MaxPoll, what the server asked for)]
C10_Step(s, a) ==
  a.t = "Timer" /\ TimerKind(s) = "send" =>
     LET o == Out(s, a) IN o.poll >= MinPoll /\ o.poll <= Max(MaxPoll, s.remoteMin) /\ o.poll >= a.desired

\* C11: reset/demobilise exactly when unreachable; since is the number of missed polls
C11_Step(s, a) ==
  a.t = "Timer" =>
    LET o == Out(s, a) IN
    /\ (s.since = 8 /\ s.tries >= 3) <=> (o.actions \in {<<"Reset">>, <<"Demobilize">>} /\ Post(s, a) = s)
    /\ (s.since = 8 /\ s.tries >= 3) => (o.actions = <<"Demobilize">>) = s.deny
    /\ (~Nts /\ ~(s.since = 8 /\ s.tries >= 3)) => o.actions = <<"Send", "SetTimer">>
C11_Inv == st.since \in 0..8 /\ st.tries \in 0..3 /\ (st.tries < 3 /\ st.since # 8 => st.since < st.tries)

\* C12: version negotiation
C12_Step(s, a) ==
  LET n == Post(s, a) o == Out(s, a) IN
  /\ (Mode \in {"PlainV4", "NtsV4"} => n.proto = "V4")
  /\ (Mode \in {"PlainV5", "NtsV5"} => n.proto = "V5")
  /\ (o.actions = <<"Send", "SetTimer">> => o.ver = (IF n.proto \in {"V4", "Upg"} THEN 4 ELSE 5)
                                            /\ o.marker = (n.proto = "Upg"))
  /\ (s.proto = "V4" => n.proto = "V4") /\ (s.proto = "V5" => n.proto = "V5")
  /\ (s.proto # n.proto =>
        \/ (s.proto = "Upg" /\ n.proto = "Upgraded" /\ a.t = "Recv" /\ a.p.marker /\ Valid(s, a.p) /\ a.p.ver = 4)
        \/ (s.proto = "Upg" /\ n.proto = "V4" /\ a.t = "Recv" /\ ~a.p.marker /\ Valid(s, a.p) /\ s.k = 1)
        \/ (s.proto = "Upgraded" /\ n.proto = "V5" /\ a.t = "Recv" /\ Valid(s, a.p) /\ a.p.ver = 5)
        \/ (s.proto = "Upgraded" /\ n.proto = "V4" /\ a.t = "Timer" /\ s.since >= 2))
  /\ (a.t = "Recv" /\ ~ExpectedVersion(s.proto, a.p.ver) => Unchanged(s, a))

\* C13: oldest first, at most eight, ask for exactly what is missing
C13_Step(s, a) ==
  /\ Len(Post(s, a).stash) <= MaxCookies
  /\ (Nts /\ a.t = "Timer" /\ TimerKind(s) = "send" =>
        LET o == Out(s, a) n == Post(s, a) IN
        /\ o.cookie = Head(s.stash) /\ n.stash = Tail(s.stash)
        /\ o.placeholders + 1 = Min(MaxCookies - Len(n.stash), Min(724 \div Max(CLenOf(Head(s.stash)), 1), 255)))

\* C14: the request fits the send buffer (or a reset is asked for)
C14_Step(s, a) ==
  a.t = "Timer" => LET o == Out(s, a) IN
     \/ o.actions \in {<<"Reset">>, <<"Demobilize">>}
     \/ (o.actions = <<"Send", "SetTimer">> /\ o.len <= BufLen)

\* C33: usable flag
C33_Step(s, a) ==
  LET o == Out(s, a) n == Post(s, a) IN
  o.usable # "none" =>
     (o.usable = "yes") <=> (n.stratum < LocalStratum /\ n.since <= 7
                              /\ ~(n.stratum # 1 /\ (SrcLocal \/ n.refLocal)))
=============================================================================
