-------------------------- MODULE MC_CsptpServer --------------------------
(***************************************************************************)
(* Bounded class space for the server part of Csptp.tla (C45): server      *)
(* states x datagram classes.  TLC checks C45_Step on the specification    *)
(* for every pair and prints the expected sends; the harness runs the real *)
(* statime_csptp::serve with a recording ServerSocket on every pair.       *)
(***************************************************************************)
EXTENDS Csptp, Json

VARIABLE st
vars == <<st>>

States == { [pts |-> f[1], tt |-> f[2], ft |-> f[3], rt |-> rt, ev |-> ev] :
              f \in {<<FALSE, FALSE, FALSE>>, <<TRUE, FALSE, TRUE>>, <<FALSE, TRUE, FALSE>>, <<TRUE, TRUE, TRUE>>},
              rt \in {"zero", "midA", "max"}, ev \in {"err", "zero", "midB", "max"} }

Req(dom, seq, corr, ws, ts, tlvs) ==
  [parse |-> "ok", sdo |-> "csptp", major |-> 2, body |-> "Sync", tlvs |-> tlvs, domain |-> dom, seq |-> seq,
   corr |-> corr, twostep |-> ts, wantStatus |-> ws, pad |-> 0]

Ids == {<<0, 0>>, <<128, 1>>, <<255, 65535>>}
Corrs == {"zero", "pos1", "neg1", "max", "min"}

\* well-formed requests
Plain == { Req(i[1], i[2], c, ws, ts, <<"req">>) : i \in Ids, c \in Corrs, ws \in BOOLEAN, ts \in BOOLEAN }
Base == Req(128, 1, "pos1", TRUE, FALSE, <<"req">>)
Arranged == { [Base EXCEPT !.tlvs = t, !.wantStatus = ws] :
                t \in {<<"pad", "req">>, <<"req", "pad">>, <<"req", "status">>, <<"pad", "req", "status">>}, ws \in BOOLEAN }
               \cup { [Base EXCEPT !.pad = 2] }

\* everything else: one deviation from a well-formed request each
Deviant ==
  { [Base EXCEPT !.parse = p] : p \in {"garbage", "truncated", "badnanos"} }
  \cup { [Base EXCEPT !.sdo = "other"], [Base EXCEPT !.major = 1] }
  \cup { [Base EXCEPT !.body = b] : b \in {"FollowUp", "DelayReq", "Announce", "Signaling"} }
  \cup { [Base EXCEPT !.tlvs = t] :
           t \in {<<>>, <<"pad">>, <<"req_empty">>, <<"req", "req">>, <<"req", "resp">>, <<"resp">>, <<"resp", "status">>,
                  <<"resp_short">>, <<"req", "req_empty">>, <<"req", "resp_short">>, <<"status">>} }
  \cup { [Base EXCEPT !.body = "FollowUp", !.tlvs = <<>>] }

Datagrams == Plain \cup Arranged \cup Deviant
Acts == { [s |-> s, d |-> d] : s \in States, d \in Datagrams }

Init == st = 0
Next == \E a \in Acts : st' = st

C45_AnswersOnlyRequests == \A a \in Acts : C45_Step(a.s, a.d)
NonVacuous == /\ \E d \in Datagrams : WellFormedRequest(d)
              /\ \E d \in Datagrams : SrvAccepts(d) /\ ~WellFormedRequest(d)
              /\ \E d \in Datagrams : ~SrvAccepts(d) /\ d.parse = "ok"

GenInit == Init
GenNext == \E a \in Acts :
             /\ st' = st
             /\ PrintT(<<"CASE", ToJson([act |-> a, out |-> SrvOut(a.s, a.d), cone |-> SrvCone])>>)
=============================================================================
