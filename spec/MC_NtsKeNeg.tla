---------------------------- MODULE MC_NtsKeNeg ----------------------------
(***************************************************************************)
(* Bounded enumeration for NtsKe.tla part 2 (C28): negotiation is a pure   *)
(* function of the offer lists, the server's accepted-version set and (for *)
(* the client) the answer, so the "state machine" has a single state and   *)
(* one transition per case.  Three families of cases:                      *)
(*   srv: honest server (real code) answering a byte-level client;         *)
(*   cli: real client against the real honest server;                      *)
(*   adv: real client against an arbitrary well-formed answer              *)
(*        [one protocol, one algorithm, n cookies, optional server/port].  *)
(***************************************************************************)
EXTENDS NtsKe, Json

CONSTANTS OfferLen,      \* maximal length of offer lists (srv, cli)
          AdvOfferSum,   \* adv: Len(offP) + Len(offA) <= AdvOfferSum, each <= OfferLen
          AcceptedSets,  \* server configurations: sets over {"v3", "v4", "v5"}
          AdvCookies     \* numbers of cookies in adversarial answers

SeqsUpTo(S, n) == UNION { [1..k -> S] : k \in 0..n }
OffP == SeqsUpTo(Protos, OfferLen)
OffA == SeqsUpTo(Algs, OfferLen)

SrvCases == { [t |-> "srv", offP |-> p, offA |-> a, accepted |-> acc] : p \in OffP, a \in OffA, acc \in AcceptedSets }
CliCases == { [t |-> "cli", offP |-> p, offA |-> a, accepted |-> acc] : p \in OffP, a \in OffA, acc \in AcceptedSets }
Answers  == { [proto |-> p, alg |-> a, cookies |-> n, server |-> sp, port |-> sp] :
                p \in Protos, a \in Algs, n \in AdvCookies, sp \in BOOLEAN }
AdvCases == { [t |-> "adv", offP |-> p, offA |-> a, r |-> r] :
                p \in {x \in OffP : Len(x) >= 1}, a \in {x \in OffA : Len(x) >= 1 /\ Len(x) <= AdvOfferSum - 1}, r \in Answers }
AdvCasesB == { c \in AdvCases : Len(c.offP) + Len(c.offA) <= AdvOfferSum }

Cases == SrvCases \cup CliCases \cup AdvCasesB

Acc(c) == c.accepted \cap {"v4", "v5"}      \* KeyExchangeServer::new drops V3 (mod.rs:451-459)

Expect(c) ==
  CASE c.t = "srv" -> LET s == ServerChoice(c.offP, c.offA, Acc(c))
                      IN [resp |-> s.resp, proto |-> s.proto, alg |-> s.alg, cookies |-> s.cookies, srv |-> s.srv, keysok |-> TRUE]
    [] c.t = "cli" -> LET s == ServerChoice(c.offP, c.offA, Acc(c))
                          k == ClientOnHonest(c.offP, c.offA, Acc(c))
                      IN [ok |-> k.ok, proto |-> k.proto, alg |-> k.alg, cookies |-> k.cookies, keysok |-> TRUE, srv |-> s.srv,
                          err |-> IF s.resp = "noproto" THEN "NoOverlappingProtocol" ELSE IF s.resp = "noalg" THEN "NoOverlappingAlgorithm" ELSE ""]
    [] c.t = "adv" -> LET k == ClientAdopt(c.offP, c.offA, c.r)
                      IN [ok |-> k.ok, proto |-> k.proto, alg |-> k.alg, cookies |-> k.cookies, keysok |-> TRUE,
                          remote |-> IF k.ok THEN (IF c.r.server THEN "other" ELSE "same") ELSE "n/a",
                          port |-> IF k.ok THEN (IF c.r.port THEN 4123 ELSE 123) ELSE 0]

Cone(c) == [C28 |-> IF c.t = "srv" THEN {"out.resp", "out.proto", "out.alg", "out.cookies", "out.keysok", "panic"}
                    ELSE {"out.ok", "out.proto", "out.alg", "out.cookies", "out.keysok", "panic"}]

VARIABLE st
Init == st = "neg"
Next == UNCHANGED st

\* the property on the model
C28_OnlyMutuallySupported ==
  /\ \A c \in SrvCases : C28_Server(c.offP, c.offA, Acc(c))
  /\ \A c \in CliCases : LET k == ClientOnHonest(c.offP, c.offA, Acc(c)) s == ServerChoice(c.offP, c.offA, Acc(c))
                         IN /\ k.ok => (k.proto \in Range(c.offP) /\ k.alg \in Range(c.offA) /\ k.proto = s.proto /\ k.alg = s.alg)
                            /\ (s.resp = "keys") => k.ok          \* an honest answer is always adoptable
  /\ \A c \in AdvCasesB : C28_Client(c.offP, c.offA, c.r)

GenInit == Init /\ PrintT(<<"INIT", ToJson([n |-> Cardinality(Cases)])>>)
GenNext == \E c \in Cases :
             /\ UNCHANGED st
             /\ PrintT(<<"CASE", ToJson([act |-> c, out |-> Expect(c), cones |-> Cone(c)])>>)
=============================================================================
