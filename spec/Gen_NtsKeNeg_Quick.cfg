CONSTANTS
  NConns = 1
  MaxReq = 1
  OfferLen = 2
  AdvOfferSum = 3
  AcceptedSets = {{}, {"v4"}, {"v5"}, {"v4", "v5"}, {"v3"}, {"v3", "v4", "v5"}}
  AdvCookies = {0, 1, 9}
INIT GenInit
NEXT GenNext
CHECK_DEADLOCK FALSE
INVARIANTS C28_OnlyMutuallySupported
