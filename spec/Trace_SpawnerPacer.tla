------------------------- MODULE Trace_SpawnerPacer -------------------------
(***************************************************************************)
(* Trace validation for the Pacer part of Spawner.tla (C36).  The harness  *)
(* records seeded random sessions of the real spawner_task on the paused   *)
(* tokio clock with a finer time unit than the bounded model (W = 20 ticks *)
(* of 50 ms), longer attempts and deeper event queues.  For every step the *)
(* specification's Post/Out is computed from its own current state (which  *)
(* includes the task's local variables, not observable from outside) and   *)
(* the observable projection is compared with the log.  The declarative    *)
(* C36 clauses are evaluated on every step as well (BAD lines).            *)
(***************************************************************************)
EXTENDS Spawner, Json, IOUtils

Rec == ndJsonDeserialize(IOEnv.TRACE)

VARIABLES st, l, skip, nb, fin
tvars == <<st, l, skip, nb, fin>>

Proj(s) == [up |-> s.up, complete |-> s.complete, busy |-> s.busy, qlen |-> Len(s.q), sinceEnd |-> s.sinceEnd]

Diff(exp, eo, ev) ==
  IF ev.panic # "" THEN {"panic"}
  ELSE { f \in {"up", "complete", "busy", "qlen", "sinceEnd"} : Proj(exp)[f] # ev.st[f] }
       \cup { "out." \o f : f \in { g \in {"started", "gap", "ended"} : eo[g] # ev.out[g] } }
       \cup (IF ~ev.out.times_ok THEN {"out.started"} ELSE {})

TraceInit == /\ l = 1 /\ skip = FALSE /\ nb = 0 /\ fin = FALSE /\ st = PacerInit

Reset(ev) == st' = PacerInit /\ skip' = FALSE /\ nb' = nb + 1

Step(ev) ==
  IF skip THEN UNCHANGED <<st, skip, nb>>
  ELSE LET a   == ev.act
           exp == PacerPost(st, a)
           eo  == PacerOut(st, a)
           d   == Diff(exp, eo, ev)
           bad == (IF ~C36_Paced(st, a) THEN {"attempt-before-wait-period-over"} ELSE {})
                  \cup (IF ~C36_Responsive(exp) THEN {"no-attempt-within-wait-period"} ELSE {})
       IN /\ nb' = nb
          /\ bad = {} \/ PrintT(<<"BAD", ToJson([line |-> l, act |-> a, pre |-> st, what |-> bad])>>)
          /\ IF d = {} THEN st' = exp /\ skip' = FALSE
             ELSE /\ UNCHANGED st /\ skip' = TRUE
                  /\ PrintT(<<"MISMATCH", ToJson([line |-> l, act |-> a, pre |-> st, fields |-> d,
                                                   expected |-> [st |-> Proj(exp), out |-> eo],
                                                   observed |-> [st |-> ev.st, out |-> ev.out], panic |-> ev.panic])>>)

TraceNext ==
  \/ /\ l <= Len(Rec) /\ l' = l + 1 /\ UNCHANGED fin
     /\ IF Rec[l].ev = "reset" THEN Reset(Rec[l]) ELSE Step(Rec[l])
  \/ /\ l = Len(Rec) + 1 /\ ~fin /\ fin' = TRUE /\ UNCHANGED <<st, l, skip, nb>>
     /\ PrintT(<<"DONE", ToJson([consumed |-> Len(Rec), behaviours |-> nb])>>)

TraceSpec == TraceInit /\ [][TraceNext]_tvars
=============================================================================
