CONSTANTS
  Mode = "NtsV5"
  MinPoll = 4
  MaxPoll = 10
  LocalStratum = 16
  SrcLocal = FALSE
  MaxLen = 1024
  Fills = {1, 2, 3, 4, 5, 6, 7, 8}
INIT Init
NEXT Next
CHECK_DEADLOCK FALSE
INVARIANTS C14_RequestFitsForEveryCookieLength C13_AsksForWhatIsMissing
