---------------------------- MODULE Trace_Bloom ----------------------------
(***************************************************************************)
(* Trace validation for Bloom.tla.  The harness records random sessions of *)
(* the real code as ndjson:                                                *)
(*   "reset" a fresh RemoteBloomFilter with 512 / n byte chunks (any n     *)
(*           dividing 128) and two fresh empty BloomFilters                *)
(*   "step"  a transfer action, the state projection observed after it and *)
(*           what the call returned                                        *)
(*   "rstep" an operation on real 4096-bit filters with real server ids    *)
(*           (10 bit positions each): AddId / Merge / Collect, followed by *)
(*           what contains_id reports for every id seen so far             *)
(* The specification is re-executed along the trace and every disagreement *)
(* is printed with the cones of that step; the rest of a disagreeing       *)
(* session is skipped.                                                     *)
(***************************************************************************)
EXTENDS Bloom, Json, IOUtils

Rec == ndJsonDeserialize(IOEnv.TRACE)

VARIABLES st, l, skip, nb, fin,
          ra, rb,        \* real-id sessions: bit positions set in the two filters
          ia, ib         \* ... and the ids (sets of positions) added to them
tvars == <<st, l, skip, nb, fin, ra, rb, ia, ib>>


TraceInit == /\ l = 1 /\ skip = FALSE /\ nb = 0 /\ fin = FALSE /\ st = InitState(1)
             /\ ra = {} /\ rb = {} /\ ia = {} /\ ib = {}

DiffTransfer(exp, eo, ev) ==
  IF ev.panic # "" THEN {"panic"}
  ELSE {f \in {"next", "awaiting", "filled", "local"} : exp[f] # ev.st[f]}
       \cup (IF ev.st.full_filter THEN {} ELSE {"full_filter"})
       \cup {"out." \o f : f \in {g \in {"res", "off"} : eo[g] # ev.out[g]}}
       \cup {"out." \o f : f \in {g \in {"len", "served"} : ~ev.out[g]}}

Reset(ev) ==
  /\ st' = InitState(ev.cfg.n) /\ skip' = FALSE /\ nb' = nb + 1
  /\ ra' = {} /\ rb' = {} /\ ia' = {} /\ ib' = {}
  /\ IF "st" \in DOMAIN ev
     THEN LET d == DiffTransfer(st', [res |-> "", off |-> -1],
                                [st |-> ev.st, out |-> [res |-> "", off |-> -1, len |-> TRUE, served |-> TRUE], panic |-> ""])
          IN d = {} \/ PrintT(<<"MISMATCH", ToJson([line |-> l, act |-> [t |-> "Init"], fields |-> d, cones |-> ConesOf("transfer"),
                                                    expected |-> [st |-> st', out |-> <<>>], observed |-> [st |-> ev.st]])>>)
     ELSE TRUE

Step(ev) ==
  IF skip THEN UNCHANGED <<st, skip, nb, ra, rb, ia, ib>>
  ELSE LET a   == ev.act
           exp == Post(st, a)
           eo  == Out(st, a)
           d   == IF Enabled(st, a) THEN DiffTransfer(exp, eo, ev) ELSE {"enabled"}
       IN /\ UNCHANGED <<nb, ra, rb, ia, ib>>
          /\ IF d = {} THEN st' = exp /\ skip' = FALSE
             ELSE /\ UNCHANGED st /\ skip' = TRUE
                  /\ PrintT(<<"MISMATCH", ToJson([line |-> l, act |-> a, fields |-> d, cones |-> Cones(st, a), pre |-> st,
                                                   expected |-> [st |-> exp, out |-> eo],
                                                   observed |-> [st |-> ev.st, out |-> ev.out], panic |-> ev.panic])>>)

\* real ids: contains_id(id) <=> all positions of id are set
DiffHits(bits, added, ids, hits, ones) ==
  (IF \E k \in DOMAIN ids : Range(ids[k]) \in added /\ ~hits[k] THEN {"out.neg"} ELSE {})
  \cup (IF \E k \in DOMAIN ids : hits[k] # (Range(ids[k]) \subseteq bits) THEN {"out.table"} ELSE {})
  \cup (IF ones # Cardinality(bits) THEN {"out.ones"} ELSE {})

RStep(ev) ==
  IF skip THEN UNCHANGED <<st, skip, nb, ra, rb, ia, ib>>
  ELSE LET a  == ev.act
           id == IF a.t = "AddId" THEN Range(a.id) ELSE {}
           na == IF a.t = "AddId" /\ a.f = "a" THEN ra \cup id ELSE IF a.t = "Merge" /\ a.f = "a" THEN ra \cup rb ELSE ra
           nbb == IF a.t = "AddId" /\ a.f = "b" THEN rb \cup id ELSE IF a.t = "Merge" /\ a.f = "b" THEN ra \cup rb ELSE rb
           nia == IF a.t = "AddId" /\ a.f = "a" THEN ia \cup {id} ELSE IF a.t = "Merge" /\ a.f = "a" THEN ia \cup ib ELSE ia
           nib == IF a.t = "AddId" /\ a.f = "b" THEN ib \cup {id} ELSE IF a.t = "Merge" /\ a.f = "b" THEN ia \cup ib ELSE ib
           d  == DiffHits(na, nia, ev.ids, ev.ha, ev.oa) \cup DiffHits(nbb, nib, ev.ids, ev.hb, ev.ob)
                 \cup (IF a.t = "Collect" THEN DiffHits(na \cup nbb, nia \cup nib, ev.ids, ev.hu, ev.ou) ELSE {})
       IN /\ UNCHANGED <<st, nb>>
          /\ ra' = na /\ rb' = nbb /\ ia' = nia /\ ib' = nib
          /\ IF d = {} THEN skip' = FALSE
             ELSE /\ skip' = TRUE
                  /\ PrintT(<<"MISMATCH", ToJson([line |-> l, act |-> a, fields |-> d, cones |-> ConesOf("ids"), pre |-> <<>>,
                                                   expected |-> [st |-> <<>>, out |-> <<>>],
                                                   observed |-> [st |-> <<>>, out |-> [ha |-> ev.ha, hb |-> ev.hb, hu |-> ev.hu]],
                                                   panic |-> ""])>>)

TraceNext ==
  \/ /\ l <= Len(Rec) /\ l' = l + 1 /\ UNCHANGED fin
     /\ CASE Rec[l].ev = "reset" -> Reset(Rec[l])
          [] Rec[l].ev = "step"  -> Step(Rec[l])
          [] Rec[l].ev = "rstep" -> RStep(Rec[l])
  \/ /\ l = Len(Rec) + 1 /\ ~fin /\ fin' = TRUE /\ UNCHANGED <<st, l, skip, nb, ra, rb, ia, ib>>
     /\ PrintT(<<"DONE", ToJson([consumed |-> Len(Rec), behaviours |-> nb])>>)

TraceSpec == TraceInit /\ [][TraceNext]_tvars
=============================================================================
