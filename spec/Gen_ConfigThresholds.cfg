CONSTANTS
  AsCoded = FALSE
  Restrict = "any"
INIT GenInit
NEXT GenNext
CHECK_DEADLOCK FALSE
INVARIANTS C39_Thresholds

