-------------------------- MODULE MC_SpawnerPool --------------------------
(***************************************************************************)
(* Bounded model of the pool bookkeeping of Spawner.tla (C35).             *)
(*                                                                         *)
(* AsCoded = FALSE: the intended (de-duplicating) bookkeeping; all of C35  *)
(*   is an invariant; the generator prints every transition together with  *)
(*   `dev` = "the bookkeeping as coded would do something else here" and,  *)
(*   if so, what (`coded`).                                                *)
(* AsCoded = TRUE: the bookkeeping exactly as coded.  C35_DistinctInv is   *)
(*   expected to be VIOLATED (finding F-8); TLC's counterexample is        *)
(*   printed through ALIAS as JSON and replayed on the real PoolSpawner.   *)
(***************************************************************************)
EXTENDS Spawner, Json

CONSTANTS Addr,            \* addresses DNS may answer with (Ignore \subseteq Addr)
          MaxAns,          \* longest DNS answer
          AsCoded,         \* which variant of the bookkeeping
          DistinctAnswers  \* TRUE: DNS answers never repeat an address within one answer

VARIABLES st, last
vars == <<st, last>>
PoolView == st

D == ~AsCoded

Injective(q) == \A i, j \in DOMAIN q : i # j => q[i] # q[j]
Answers == { q \in UNION { [1..n -> Addr] : n \in 0..MaxAns } : DistinctAnswers => Injective(q) }
Reasons == {"Demobilized", "NetworkIssue", "Unreachable"}

Acts == { [t |-> "TrySpawn", fail |-> FALSE, ans |-> q] : q \in Answers }
        \cup { [t |-> "TrySpawn", fail |-> TRUE, ans |-> <<>>] }
        \cup { [t |-> "Removed", id |-> i, reason |-> r] : i \in 0..Count, r \in Reasons }   \* id = Count: no such source

Init == st = PoolInit /\ last = [t |-> "Init"]
Next == \E a \in Acts : st' = PoolPost(D, st, a) /\ last' = a
Spec == Init /\ [][Next]_vars

TypeOK == /\ Len(st.active) \in 0..(Count + 1)
          /\ \A i \in DOMAIN st.active : st.active[i].id \in 0..Count /\ st.active[i].addr \in Addr
          /\ \A i \in DOMAIN st.known : st.known[i] \in Addr

C35_BoundedInv     == C35_Bounded(st)
C35_DistinctInv    == C35_Distinct(st)
C35_NoIgnoredInv   == \A a \in Acts : C35_NoIgnoredCreate(D, st, a)
C35_BookkeepingInv == \A a \in Acts : C35_Bookkeeping(D, st, a)
C35_PoolSafe == C35_BoundedInv /\ C35_DistinctInv /\ C35_NoIgnoredInv /\ C35_BookkeepingInv

\* counterexample printing for the as-coded runs
Alias == [json |-> ToJson([st |-> st, act |-> last])]

\* ---- test generation: every explored transition once ----
GenInit == Init /\ PrintT(<<"INIT", ToJson(st)>>) /\ PrintT(<<"CONES", ToJson(PoolConeTable)>>)
GenNext == \E a \in Acts :
             /\ st' = PoolPost(D, st, a) /\ last' = a
             /\ LET dev == PoolPost(TRUE, st, a) # PoolPost(FALSE, st, a)
                IN PrintT(<<"EDGE", ToJson([pre |-> st, act |-> a, post |-> st', out |-> PoolOut(D, st, a), ck |-> a.t,
                                             dev |-> dev,
                                             coded |-> IF dev THEN [post |-> PoolPost(FALSE, st, a), out |-> PoolOut(FALSE, st, a)]
                                                       ELSE <<>>])>>)
=============================================================================
