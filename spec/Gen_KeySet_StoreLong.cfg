CONSTANTS
  History = 1
  M = 8
  InitOffset = 6
  InitKeys = 3
  Trunc = TRUE
  MaxGen = 2
  MaxCookies = 1
  MaxFaults = 0
  WithDecode = {"intact"}
  WithStore = TRUE
  WithFaults = FALSE
INIT GenInit
NEXT GenNext
CHECK_DEADLOCK FALSE
INVARIANTS TypeOK C26_CookieWindow C27_CleanRestoreInv C27_CrashAtomicity C27_StartsUsable
