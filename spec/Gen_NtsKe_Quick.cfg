CONSTANTS
  NConns = 2
  MaxReq = 3
  TokenCfgs = {"none", "one", "two"}
  Permits = {0, 1}
  ReqToks = {"absent", "t1", "t2", "prefix", "empty"}
  ReqShapes = {"ok", "unkcrit"}
INIT GenInit
NEXT GenNext
CHECK_DEADLOCK FALSE
INVARIANTS TypeOK C29_PoolRequestsNeedToken
