---------------------------- MODULE MC_CtlLoop ----------------------------
(***************************************************************************)
(* Bounded configuration of CtlLoop.tla: the action alphabet (operations   *)
(* of the source tasks, the loop taking one message, the loop leaving the  *)
(* handle it holds), bounds, the property invariants and the transition    *)
(* printer for the walks replayed on the real TimeSyncControllerWrapper    *)
(* <recording mock> whose run() executes on a thread of its own            *)
(* (harness/ntp_proto/ctlloop.rs).                                         *)
(***************************************************************************)
EXTENDS CtlLoop, Json

CONSTANTS MaxChan,     \* bound on the number of queued messages
          UsableVals,  \* values set_usable is called with
          Steers,      \* values of the input `steer` of Recv (the controller answers a measurement with a broadcast)
          Arms         \* values of the input `arm` (the controller asks for a timer update)

VARIABLE st
vars == <<st>>

Acts == { [t |-> "Add", i |-> i] : i \in Slots }
        \cup { [t |-> "Meas", i |-> i] : i \in Slots }
        \cup { [t |-> "Usable", i |-> i, b |-> b] : i \in Slots, b \in UsableVals }
        \cup { [t |-> "Drop", i |-> i] : i \in Slots }
        \cup { [t |-> "Recv", steer |-> x, arm |-> y] : x \in Steers \cup {FALSE}, y \in Arms \cup {FALSE} }
        \cup { [t |-> "Leave"] }

InBounds(s) == Len(s.chan) <= MaxChan

Init == st = InitState
Next == \E a \in Acts : Enabled(st, a) /\ LET p == Post(st, a) IN InBounds(p) /\ st' = p
Spec == Init /\ [][Next]_vars

TypeOK == /\ st.pc \in {"idle", "ow", "tw"} /\ st.cur \in 0..N /\ st.arm \in BOOLEAN
          /\ \A i \in Slots : st.src[i].sent \in 0..MaxMeas /\ st.src[i].proc \in 0..MaxMeas
          /\ \A k \in 1..Len(st.todo) : st.src[st.todo[k]].alive
          /\ st.pc = "ow" => st.cur \in OneWay
          /\ st.pc = "tw" => st.cur \in Slots \ OneWay

C37_StepHolds == \A a \in Acts : Enabled(st, a) => C37_Step(st, a)
C37_Invariant == C37_Inv(st) /\ LoopShape(st)

\* ---- test generation: print every explored transition once ----
GenInit == Init /\ PrintT(<<"INIT", ToJson(st)>>) /\ PrintT(<<"CONES", ToJson(ConeTable)>>)
GenNext == \E a \in Acts :
             /\ Enabled(st, a)
             /\ LET so == SO(st, a)
                IN /\ InBounds(so[1])
                   /\ st' = so[1]
                   /\ PrintT(<<"EDGE", ToJson([pre |-> st, act |-> a, post |-> so[1], out |-> so[2],
                                                ck |-> ConeKey(st, a),
                                                \* the situation the fine-grained model exists for (checks/clock.py
                                                \* requires it to occur): a wrapper dropped while the loop holds its handle
                                                held |-> (st.cur # 0 /\ a.t = "Drop" /\ a.i = st.cur)])>>)
=============================================================================
