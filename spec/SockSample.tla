----------------------------- MODULE SockSample -----------------------------
(***************************************************************************)
(* GPSd "SOCK" samples (ntpd/src/daemon/sock_source.rs), property C40.     *)
(*                                                                         *)
(* A datagram is described by its class                                    *)
(*   [size, magic, pulse, off, leap]                                       *)
(* size: datagram length; the other attributes describe the fields of the  *)
(* 40-byte sample layout as far as the datagram reaches (offset f64 at     *)
(* 16..24, pulse i32 at 24..28, leap i32 at 28..32, magic i32 at 36..40,   *)
(* little endian).  Two paths lead to the validation:                      *)
(*   "direct"  deserialize_sample(Ok(size), first 40 bytes)                *)
(*   "task"    the datagram is sent to the unix socket of SockSourceTask,  *)
(*             which receives into a 40-byte buffer (sock_source.rs:112)   *)
(*                                                                         *)
(* Decode(strict, path, a) transcribes sock_source.rs:51-79 and :121-163.  *)
(*   strict = TRUE   INTENDED behaviour: the C40 rule                      *)
(*   strict = FALSE  AS CODED: (1) no test that the offset is finite       *)
(*                   (finding F-10); (2) on the task path recv() truncates *)
(*                   a longer datagram to the 40-byte buffer and reports   *)
(*                   40, so the size test cannot see the excess.           *)
(***************************************************************************)
EXTENDS Naturals, Integers, Sequences, FiniteSets, TLC

SampleSize == 40
Sizes   == {0, 39, 40, 41, 80, 1000}
Magics  == {"ok", "off1", "zero"}
Pulses  == {0, 1, 255, -1}
Offsets == {"zero", "negzero", "small", "negsmall", "subnormal", "huge", "nan", "pinf", "ninf"}
Leaps   == {-1, 0, 1, 2, 3}
Paths   == {"direct", "task"}

Finite(o) == o \notin {"nan", "pinf", "ninf"}
MinN(a, b) == IF a <= b THEN a ELSE b

Classes == [size : Sizes, magic : Magics, pulse : Pulses, off : Offsets, leap : Leaps]

\* length the validation gets to see
SeenSize(strict, path, a) == IF path = "task" /\ ~strict THEN MinN(a.size, SampleSize) ELSE a.size

Decode(strict, path, a) ==
  IF SeenSize(strict, path, a) # SampleSize THEN "WrongSize"     \* sock_source.rs:56-58
  ELSE IF a.magic # "ok" THEN "WrongMagic"                        \* :70-72
  ELSE IF a.pulse # 0 THEN "WrongPulse"                           \* :74-76
  ELSE IF strict /\ ~Finite(a.off) THEN "NonFinite"               \* intended only
  ELSE "Ok"

LeapOf(l) == CASE l = 0 -> "NoWarning" [] l = 1 -> "Leap61" [] l = 2 -> "Leap59" [] OTHER -> "Unknown"   \* :123-128

\* what is observable: the verdict; for accepted samples on the task path one measurement with that leap indicator
Out(strict, path, a) ==
  LET r == Decode(strict, path, a)
  IN [result |-> r, accepted |-> r = "Ok", leap |-> IF r = "Ok" THEN LeapOf(a.leap) ELSE "none"]

\* C40: "becomes a measurement only if it has the exact sample size, the correct magic number, a zero pulse flag and a
\* finite offset; any other datagram is rejected" (without crashing: a panic is a differing observable in the harness)
C40_Rule(strict, path, a) ==
  Out(strict, path, a).accepted <=> (a.size = SampleSize /\ a.magic = "ok" /\ a.pulse = 0 /\ Finite(a.off))

ConeTable == [direct |-> [C40 |-> {"out.accepted", "out.result", "panic"}],
              task   |-> [C40 |-> {"out.accepted", "panic"}]]
=============================================================================
