CONSTANTS
  W = 8
  Bs = "all"
INIT GenInit
NEXT GenNext
CHECK_DEADLOCK FALSE
INVARIANTS C32_TimeArithmetic
