INIT Init
NEXT Next
INVARIANT C43_SteerWithinLimit
CHECK_DEADLOCK FALSE
