INIT Init
NEXT Next
INVARIANT C11_ReachAbstraction
CHECK_DEADLOCK FALSE
