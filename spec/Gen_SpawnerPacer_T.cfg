CONSTANTS
  W = 4
  Count = 1
  Ignore = {}
  Durations = {0, 1, 2, 4, 5, 7}
  QMax = 3
INIT GenInit
NEXT GenNext
CHECK_DEADLOCK FALSE
INVARIANTS TypeOK C36_Pacing
