CONSTANTS
  MaxId = 3
  NSp = 2
  Variant = "Life"
INIT GenInit
NEXT GenNext
CHECK_DEADLOCK FALSE
INVARIANTS TypeOK SYS_Steps SYS_State
