CONSTANTS
  MaxId = 2
  NSp = 1
  Variant = "Pub"
INIT Init
NEXT Next
CHECK_DEADLOCK FALSE
INVARIANTS TypeOK SYS5_IntendedInv
ALIAS Alias
