--------------------------- MODULE MC_SourceSize ---------------------------
(***************************************************************************)
(* C14 over its whole stated domain: for EVERY cookie length 0..1024 and   *)
(* every stash fill level the first poll of an NTS association either fits *)
(* the 1024-byte send buffer or asks for a reset.  One initial state per   *)
(* (length, fill); the expected outcome of handle_timer is printed for     *)
(* each and compared with the real encoder's output by the harness.        *)
(***************************************************************************)
EXTENDS Source, Json

CONSTANTS MaxLen, Fills

Rep(x, n) == [i \in 1..n |-> x]

Init == \E clen \in 0..MaxLen, k \in Fills :
           /\ st = InitState(Rep(clen, k))
           /\ PrintT(<<"SIZE", ToJson([clen |-> clen, fill |-> k, post |-> PostTimer(st, MinPoll),
                                       out |-> OutTimer(st, MinPoll)])>>)
Next == UNCHANGED st

C14_RequestFitsForEveryCookieLength == C14_Step(st, [t |-> "Timer", desired |-> MinPoll])
C13_AsksForWhatIsMissing == C13_Step(st, [t |-> "Timer", desired |-> MinPoll])
=============================================================================
