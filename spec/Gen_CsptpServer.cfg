INIT GenInit
NEXT GenNext
CHECK_DEADLOCK FALSE
INVARIANTS C45_AnswersOnlyRequests NonVacuous
