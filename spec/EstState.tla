------------------------------ MODULE EstState ------------------------------
(***************************************************************************)
(* Bookkeeping of statime-algo's EstimatorState itself                     *)
(* (statime-algo/src/estimator.rs: ExternalClockList, ClockInfoList,       *)
(* LinkInfoList, add_* / remove_* with splice/extend of matrix.rs over the *)
(* storages of storage.rs).  Properties C42 and C43.                       *)
(*                                                                         *)
(* Unlike the controller (spec/Estimator.tla), which allocates increasing  *)
(* identifiers itself, EstimatorState takes CALLER-CHOSEN ClockIds and     *)
(* LinkIds: an identifier may be added, removed and added again, several   *)
(* external clocks may exist at once, and NOTHING in the interface depends *)
(* on the numeric order of identifiers.  Model identifiers ("slots") are   *)
(* therefore abstract; the harness (harness/statime_algo/estimator.rs)     *)
(* maps them to real ClockIds through a permutation chosen per replay      *)
(* (ascending, descending, shuffled): every permutation must behave alike. *)
(*                                                                         *)
(* Numeric estimates are opaque (DESIGN 5.4).  The specification says      *)
(* which clocks / links exist and which estimates an operation may change; *)
(* the harness snapshots the real numbers bitwise (clock_offset,           *)
(* clock_frequency of every internal clock, link_delay of every link:      *)
(* value and uncertainty) around every operation.                          *)
(*                                                                         *)
(* State: kind   slot -> "none" (unknown to the estimator: never added or  *)
(*               removed), "int", "ext"                                    *)
(*        links  set of [a, b], a < b: one link identifier per unordered   *)
(*               pair of slots (created once by the harness and reused)    *)
(***************************************************************************)
EXTENDS Naturals, Sequences, FiniteSets, TLC

CONSTANTS Slots,     \* clock identifiers the caller uses
          MaxLinks   \* links in the estimator at a time

Ids == 1..Slots
Pairs == { [a |-> a, b |-> b] : a \in Ids, b \in Ids }
LinkIds == { p \in Pairs : p.a < p.b }
Init0 == [kind |-> [x \in Ids |-> "none"], links |-> {}]

Int(s) == { x \in Ids : s.kind[x] = "int" }
Ext(s) == { x \in Ids : s.kind[x] = "ext" }
Known(s, x) == s.kind[x] # "none"
InUse(s, x) == \E l \in s.links : l.a = x \/ l.b = x
Ends(l) == {l.a, l.b}

(***************************************************************************)
(* Result of each operation, branch by branch (estimator.rs).              *)
(*  AddClock     add_clock: external list, then ClockInfoList::add         *)
(*  AddExt       add_external_clock: clock_info, then ExternalClockList    *)
(*  RemoveClock  ClockInfoList::remove      RemoveExt  ExternalClockList   *)
(*  AddLink      add_link: first, second clock known, LinkInfoList::add    *)
(*  RemoveLink   LinkInfoList::remove                                      *)
(*  Measure      measurement(direction, offset, delay_link = a.dl)         *)
(*  Progress     progress_time to a later time;  Back  to an earlier time  *)
(*  Step / Freq  absorb_offset_change / absorb_frequency_steer             *)
(***************************************************************************)
Res(s, a) ==
  CASE a.t \in {"AddClock", "AddExt"} -> IF Known(s, a.x) THEN "ClockAlreadyExists" ELSE "ok"
    [] a.t = "RemoveClock" -> IF a.x \in Int(s) THEN "ok" ELSE "UnknownClock"
    [] a.t = "RemoveExt" -> IF a.x \in Ext(s) THEN "ok" ELSE "UnknownClock"
    [] a.t = "AddLink" -> IF ~Known(s, a.l.a) \/ ~Known(s, a.l.b) THEN "UnknownClock"
                          ELSE IF a.l \in s.links THEN "LinkAlreadyExists" ELSE "ok"
    [] a.t = "RemoveLink" -> IF a.l \in s.links THEN "ok" ELSE "UnknownLink"
    [] a.t = "Measure" -> IF ~Known(s, a.l.a) \/ ~Known(s, a.l.b) THEN "UnknownClock"
                          ELSE IF a.dl /\ a.l \notin s.links THEN "UnknownLink" ELSE "ok"
    [] a.t \in {"Step", "Freq"} -> IF a.x \in Int(s) THEN "ok" ELSE "UnknownClock"
    [] a.t = "Back" -> "NonMonotonicTimeProgression"
    [] OTHER -> "ok"                                                    \* Progress

BothExt(s, l) == l.a \in Ext(s) /\ l.b \in Ext(s)
\* Not generated (outcome not specified at this level; the filter above guards these): links and measurements
\* between two external clocks, removal of a clock that a link still uses.
Enabled(s, a) ==
  CASE a.t \in {"RemoveClock", "RemoveExt"} -> ~(Res(s, a) = "ok" /\ InUse(s, a.x))
    [] a.t = "AddLink" -> ~BothExt(s, a.l) /\ (Res(s, a) = "ok" => Cardinality(s.links) < MaxLinks)
    [] a.t = "Measure" -> ~BothExt(s, a.l)
    [] OTHER -> TRUE

Post(s, a) ==
  IF Res(s, a) # "ok" THEN s
  ELSE CASE a.t = "AddClock" -> [s EXCEPT !.kind[a.x] = "int"]
         [] a.t = "AddExt" -> [s EXCEPT !.kind[a.x] = "ext"]
         [] a.t \in {"RemoveClock", "RemoveExt"} -> [s EXCEPT !.kind[a.x] = "none"]
         [] a.t = "AddLink" -> [s EXCEPT !.links = @ \cup {a.l}]
         [] a.t = "RemoveLink" -> [s EXCEPT !.links = @ \ {a.l}]
         [] OTHER -> s

(***************************************************************************)
(* sameC / sameL: the clocks / links whose reported estimates must be      *)
(* bit-identical before and after the operation.  Measurements and time    *)
(* progression may change every estimate.  Weaker reading: a link          *)
(* operation is not required to preserve the estimates of the link's own   *)
(* end points; an absorbed step / frequency change is only required to     *)
(* move the steered clock's own estimate (C43), the rest is not in C42's   *)
(* scope (it is still compared and reported as a divergence).              *)
(***************************************************************************)
Bookkeeping == {"AddClock", "AddExt", "RemoveClock", "RemoveExt", "AddLink", "RemoveLink"}
TargetC(a) == CASE a.t \in {"AddClock", "AddExt", "RemoveClock", "RemoveExt", "Step", "Freq"} -> {a.x}
                [] a.t \in {"AddLink", "RemoveLink"} -> Ends(a.l)
                [] OTHER -> {}
TargetL(a) == IF a.t \in {"AddLink", "RemoveLink"} THEN {a.l} ELSE {}
Evolves(a) == a.t \in {"Measure", "Progress"}
SameC(s, a) == IF Res(s, a) # "ok" THEN Int(s) ELSE IF Evolves(a) THEN {} ELSE (Int(s) \cap Int(Post(s, a))) \ TargetC(a)
SameL(s, a) == IF Res(s, a) # "ok" THEN s.links ELSE IF Evolves(a) THEN {} ELSE (s.links \cap Post(s, a).links) \ TargetL(a)

Out(s, a) == [res |-> Res(s, a), sameC |-> SameC(s, a), sameL |-> SameL(s, a),
              int |-> Int(Post(s, a)), ext |-> Ext(Post(s, a)), links |-> Post(s, a).links]

(***************************************************************************)
(* C42.  Adding / removing a clock or a link leaves the estimates of every *)
(* other clock and link untouched; operations on unknown or duplicate      *)
(* identifiers fail and change nothing; time does not move backwards.      *)
(***************************************************************************)
Unknown(s, a) == CASE a.t \in {"RemoveClock", "Step", "Freq"} -> a.x \notin Int(s)
                   [] a.t = "RemoveExt" -> a.x \notin Ext(s)
                   [] a.t = "AddLink" -> ~Known(s, a.l.a) \/ ~Known(s, a.l.b)
                   [] a.t = "RemoveLink" -> a.l \notin s.links
                   [] a.t = "Measure" -> ~Known(s, a.l.a) \/ ~Known(s, a.l.b) \/ (a.dl /\ a.l \notin s.links)
                   [] OTHER -> FALSE
Duplicate(s, a) == CASE a.t \in {"AddClock", "AddExt"} -> Known(s, a.x)
                     [] a.t = "AddLink" -> a.l \in s.links
                     [] OTHER -> FALSE
C42_Step(s, a) ==
  LET o == Out(s, a) IN
  /\ a.t \in Bookkeeping /\ o.res = "ok" =>
        /\ \A y \in Int(s) \cap Int(Post(s, a)) : y \notin TargetC(a) => y \in o.sameC
        /\ \A l \in s.links \cap Post(s, a).links : l \notin TargetL(a) => l \in o.sameL
  /\ Unknown(s, a) \/ Duplicate(s, a) => o.res # "ok"
  /\ a.t = "Back" => o.res # "ok"
  /\ o.res # "ok" => Post(s, a) = s /\ o.sameC = Int(s) /\ o.sameL = s.links

(***************************************************************************)
(* C43 at this level (numeric relations evaluated by the harness, 1e-9     *)
(* relative):                                                              *)
(*  init   right after add_clock(id, offset, frequency, wander) the        *)
(*         frequency query of id reports the frequency it was added with   *)
(*         (value and uncertainty) and the offset query the offset - not   *)
(*         one another's, whatever rows precede the clock                  *)
(*  delta  after an absorbed step (frequency change) the offset            *)
(*         (frequency) estimate of that clock has moved by it              *)
(***************************************************************************)
ConeKey(s, a) == IF Res(s, a) # "ok" THEN "fail"
                 ELSE IF a.t = "AddClock" THEN "addclock"
                 ELSE IF a.t \in Bookkeeping THEN "book"
                 ELSE IF a.t \in {"Step", "Freq"} THEN "absorb" ELSE "evolve"
ConesOf(k) ==
  CASE k = "fail"     -> [C42 |-> {"panic", "out.res", "out.same", "out.live"}, C43 |-> {}]
    [] k = "book"     -> [C42 |-> {"panic", "out.same"}, C43 |-> {}]
    [] k = "addclock" -> [C42 |-> {"panic", "out.same"}, C43 |-> {"panic", "out.init"}]
    [] k = "absorb"   -> [C42 |-> {}, C43 |-> {"panic", "out.delta"}]
    [] k = "evolve"   -> [C42 |-> {}, C43 |-> {}]
ConeTable == [k \in {"fail", "book", "addclock", "absorb", "evolve"} |-> ConesOf(k)]
=============================================================================
