CONSTANTS
  AsCoded = TRUE
  Restrict = "negative"
INIT Init
NEXT Next
CHECK_DEADLOCK FALSE
INVARIANTS C39_Holds
ALIAS Alias
