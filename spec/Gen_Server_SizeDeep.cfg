CONSTANTS
  Slice = "Size"
  Deep = TRUE
  Cutoff = 3
  Prop = "all"
INIT GenInit
NEXT GenNext
CHECK_DEADLOCK FALSE
INVARIANTS TypeOK PropHolds
