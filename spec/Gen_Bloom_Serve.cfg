CONSTANTS
  Part = "serve"
  N = 1
  NBits = 2
  Offs = {0, 2, 3, 4, 16, 256, 496, 508, 509, 511, 512, 513, 516, 1024, 65535}
  Lens = {0, 1, 2, 3, 4, 5, 16, 256, 508, 511, 512, 513, 516, 1024, 65535}
INIT GenInit
NEXT GenNext
CHECK_DEADLOCK FALSE
INVARIANTS TypeOK C34_BloomTransfer
