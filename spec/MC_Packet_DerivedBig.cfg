CONSTANTS
  BodyLens = {0, 1, 2, 3, 4, 8, 12, 20, 24, 28}
  Tails = {0, 4, 20, 24}
  Contexts = {"none", "uid", "unk0"}
  Derived = TRUE
  Sealed = TRUE
INIT Init
NEXT Next
CHECK_DEADLOCK FALSE
INVARIANTS C24_RoundTrip C23_Total C25_Regions
