CONSTANTS
  History = 2
  M = 8
  InitOffset = 6
  InitKeys = 2
  Trunc = TRUE
  MaxGen = 12
  MaxCookies = 3
  MaxFaults = 0
  WithDecode = {"intact", "padded", "cut", "tamper", "foreign", "short"}
  WithStore = FALSE
  WithFaults = FALSE
INIT Init
NEXT Next
CHECK_DEADLOCK FALSE
INVARIANTS TypeOK C26_CookieWindow C27_CleanRestoreInv C27_CrashAtomicity C27_StartsUsable
