------------------------- MODULE Trace_SpawnerPool -------------------------
(***************************************************************************)
(* Trace validation for the Pool part of Spawner.tla (C35).  The harness   *)
(* records seeded random sessions of the real PoolSpawner (far outside the *)
(* bounded model: more addresses, longer answers, larger count) as ndjson: *)
(* "reset" (fresh spawner) and "step" events carrying the action, the      *)
(* bookkeeping observed after it and what the call emitted.                *)
(*                                                                         *)
(* For every step the specification's INTENDED Post/Out is computed from   *)
(* the current state and compared with the log.  Where the log differs but *)
(* equals what the AS-CODED variant predicts, a DEV line is printed (the   *)
(* missing de-duplication, finding F-8) and validation goes on from the    *)
(* logged state; any other difference is a MISMATCH and the rest of that   *)
(* session is skipped.  Independently of both variants, the C35 clauses    *)
(* are evaluated on every logged state/step: BAD lines.                    *)
(***************************************************************************)
EXTENDS Spawner, Json, IOUtils

Rec == ndJsonDeserialize(IOEnv.TRACE)

VARIABLES st, l, skip, nb, fin
tvars == <<st, l, skip, nb, fin>>

Diff(exp, eo, ev) ==
  IF ev.panic # "" THEN {"panic"}
  ELSE { f \in {"active", "known"} : exp[f] # ev.st[f] }
       \cup { "out." \o f : f \in { g \in {"creates", "complete"} : eo[g] # ev.out[g] } }

Bad(ev) ==
  (IF ~C35_Bounded(ev.st) THEN {"more-than-count"} ELSE {})
  \cup (IF ~C35_Distinct(ev.st) THEN {"two-active-sources-for-one-address"} ELSE {})
  \cup (IF \E i \in DOMAIN ev.out.creates : ev.out.creates[i].addr \in Ignore THEN {"ignored-address-created"} ELSE {})

TraceInit == /\ l = 1 /\ skip = FALSE /\ nb = 0 /\ fin = FALSE /\ st = PoolInit

Reset(ev) ==
  /\ st' = PoolInit /\ skip' = FALSE /\ nb' = nb + 1
  /\ ev.st = PoolInit \/ PrintT(<<"MISMATCH", ToJson([line |-> l, act |-> [t |-> "Init"], fields |-> {"active", "known"},
                                         expected |-> [st |-> PoolInit], observed |-> [st |-> ev.st]])>>)

Step(ev) ==
  IF skip THEN UNCHANGED <<st, skip, nb>>
  ELSE LET a  == ev.act
           pI == PoolPost(TRUE, st, a)
           oI == PoolOut(TRUE, st, a)
           pC == PoolPost(FALSE, st, a)
           oC == PoolOut(FALSE, st, a)
           dI == Diff(pI, oI, ev)
           dC == Diff(pC, oC, ev)
           bad == IF ev.panic = "" THEN Bad(ev) ELSE {}
       IN /\ nb' = nb
          /\ bad = {} \/ PrintT(<<"BAD", ToJson([line |-> l, act |-> a, pre |-> st, what |-> bad, observed |-> [st |-> ev.st, out |-> ev.out]])>>)
          /\ IF dI = {} THEN st' = pI /\ skip' = FALSE
             ELSE IF dC = {} THEN /\ st' = pC /\ skip' = FALSE
                                  /\ PrintT(<<"DEV", ToJson([line |-> l, act |-> a, pre |-> st, fields |-> dI,
                                                              expected |-> [st |-> pI, out |-> oI],
                                                              observed |-> [st |-> ev.st, out |-> ev.out]])>>)
             ELSE /\ UNCHANGED st /\ skip' = TRUE
                  /\ PrintT(<<"MISMATCH", ToJson([line |-> l, act |-> a, pre |-> st, fields |-> dI,
                                                   expected |-> [st |-> pI, out |-> oI],
                                                   observed |-> [st |-> ev.st, out |-> ev.out], panic |-> ev.panic])>>)

TraceNext ==
  \/ /\ l <= Len(Rec) /\ l' = l + 1 /\ UNCHANGED fin
     /\ IF Rec[l].ev = "reset" THEN Reset(Rec[l]) ELSE Step(Rec[l])
  \/ /\ l = Len(Rec) + 1 /\ ~fin /\ fin' = TRUE /\ UNCHANGED <<st, l, skip, nb>>
     /\ PrintT(<<"DONE", ToJson([consumed |-> Len(Rec), behaviours |-> nb])>>)

TraceSpec == TraceInit /\ [][TraceNext]_tvars
=============================================================================
