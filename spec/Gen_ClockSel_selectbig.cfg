CONSTANTS
  What = "select"
  NFull = 3
  EndFull = 3
  WFull = 2
  NOk = 4
  EndOk = 4
  WOk = 3
  MinAgrees = {1, 2, 3, 4}
  NLeap = 0
INIT GenInit
NEXT GenNext
CHECK_DEADLOCK FALSE
INVARIANTS C03_MajorityConsensus
