CONSTANTS
  NConns = 3
  MaxReq = 6
INIT TraceInit
NEXT TraceNext
CHECK_DEADLOCK FALSE
