--------------------------- MODULE MC_SpawnerStd ---------------------------
(***************************************************************************)
(* Bounded model of the Standard part of Spawner.tla (C36, removal         *)
(* handling of the single-server spawner).                                 *)
(***************************************************************************)
EXTENDS Spawner, Json

CONSTANTS Addr, MaxAns

VARIABLE st
vars == <<st>>

Answers == UNION { [1..n -> Addr] : n \in 0..MaxAns }
Reasons == {"Demobilized", "NetworkIssue", "Unreachable"}
Acts == { [t |-> "TrySpawn", fail |-> FALSE, ans |-> q] : q \in Answers }
        \cup { [t |-> "TrySpawn", fail |-> TRUE, ans |-> <<>>] }
        \cup { [t |-> "Removed", reason |-> r] : r \in Reasons }

Init == st = StdInit
Next == \E a \in Acts : StdEnabled(st, a) /\ st' = StdPost(st, a)
Spec == Init /\ [][Next]_vars

TypeOK == st.resolved \in Addr \cup {0} /\ st.lastAddr \in Addr \cup {0} /\ st.spawned \in BOOLEAN

C36_Standard == /\ C36_NoRespawnAfterDemobilized(st)
                /\ \A a \in Acts : StdEnabled(st, a) => C36_DemobilizedStep(st, a) /\ C36_ReResolve(st, a)

GenInit == Init /\ PrintT(<<"INIT", ToJson(st)>>) /\ PrintT(<<"CONES", ToJson(StdConeTable)>>)
GenNext == \E a \in Acts :
             /\ StdEnabled(st, a) /\ st' = StdPost(st, a)
             /\ PrintT(<<"EDGE", ToJson([pre |-> st, act |-> a, post |-> st', out |-> StdOut(st, a), ck |-> a.t])>>)
=============================================================================
