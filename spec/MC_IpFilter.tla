----------------------------- MODULE MC_IpFilter -----------------------------
(***************************************************************************)
(* Enumeration of subnet sets / subnet string classes for IpFilter.tla.    *)
(* One TLC state per case (single step from the idle state); the EDGE line *)
(* carries the case and the specification's answer.                        *)
(***************************************************************************)
EXTENDS IpFilter, Json

CONSTANTS Family,   \* "small" (sets of size <= 2) | "covers" (3..5 sibling prefixes and near misses) | "strings"
          Stride, Phase    \* "small": of the pairs, those with (i * 31 + j) % Stride = Phase are taken (Stride 1 = all)

\* "strings": mask classes around every bound of the acceptance rule
Masks == {0, 1, 31, 32, 33, 95, 96, 97, 127, 128, 129, 255, 256, -1, MISSING, GARBAGE}

VARIABLE st
vars == <<st>>

\* explicit order of the canonical prefixes: index = 2^len + val / 2^(8-len)   (1..511)
PIndex(p) == Pow2(p.len) + p.val \div Pow2(BITS - p.len)
ByIndex(i) == LET l == CHOOSE l \in 0..BITS : Pow2(l) <= i /\ i < Pow2(l + 1)
              IN  [val |-> (i - Pow2(l)) * Pow2(BITS - l), len |-> l]
NP == Pow2(BITS + 1) - 1

\* group i (a worker's unit): the singleton of prefix i and its pairs with the later prefixes
SmallSets(i) == {{ByIndex(i)}} \cup {{ByIndex(i), ByIndex(j)} : j \in {k \in (i + 1)..NP : (i * 31 + k) % Stride = Phase}}

\* sibling families: a nibble block (or a /3, /2 block) split into 3..5 parts; the exact cover, the cover minus one
\* part, the cover with one part replaced by its lower or upper half
Halves(p) == IF p.len >= BITS THEN {} ELSE {{[val |-> p.val, len |-> p.len + 1]}, {[val |-> p.val + Pow2(BITS - p.len - 1), len |-> p.len + 1]}}
Variants(P) == {P} \cup {P \ {p} : p \in P} \cup UNION {{(P \ {p}) \cup h : h \in Halves(p)} : p \in P}
CoverRootSeq == [h \in 1..16 |-> [val |-> (h - 1) * 16, len |-> 4]]
                \o <<[val |-> 0, len |-> 3], [val |-> 96, len |-> 3], [val |-> 224, len |-> 3],
                      [val |-> 64, len |-> 2], [val |-> 0, len |-> 1]>>
CoverRoots == {CoverRootSeq[g] : g \in DOMAIN CoverRootSeq}
CoverSets(g) == LET r == CoverRootSeq[g] IN UNION {UNION {Variants(P) : P \in Parts(r.val, r.len, k)} : k \in 3..5}

StringCases == {[family |-> f, mask |-> m, syntax |-> s] : f \in {"v4", "v6", "mapped"}, m \in Masks,
                                                          s \in {"ok", "noslash", "badaddr"}}

Idle == [kind |-> "idle"]
Init == st = Idle
Groups == CASE Family = "small" -> 1..NP [] Family = "covers" -> DOMAIN CoverRootSeq [] Family = "strings" -> {1}
Case(x) == IF Family = "strings" THEN [kind |-> "string", c |-> x] ELSE [kind |-> "set", s |-> x]
CasesOf(g) == CASE Family = "small" -> SmallSets(g) [] Family = "covers" -> CoverSets(g) [] Family = "strings" -> StringCases
OutOf(x) == IF Family = "strings" THEN OutString(x) ELSE [members |-> Members(x)]

\* idle -> group g -> the cases of group g (two levels only so that TLC's workers share the enumeration)
ToGroup == st = Idle /\ \E g \in Groups : st' = [kind |-> "group", g |-> g]
Next == ToGroup \/ (st.kind = "group" /\ \E x \in CasesOf(st.g) : st' = Case(x))
Spec == Init /\ [][Next]_vars

\* lemmas about the set semantics, checked on every enumerated case
C31_SetSemantics ==
  st.kind = "set" =>
    LET S == st.s IN
    /\ Members(S) = UNION {Block(p) : p \in S}
    /\ \A p \in S : Cardinality(Block(p)) = Pow2(BITS - p.len)
\* an exact cover of a block is equivalent to the block itself; dropping a part loses exactly that part
C31_CoverLemma ==
  (Family = "covers" /\ st.kind = "group") =>
    LET r == CoverRootSeq[st.g] IN
    \A k \in 3..5 : \A P \in Parts(r.val, r.len, k) :
       /\ Members(P) = Block(r)
       /\ \A p \in P : Members(P \ {p}) = Block(r) \ Block(p)
C31_Strings == st.kind = "string" => C31_StringRule(st.c)

GenInit == Init
GenNext == \/ ToGroup
           \/ /\ st.kind = "group"
              /\ \E x \in CasesOf(st.g) :
                   /\ st' = Case(x)
                   /\ PrintT(<<"EDGE", ToJson([act |-> st', out |-> OutOf(x)])>>)
=============================================================================
