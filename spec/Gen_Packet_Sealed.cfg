CONSTANTS
  BodyLens = {0}
  Tails = {0}
  Contexts = {"none"}
  Derived = FALSE
  Sealed = TRUE
INIT GenInit
NEXT GenNext
CHECK_DEADLOCK FALSE
INVARIANTS C24_RoundTrip C23_Total C25_Regions
