-------------------------------- MODULE Bloom --------------------------------
(***************************************************************************)
(* NTPv5 reference-id Bloom filters of ntpd-rs                             *)
(*   ntp-proto/src/packet/v5/server_reference_id.rs                        *)
(*       RemoteBloomFilter  (next_request / handle_response / advance)     *)
(*       BloomFilter        (add_id / contains_id / add / union)           *)
(*   ntp-proto/src/packet/v5/extension_fields.rs                           *)
(*       ReferenceIdRequest (new / decode / to_response)                   *)
(*                                                                         *)
(* Three parts share the deterministic shape  st' = Post(st, a),           *)
(* Out(st, a) = what the call returns:                                     *)
(*   transfer  the client fetches the server's 512-byte filter in          *)
(*             n = 512 / chunk_size chunks; actions Request, Response      *)
(*   serve     the server's answer to one chunk request (pure function)    *)
(*   ids       the filter as a set of bits; ids are sets of K bits         *)
(*                                                                         *)
(* Property anchored here: C34 (and the Bloom clause of C33, which is      *)
(* observed by the harness on a real NtpSource, see checks/bloom.py).      *)
(***************************************************************************)
EXTENDS Naturals, Integers, Sequences, FiniteSets, SequencesExt, TLC

CONSTANT NBits                   \* part "ids": number of bit positions of the small filter

BYTES == 512                     \* BloomFilter::BYTES

Min2(a, b) == IF a < b THEN a ELSE b

(***************************************************************************)
(* State.  transfer:                                                       *)
(*   n        number of chunks (chunk_size = 512 / n)                      *)
(*   next     next_to_request / chunk_size                                 *)
(*   awaiting last_requested: -1 = None, else offset / chunk_size          *)
(*   reqs     how many requests were issued so far, saturating at 2 (only  *)
(*            says which request-id classes exist: "cur" needs 1, "old" 2) *)
(*   local    chunk c of the client's copy: 0 = still the initial zero     *)
(*            bytes, j+1 = the bytes of the server's chunk j, -1 = other   *)
(*   filled   is_filled                                                    *)
(* ids (all as boolean vectors, so that states print canonically):         *)
(*   fa, fb   the bits set in two filters;  ina, inb  the ids (by index in *)
(*            IdTable) that were added to them, directly or through a      *)
(*            merged filter (history, used only to state the property)     *)
(***************************************************************************)
\* An id is a set of K = 2 bit positions (ServerId: 10 distinct 12-bit numbers); all of them, in lexicographic order
IdTable == SetToSortSeq({p \in (1..NBits) \X (1..NBits) : p[1] < p[2]},
                        LAMBDA p, q : p[1] < q[1] \/ (p[1] = q[1] /\ p[2] < q[2]))
NIds == Len(IdTable)
IdBits(i) == {IdTable[i][1], IdTable[i][2]}

InitState(n) == [n |-> n, next |-> 0, awaiting |-> -1, reqs |-> 0, local |-> [c \in 1..n |-> 0],
                 filled |-> FALSE, fa |-> [b \in 1..NBits |-> FALSE], fb |-> [b \in 1..NBits |-> FALSE],
                 ina |-> [i \in 1..NIds |-> FALSE], inb |-> [i \in 1..NIds |-> FALSE]]

(***************************************************************************)
(* transfer.  Actions                                                      *)
(*   [t |-> "Request"]                          next_request(fresh id)     *)
(*   [t |-> "Response", id, len, content]       handle_response            *)
(*      id      "cur" the id of the latest request, "old" the id of an     *)
(*              earlier one (stale answer), "other" an id never issued     *)
(*      len     "chunk" = chunk_size, otherwise a length different from it *)
(*      content which bytes it carries: j = the server's chunk j (cut or   *)
(*              repeated to the length), -1 = bytes of no server chunk     *)
(* Environment: request ids are unguessable and the server answers the     *)
(* request it received (part "serve"), so the answer that carries the      *)
(* current id and the right length carries the chunk that was asked for.   *)
(* Everything else may carry anything; the interesting adversarial choices *)
(* are the very chunk the client is waiting for and a neighbouring one.    *)
(***************************************************************************)
LenClasses == {"chunk", "zero", "minus4", "minus1", "plus1", "plus4", "double", "full"}

Accepts(s, a) == s.awaiting # -1 /\ a.id = "cur" /\ a.len = "chunk"

ContentChoices(s, a) ==
  IF Accepts(s, a) THEN {s.awaiting} ELSE {-1, s.next, (s.next + 1) % s.n}

Enabled(s, a) ==
  CASE a.t = "Request"  -> TRUE
    [] a.t = "Response" -> /\ (a.id = "cur" => s.reqs >= 1) /\ (a.id = "old" => s.reqs >= 2)
                           /\ (a.len = "full" => s.n > 1)       \* for n = 1 the full filter IS the chunk
                           /\ a.content \in ContentChoices(s, a)
    [] OTHER -> TRUE

\* handle_response, branch by branch
Result(s, a) ==
  IF s.awaiting = -1 THEN "NotAwaitingResponse"
  ELSE IF a.id # "cur" THEN "MismatchedCookie"
  ELSE IF a.len # "chunk" THEN "MismatchedLength"
  ELSE "Ok"

\* advance_next_to_request
Advance(s) == LET nx == (s.next + 1) % s.n IN [s EXCEPT !.next = nx, !.filled = s.filled \/ nx = 0]

PostTransfer(s, a) ==
  IF a.t = "Request" THEN [s EXCEPT !.awaiting = s.next, !.reqs = Min2(s.reqs + 1, 2)]
  ELSE IF Result(s, a) = "Ok"
       THEN [Advance(s) EXCEPT !.local[s.awaiting + 1] = a.content + 1, !.awaiting = -1]
       ELSE s

OutTransfer(s, a) ==
  IF a.t = "Request" THEN [res |-> "Request", off |-> s.next]
  ELSE [res |-> Result(s, a), off |-> -1]

(***************************************************************************)
(* serve.  [t |-> "Serve", via, off, len]: a chunk request with payload    *)
(* length len and offset off, built by ReferenceIdRequest::new (client     *)
(* side constructor) or ::decode (what the server gets from the wire), is  *)
(* answered by to_response = filter.get(off..)?.get(..len)?.               *)
(* The filter is the sequence of its byte positions 0..511.                *)
(***************************************************************************)
None == [some |-> FALSE, v |-> <<>>]
Some(x) == [some |-> TRUE, v |-> x]
FilterBytes == [i \in 1..BYTES |-> i - 1]

Made(a) == IF a.via = "new" THEN a.len % 4 = 0 /\ a.len + a.off <= BYTES ELSE a.len >= 2
SliceFrom(seq, off) == IF off > Len(seq) THEN None ELSE Some(SubSeq(seq, off + 1, Len(seq)))
SliceTo(seq, len)   == IF len > Len(seq) THEN None ELSE Some(SubSeq(seq, 1, len))
ToResponse(off, len) == LET x == SliceFrom(FilterBytes, off) IN IF x.some THEN SliceTo(x.v, len) ELSE None

OutServe(a) ==
  IF ~Made(a) THEN [res |-> "NoRequest", some |-> FALSE, first |-> -1, n |-> 0]
  ELSE LET r == ToResponse(a.off, a.len)
       IN [res |-> "Served", some |-> r.some, n |-> Len(r.v), first |-> IF Len(r.v) > 0 THEN r.v[1] ELSE -1]

(***************************************************************************)
(* ids.  [t |-> "AddId", f, i]  add_id(IdTable[i]) on filter f;            *)
(* [t |-> "Merge", f]  add the other filter into f (BloomFilter::add);     *)
(* [t |-> "Collect"] the union of both (BloomFilter::union / collect),     *)
(* result observed only.                                                   *)
(***************************************************************************)
HasId(bits, i) == \A b \in IdBits(i) : bits[b]           \* contains_id
WithId(bits, i) == [b \in 1..NBits |-> bits[b] \/ b \in IdBits(i)]
Or(x, y) == [k \in DOMAIN x |-> x[k] \/ y[k]]
PostIds(s, a) ==
  CASE a.t = "AddId" /\ a.f = "a" -> [s EXCEPT !.fa = WithId(s.fa, a.i), !.ina[a.i] = TRUE]
    [] a.t = "AddId" /\ a.f = "b" -> [s EXCEPT !.fb = WithId(s.fb, a.i), !.inb[a.i] = TRUE]
    [] a.t = "Merge" /\ a.f = "a" -> [s EXCEPT !.fa = Or(s.fa, s.fb), !.ina = Or(s.ina, s.inb)]
    [] a.t = "Merge" /\ a.f = "b" -> [s EXCEPT !.fb = Or(s.fa, s.fb), !.inb = Or(s.ina, s.inb)]
    [] OTHER -> s
OutIds(s, a) ==
  IF a.t = "Collect" THEN [res |-> "Collect", u |-> Or(s.fa, s.fb), uin |-> Or(s.ina, s.inb)]
  ELSE [res |-> a.t, u |-> <<>>, uin |-> <<>>]

(***************************************************************************)
(* The machine                                                             *)
(***************************************************************************)
IsTransfer(a) == a.t \in {"Request", "Response"}
IsIds(a) == a.t \in {"AddId", "Merge", "Collect"}
Post(s, a) == IF IsTransfer(a) THEN PostTransfer(s, a) ELSE IF IsIds(a) THEN PostIds(s, a) ELSE s
Out(s, a)  == IF IsTransfer(a) THEN OutTransfer(s, a) ELSE IF IsIds(a) THEN OutIds(s, a) ELSE OutServe(a)

(***************************************************************************)
(* Cones: which observables C34 constrains on a step.                      *)
(*  transfer: everything observed (state projection, result, request).     *)
(*  serve: the answer must be exactly the requested bytes ("exact"); WHEN  *)
(*    the server answers "not at all" is not constrained by the statement, *)
(*    so out.some / out.made are compared but lie outside the cone.        *)
(*  ids: only false negatives ("neg"); the remaining truth table and the   *)
(*    bit count are compared outside the cone.                             *)
(***************************************************************************)
ConeKey(s, a) == IF IsTransfer(a) THEN "transfer" ELSE IF IsIds(a) THEN "ids" ELSE "serve"
ConesOf(k) ==
  CASE k = "transfer" -> [C34 |-> {"next", "awaiting", "filled", "local", "full_filter", "out.res", "out.off",
                                   "out.len", "out.served", "panic"}]
    [] k = "serve"    -> [C34 |-> {"out.exact", "panic"}]
    [] k = "ids"      -> [C34 |-> {"out.neg", "panic"}]
Cones(s, a) == ConesOf(ConeKey(s, a))
ConeTable == [k \in {"transfer", "serve", "ids"} |-> ConesOf(k)]

(***************************************************************************)
(* C34, declaratively.                                                     *)
(***************************************************************************)
\* (a) once filled, every chunk of the local copy is the server's chunk at that position
C34_FilledIsServerCopy(s) == s.filled => \A c \in 1..s.n : s.local[c] = c
\*     (auxiliary, makes (a) inductive: chunks are fetched in order and kept)
C34_Progress(s) == /\ \A c \in 1..s.n : s.local[c] \in {0, c}
                   /\ ~s.filled => \A c \in 1..s.n : (s.local[c] = c) <=> (c <= s.next)
                   /\ s.awaiting \in {-1, s.next}
\* (b) a response is copied iff a request is outstanding, the id is that request's and the length is the chunk size;
\*     a copy touches only the chunk that was asked for; anything else leaves the whole state alone
C34_Step(s, a) ==
  a.t = "Response" /\ Enabled(s, a) =>
    LET p == Post(s, a) IN
    IF Accepts(s, a)
    THEN /\ Out(s, a).res = "Ok"
         /\ p.local[s.awaiting + 1] = a.content + 1
         /\ \A c \in 1..s.n : c # s.awaiting + 1 => p.local[c] = s.local[c]
         /\ p.awaiting = -1
    ELSE p = s /\ Out(s, a).res # "Ok"
\* (c) the server answers with exactly the requested bytes or not at all
C34_Serve(a) ==
  a.t = "Serve" /\ Made(a) =>
    LET r == ToResponse(a.off, a.len) IN
    r.some => /\ Len(r.v) = a.len /\ a.off + a.len <= BYTES
              /\ \A i \in 1..a.len : r.v[i] = a.off + i - 1
\* (d) no false negatives: every id added to a filter (directly or through a merged / collected filter) is reported
C34_NoFalseNegatives(s) == \A i \in 1..NIds : /\ (s.ina[i] => HasId(s.fa, i))
                                                /\ (s.inb[i] => HasId(s.fb, i))
C34_Collect(s, a) == a.t = "Collect" => \A i \in 1..NIds : (Out(s, a).uin[i] => HasId(Out(s, a).u, i))
=============================================================================
