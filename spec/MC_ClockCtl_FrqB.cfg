CONSTANTS
  N = 1
  MinAgree = 1
  StepThresh = 1
  SFwd2 = 9999
  SBwd2 = 9999
  Fwd2 = 9999
  Bwd2 = 9999
  Acc2 = 9999
  TrackFreq = TRUE
  F0 = 445
  F0Neg = FALSE
  MaxSteer = 495
  SlewMax = 200
  MaxSamples = 1
  Ghosts = FALSE
  Readd = TRUE
  OffPos = {0, 1, 2}
  OffNeg = {1}
  LeapVals = {"none"}
  Wides = {FALSE}
  MaxChan = 1
  Bound = 6
  UsableVals = {TRUE}
INIT Init
NEXT Next
CHECK_DEADLOCK FALSE
INVARIANTS TypeOK C01_StepsWithinThresholds C02_FrequencyBounds C03_MajorityConsensus C04_LeapMajority C37_OnlyRegisteredUsable
