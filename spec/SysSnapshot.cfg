CONSTANTS
  LocalStrata = {1, 16}
  Strata = {1, 2, 15, 16, 254, 255}
  MaxLen = 2
INIT Init
NEXT Next
INVARIANT C33_Advertisement
CHECK_DEADLOCK FALSE
