------------------------------- MODULE Measure -------------------------------
(***************************************************************************)
(* Offset and delay of an NTP exchange, at word width W                    *)
(*   ntp-proto/src/algorithm/mod.rs  TwoWaySourceControllerWrapper::       *)
(*       handle_measurement   (outgoing: sender_ts = T1, receiver_ts = T2; *)
(*                             incoming: sender_ts = T3, receiver_ts = T4) *)
(*       OneWaySourceControllerWrapper::handle_measurement                 *)
(*   ntp-proto/src/source.rs  measurements_from_packet                     *)
(*      delay  = (T4 (-) T1) [-] (T3 (-) T2)                               *)
(*      offset = ((T2 (-) T1) [+] (T3 (-) T4)) / 2   (i64 division)        *)
(*   (-) wrapping timestamp difference, [+] [-] saturating, as in the code *)
(* An exchange is given by T1 and the true differences a = T2 - T1,        *)
(* b = T3 - T2, c = T4 - T3 (server clock minus client clock enters a and  *)
(* c with opposite signs).  Property anchored here: C05.                   *)
(***************************************************************************)
EXTENDS TimeArith

TruncDiv2(x) == IF x >= 0 THEN x \div 2 ELSE -((-x) \div 2)      \* Rust's `/ 2` on i64

T2of(e) == (e.t1 + e.a) % M
T3of(e) == (e.t1 + e.a + e.b) % M
T4of(e) == (e.t1 + e.a + e.b + e.c) % M

Sum(e)    == SatAdd(TsSub(T2of(e), e.t1), TsSub(T3of(e), T4of(e)))
Offset(e) == TruncDiv2(Sum(e))
Delay(e)  == SatSub(TsSub(T4of(e), e.t1), TsSub(T3of(e), T2of(e)))
OneWay(remote, local) == TsSub(remote, local)

OutTwoWay(e) == [t2 |-> T2of(e), t3 |-> T3of(e), t4 |-> T4of(e), sum |-> Sum(e), offset |-> Offset(e), delay |-> Delay(e)]
OutOneWay(e) == [local |-> (e.t1 + e.a) % M, offset |-> OneWay(e.t1, (e.t1 + e.a) % M)]

(***************************************************************************)
(* C05: whenever the true differences (and the sums the formulas form of   *)
(* them) are representable, the computed values are the on-wire formulas   *)
(* over the TRUE (unwrapped) timestamps; halving rounds by less than one   *)
(* unit (the statement does not fix the rounding direction).               *)
(***************************************************************************)
Representable(e) == /\ e.a \in Durs /\ e.b \in Durs /\ e.c \in Durs /\ (e.a + e.b + e.c) \in Durs
                    /\ (e.a - e.c) \in Durs /\ (e.a + e.c) \in Durs
C05_Formula(e) ==
  Representable(e) =>
    /\ Sum(e) = e.a - e.c                          \* (T2 - T1) + (T3 - T4)
    /\ Abs(2 * Offset(e) - (e.a - e.c)) <= 1
    /\ Delay(e) = (e.a + e.b + e.c) - e.b          \* (T4 - T1) - (T3 - T2)
C05_OneWay(e) == e.a \in Durs /\ -e.a \in Durs => OneWay(e.t1, (e.t1 + e.a) % M) = -e.a      \* remote minus local
=============================================================================
