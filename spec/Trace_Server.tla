---------------------------- MODULE Trace_Server ----------------------------
(***************************************************************************)
(* Trace validation for Server.tla.  The harness records seeded random     *)
(* request streams against the real Server as ndjson: a "reset" event      *)
(* (fresh server, its configuration) followed by "step" events carrying    *)
(* the action (Handle with a randomly generated datagram layout far        *)
(* outside the bounded alphabets of MC_Server, or Tick), the cache         *)
(* projection observed after it and what the two calls returned.  This     *)
(* module re-executes Post/Out along the trace and prints every            *)
(* disagreement with the cones of that step; the rest of that session is   *)
(* skipped and validation resumes at the next reset.                       *)
(***************************************************************************)
EXTENDS Server, Json, IOUtils

Rec == ndJsonDeserialize(IOEnv.TRACE)

VARIABLES l, skip, nb, fin
tvars == <<st, l, skip, nb, fin>>

RangeOf(q) == { q[i] : i \in DOMAIN q }
\* JSON has no sets: the accepted-version list arrives as a sequence
Act(ev) == IF ev.act.t = "Tick" THEN ev.act ELSE [ev.act EXCEPT !.cfg.accepted = RangeOf(ev.act.cfg.accepted)]

StatFields == {"ver", "nts", "reason", "resp"}
Diff(a, exp, eo, ev) ==
  IF ev.panic # "" THEN {"panic"}
  ELSE (IF exp.cache # ev.st.cache THEN {"cache"} ELSE {})
       \cup (IF a.t = "Tick" THEN {}
             ELSE LET o == ev.out
                      rok == eo.resp = o.resp
                      bok == eo.bresp = o.bresp
                  IN (IF o.nstat # 1 THEN {"nstat"} ELSE {}) \cup (IF ~o.statresp THEN {"statresp"} ELSE {})
                     \cup (IF ~o.fits THEN {"fits"} ELSE {}) \cup (IF ~o.cache_same THEN {"cache"} ELSE {})
                     \cup { f \in {"same", "limited", "resp", "bresp"} : eo[f] # o[f] }
                     \cup (IF rok THEN (IF eo.len # o.len THEN {"len"} ELSE {}) \cup { "stat." \o f : f \in { g \in StatFields : eo.stat[g] # o.stat[g] } } ELSE {})
                     \cup (IF bok THEN (IF eo.blen # o.blen THEN {"blen"} ELSE {}) \cup { "stat." \o f : f \in { g \in StatFields : eo.bstat[g] # o.bstat[g] } } ELSE {})
                     \cup (IF rok /\ bok /\ (o.resp # "ignore" \/ o.bresp # "ignore")
                             THEN { f \in {"echo", "sealed", "nc", "hdr", "marker"} : eo[f] # o[f] }
                                  \cup (IF ~o.cookies THEN {"cookies"} ELSE {}) \cup (IF ~o.canary THEN {"canary"} ELSE {})
                           ELSE {}))

TraceInit == l = 1 /\ skip = FALSE /\ nb = 0 /\ fin = FALSE /\ st = InitState

Reset(ev) == st' = InitState /\ skip' = FALSE /\ nb' = nb + 1

Step(ev) ==
  IF skip THEN UNCHANGED <<st, skip, nb>>
  ELSE LET a   == Act(ev)
           exp == Post(st, a)
           eo  == Out(st, a)
           d   == Diff(a, exp, eo, ev)
       IN /\ nb' = nb
          /\ IF d = {} THEN st' = exp /\ skip' = FALSE
             ELSE /\ UNCHANGED st /\ skip' = TRUE
                  /\ PrintT(<<"MISMATCH", ToJson([line |-> l, act |-> ev.act, fields |-> d, cones |-> Cones(st, a), pre |-> st,
                                                   expected |-> [st |-> exp, out |-> eo], observed |-> [st |-> ev.st, out |-> ev.out],
                                                   panic |-> ev.panic])>>)

TraceNext ==
  \/ /\ l <= Len(Rec) /\ l' = l + 1 /\ UNCHANGED fin
     /\ IF Rec[l].ev = "reset" THEN Reset(Rec[l]) ELSE Step(Rec[l])
  \/ /\ l = Len(Rec) + 1 /\ ~fin /\ fin' = TRUE /\ UNCHANGED <<st, l, skip, nb>>
     /\ PrintT(<<"DONE", ToJson([consumed |-> Len(Rec), behaviours |-> nb])>>)

TraceSpec == TraceInit /\ [][TraceNext]_tvars
=============================================================================
