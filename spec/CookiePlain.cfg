CONSTANTS
  Algs = {15, 17, 0, 16, 18, 65535}
  Lens = {0, 1, 2, 30, 31, 32, 33, 34, 62, 63, 64, 65, 66, 96, 126, 127, 128, 129, 130, 192, 256}
INIT Init
NEXT Next
INVARIANTS C23_PlainTotal C23_OnlyWellShaped
CHECK_DEADLOCK FALSE
