-------------------------------- MODULE Assoc --------------------------------
(***************************************************************************)
(* Composition: one NTS client association (Source.tla, unchanged) talking *)
(* to an honest NTS server whose cookie keys rotate (the window discipline *)
(* of KeySet.tla: a cookie decodes iff its key is among the current and    *)
(* the History previous ones) through a network that may delay, reorder,   *)
(* duplicate and drop datagrams.                                           *)
(*                                                                         *)
(*   client:  Timer / Recv / Tick of Source.tla on the record `cl`         *)
(*   server:  SrvRecv - a request with a decodable cookie is answered with *)
(*            time and as many fresh cookies (current key) as it has       *)
(*            cookie + placeholder fields; an undecodable one with an      *)
(*            unauthenticated NTS NAK (as Server.tla / server.rs do)       *)
(*   network: a bounded set of in-flight datagrams; delivery may leave the *)
(*            datagram in the network (duplication); Drop removes it       *)
(*   keys:    Rotate; after a Reset the client re-keys (fresh association, *)
(*            eight cookies under the current key, old datagrams useless)  *)
(*                                                                         *)
(* Datagrams name the request they belong to relatively (age 0 = the       *)
(* client's latest request, 1 = the one before, 2 = older), which keeps    *)
(* the model finite without a request counter.                             *)
(*                                                                         *)
(* End-to-end properties (they refine listed ones across components):      *)
(*   E08  at most one measurement per request, whatever is duplicated or   *)
(*        reordered (C08);                                                 *)
(*   E13  an accepted answer refills the cookie jar to eight, the client   *)
(*        never holds more than eight, and never sends when it has none    *)
(*        (C13 with C19's "one fresh cookie per cookie or placeholder");   *)
(*   E07  an NTS NAK (the only unauthenticated datagram the honest server  *)
(*        emits) never changes the client (C07 / C09);                     *)
(*   E26  every cookie the server accepts was issued within the key        *)
(*        window, every cookie it issues is under the current key (C26);   *)
(*   ELive under fair delivery and polling the client measures infinitely  *)
(*        often, re-keying when its cookies have gone stale.               *)
(***************************************************************************)
EXTENDS Source, Json

CONSTANTS History,     \* previous keys the server keeps (KeySetProvider history)
          MaxGen,      \* key generations explored: 0..MaxGen
          MaxNet,      \* bound on datagrams in flight
          CLen,        \* cookie length
          Desired      \* poll exponents the filter may ask for

ASSUME Nts

Rep(x, n) == [i \in 1..n |-> x]
Cookie(g) == g * 2048 + CLen          \* identity of a cookie = generation of the key it was issued under
GenOf(c) == c \div 2048

\* the client association is Source.tla's own variable st
cl == st
VARIABLES gen,     \* generation of the server's newest key
          net,     \* datagrams in flight
          nmeas    \* measurements delivered for the latest request
avars == <<cl, gen, net, nmeas>>

Ver == IF Mode = "NtsV5" THEN 5 ELSE 4
Age(m) == CASE m.age = 0 -> "cur" [] m.age = 1 -> "old" [] OTHER -> "none"
Older(ms) == { [m EXCEPT !.age = Min(2, m.age + 1)] : m \in ms }

\* the datagram classes of Source.tla that the honest server's answers fall into
TimeAnswer(m) == [parse |-> "ok", ver |-> Ver, draft |-> TRUE, mode |-> "server", id |-> Age(m), seal |-> "s2c",
                  ua |-> "ok", ue |-> "none", uu |-> "none", stratum |-> 2, code |-> "none", poll |-> MinPoll,
                  authnak |-> FALSE, marker |-> FALSE, cEnc |-> Rep(Cookie(m.cgen), m.n), cAuth |-> <<>>, cUnt |-> <<>>,
                  refLocal |-> FALSE]
NakAnswer(m) == [TimeAnswer(m) EXCEPT !.seal = "none", !.ua = "none", !.uu = "ok", !.stratum = 0,
                                      !.code = IF Ver = 5 THEN "none" ELSE "NTSN", !.authnak = (Ver = 5), !.cEnc = <<>>]
PacketOf(m) == IF m.kind = "time" THEN TimeAnswer(m) ELSE NakAnswer(m)

Fresh == InitState(Rep(Cookie(gen), MaxCookies))

Init == /\ gen = 0 /\ net = {} /\ nmeas = 0
        /\ cl = InitState(Rep(Cookie(0), MaxCookies))

Acts == { [t |-> "Timer", desired |-> d] : d \in Desired }
        \cup { [t |-> tt, m |-> m, keep |-> k] : tt \in {"SrvRecv", "CliRecv"}, m \in net, k \in BOOLEAN }
        \cup { [t |-> "Drop", m |-> m] : m \in net }
        \cup { [t |-> "Tick", n |-> n] : n \in {1, 2} }
        \cup { [t |-> "Rotate"] }

Enabled(a) == CASE a.t = "SrvRecv" -> a.m.k = "req"
                [] a.t = "CliRecv" -> a.m.k = "ans"
                [] a.t = "Rotate" -> gen < MaxGen
                [] OTHER -> TRUE

\* what the association as a whole does on action a: new client, generation, network, and the client's output
Decodable(c) == GenOf(c) + History >= gen /\ GenOf(c) <= gen
Step(a) ==
  CASE a.t = "Timer" ->
         LET o == Out(cl, a) n == Post(cl, a) IN
         IF o.actions = <<"Send", "SetTimer">> THEN
              [cl |-> n, gen |-> gen, nmeas |-> 0, out |-> o,
               net |-> LET aged == Older(net)
                           req == [k |-> "req", age |-> 0, cookie |-> o.cookie, n |-> o.placeholders + 1, kind |-> "req", cgen |-> 0]
                       IN IF Cardinality(aged) < MaxNet THEN aged \cup {req} ELSE aged]
         ELSE IF o.actions = <<"Reset">> THEN      \* new key exchange: fresh association under the current key
              [cl |-> Fresh, gen |-> gen, nmeas |-> 0, out |-> o, net |-> {}]
         ELSE [cl |-> n, gen |-> gen, nmeas |-> nmeas, out |-> o, net |-> net]
    [] a.t = "SrvRecv" ->
         LET m == a.m
             ans == IF Decodable(m.cookie)
                      THEN [k |-> "ans", age |-> m.age, cookie |-> 0, n |-> Min(m.n, MaxCookies), kind |-> "time", cgen |-> gen]
                    ELSE [k |-> "ans", age |-> m.age, cookie |-> 0, n |-> 0, kind |-> "nak", cgen |-> gen]
             rest == IF a.keep THEN net ELSE net \ {m}
         IN [cl |-> cl, gen |-> gen, nmeas |-> nmeas, out |-> NoOut,
             net |-> IF Cardinality(rest \cup {ans}) <= MaxNet THEN rest \cup {ans} ELSE rest]
    [] a.t = "CliRecv" ->
         LET r == [t |-> "Recv", p |-> PacketOf(a.m)]
             o == Out(cl, r)
         IN [cl |-> Post(cl, r), gen |-> gen, nmeas |-> nmeas + o.meas \div 2, out |-> o,
             net |-> IF a.keep THEN net ELSE net \ {a.m}]
    [] a.t = "Drop" -> [cl |-> cl, gen |-> gen, nmeas |-> nmeas, out |-> NoOut, net |-> net \ {a.m}]
    [] a.t = "Tick" -> [cl |-> Post(cl, a), gen |-> gen, nmeas |-> nmeas, out |-> NoOut, net |-> net]
    [] a.t = "Rotate" -> [cl |-> cl, gen |-> gen + 1, nmeas |-> nmeas, out |-> NoOut, net |-> net]

Do(a) == /\ Enabled(a)
         /\ LET s == Step(a) IN cl' = s.cl /\ gen' = s.gen /\ net' = s.net /\ nmeas' = s.nmeas

Next == \E a \in Acts : Do(a)
Spec == Init /\ [][Next]_avars

\* ---- end-to-end properties ------------------------------------------------------------------------------
E08_OneMeasurementPerRequest == nmeas <= 1
E13_CookieEconomy ==
  /\ Len(cl.stash) <= MaxCookies
  \* an accepted answer refills the jar -- up to what one request can ask for: a client that had to send its last
  \* cookie can only ask for (1024 - 300) \div length cookies (7 for the usual 100-byte cookies), found by TLC
  /\ (cl.pend = 0 /\ cl.since = 0 => Len(cl.stash) >= Min(MaxCookies, Min((BufLen - 300) \div CLen, 255)))
  /\ \A a \in { x \in Acts : x.t = "Timer" } :
        Out(cl, a).actions = <<"Send", "SetTimer">> => Len(cl.stash) >= 1  \* never sends without a cookie
E07_NakHasNoEffect ==
  \A a \in { x \in Acts : x.t = "CliRecv" /\ Enabled(x) } :
     a.m.kind = "nak" => Step(a).cl = cl /\ Step(a).out = NoOut
E26_KeyWindow ==
  /\ \A m \in net : m.k = "ans" /\ m.kind = "time" => m.cgen <= gen
  /\ \A i \in 1..Len(cl.stash) : GenOf(cl.stash[i]) <= gen
TypeOK == gen \in 0..MaxGen /\ Cardinality(net) <= MaxNet /\ nmeas \in 0..2

\* Liveness needs a timing assumption the safety model does not make: the round trip is shorter than the poll
\* interval and the poll window (no new poll and no expiry while the latest exchange is still in flight), nothing
\* is lost or duplicated, keys stop rotating eventually (MaxGen).  Without it TLC exhibits the expected
\* counterexample: a client polling faster than the round trip only ever sees stale answers and re-keys forever.
InFlight == \E m \in net : m.age = 0
TimelyDo(a) == /\ Do(a)
               /\ a.t # "Drop" /\ (a.t \in {"SrvRecv", "CliRecv"} => ~a.keep)
               /\ (InFlight => a.t \notin {"Timer", "Tick"})
TimelyNext == \E a \in Acts : TimelyDo(a)
Fair == /\ \A d \in Desired : WF_avars(TimelyDo([t |-> "Timer", desired |-> d]))
        /\ \A tt \in {"SrvRecv", "CliRecv"} : WF_avars(\E m \in net : TimelyDo([t |-> tt, m |-> m, keep |-> FALSE]))
LiveSpec == Init /\ [][TimelyNext]_avars /\ Fair
ELive_MeasuresAgain == []<>(nmeas = 1)

\* ---- test generation ------------------------------------------------------------------------------------
St == [cl |-> cl, gen |-> gen, net |-> net, nmeas |-> nmeas]
ClFields == {"cl.proto", "cl.k", "cl.since", "cl.tries", "cl.pend", "cl.deny", "cl.remoteMin", "cl.lastPoll", "cl.stash",
             "cl.stratum", "cl.refLocal"}
OutFields == {"out.actions", "out.ver", "out.poll", "out.marker", "out.cookie", "out.placeholders", "out.usable", "out.meas",
              "out.meas_over", "out.stored", "out.len", "out.timer_ok", "panic"}
\* which listed properties a disagreement on a step of the composition is attributed to
AssocCones ==
  [Timer    |-> [C13 |-> {"out.cookie", "out.placeholders", "cl.stash", "net"}, C14 |-> {"panic", "out.len"},
                 C11 |-> {"out.actions", "cl.since", "cl.tries"}],
   CliTime  |-> [C08 |-> {"nmeas", "cl.pend", "out.meas_over", "panic"}, C13 |-> {"cl.stash", "out.stored"}],
   CliNak   |-> [C07 |-> ClFields \cup OutFields \cup {"nmeas"}, C09 |-> ClFields \cup OutFields],
   SrvRecv  |-> [C19 |-> {"net", "panic"}, C26 |-> {"net"}, C22 |-> {"panic"}],
   Other    |-> [C08 |-> {"cl.pend"}]]
CkOf(a) == CASE a.t = "Timer" -> "Timer" [] a.t = "SrvRecv" -> "SrvRecv"
             [] a.t = "CliRecv" -> IF a.m.kind = "nak" THEN "CliNak" ELSE "CliTime" [] OTHER -> "Other"
GenInit == Init /\ PrintT(<<"INIT", ToJson(St)>>) /\ PrintT(<<"CONES", ToJson(AssocCones)>>)
GenNext == \E a \in Acts :
             /\ Do(a)
             /\ PrintT(<<"EDGE", ToJson([pre |-> St, act |-> a, out |-> Step(a).out, ck |-> CkOf(a),
                                          post |-> [cl |-> cl', gen |-> gen', net |-> net', nmeas |-> nmeas']])>>)
=============================================================================
