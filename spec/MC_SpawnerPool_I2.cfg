CONSTANTS
  W = 4
  Count = 2
  Ignore = {1, 3}
  Addr = {1, 2, 3, 4}
  MaxAns = 3
  AsCoded = FALSE
  DistinctAnswers = FALSE
INIT Init
NEXT Next
VIEW PoolView
CHECK_DEADLOCK FALSE
INVARIANTS TypeOK C35_PoolSafe

