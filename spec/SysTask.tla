------------------------------ MODULE SysTask ------------------------------
(***************************************************************************)
(* The system task's source life cycle (ntpd/src/daemon/system.rs):        *)
(* SystemTask::run (event loop + 1 s timer loop), handle_spawn_event,      *)
(* create_source, handle_source_update, handle_source_network_issue /      *)
(* _unreachable / _demobilize; the messages are those of                   *)
(* ntpd/src/daemon/spawn/mod.rs (SpawnEvent, SystemEvent,                  *)
(* SourceRemovalReason) and ntpd/src/daemon/ntp_source.rs (MsgForSystem).  *)
(*                                                                         *)
(* Function style: st' = Post(st, a), Out(st, a) = what the step emits.    *)
(* Only operators here; the bounded model is MC_SysTask.                   *)
(*                                                                         *)
(* Spawners 1..NSp are registered with the system (add_spawner); spawner   *)
(* Ghost = NSp + 1 stands for a SpawnerId the system does not know (a      *)
(* SpawnEvent carrying a foreign id: impossible with the real spawners,    *)
(* which get spawn_tx only through add_spawner, but the code has a branch  *)
(* for it: `if let Some(spawner) = opt_spawner`, system.rs:403/423/443/611)*)
(* Source ids: the code uses the ClockId chosen by the spawner (globally   *)
(* fresh, ClockId::new()); the model names sources 1, 2, ... in order of   *)
(* creation, the harness keeps the table model id -> real ClockId.  A      *)
(* spawner re-using the id of a live source is not modelled (the code      *)
(* would overwrite the table entry, system.rs:468, and start a second      *)
(* task).                                                                  *)
(*                                                                         *)
(* State (one record)                                                      *)
(*  owner[id]  SystemTask::sources[id].spawner_id, 0 = id not in the table *)
(*  kind[id]   SystemTask::sources[id].stype ("Ntp" | "Sock"), "-" absent  *)
(*  ctl[id]    how the clock controller was told about the source:         *)
(*             "Ntp" = add_source, "Sock" = add_one_way_source, "-" never  *)
(*  snaps      keys of DaemonChannels::source_snapshots (what the observer *)
(*             publishes).  Written ONLY by source tasks: an NTP source    *)
(*             task inserts its entry at its first poll, which is due at   *)
(*             once (NtpSource::new: SetTimer(0 s); ntp_source.rs:164-174),*)
(*             and removes it as its last act AFTER having sent its        *)
(*             removal message (ntp_source.rs:149-159, 183-193, 220-230,   *)
(*             249-259, 262-272).  The system task never touches the map.  *)
(*  used       what the clock controller reports as used sources           *)
(*             (TimeSyncController::synchronization_state().1)             *)
(*  pub        what the published SystemSnapshot names as reference:       *)
(*             [k |-> "none"] | [k |-> "Ntp", id] | [k |-> "Sock", id = 0] *)
(*  dead       the system task has panicked                                *)
(* history / environment (not read by the code):                           *)
(*  next       next fresh id                                               *)
(*  by[id]     the spawner that created id (0 = not created)               *)
(*  reg[id]    registered spawner that has received SourceRegistered(id),  *)
(*             0 = none                                                    *)
(*  rem[id]    [to, reason] of the SourceRemoved(id, reason) event that    *)
(*             has been delivered, [to |-> 0, reason |-> "-"] = none       *)
(*  src[id]    the source task: "none" | "run" | "sent" (removal message   *)
(*             sent, own snapshot not yet removed) | "gone"                *)
(* The events a spawner has received are kept per source (reg, rem) and    *)
(* not as one queue per spawner: the order among events of different       *)
(* sources is not constrained by any statement below.  The harness         *)
(* compares the whole multiset of events every spawner has received so     *)
(* far, so a duplicate or a stray event is seen.                           *)
(*                                                                         *)
(* Actions                                                                 *)
(*  [t |-> "Create", sp, kind]  spawner sp sends SpawnEvent(sp, Create) for*)
(*        a fresh id and the event loop handles it (handle_spawn_event ->  *)
(*        create_source); for an NTP source the step includes the source   *)
(*        task's first poll (due at once).                                 *)
(*  [t |-> "Msg", k, id]  a MsgForSystem k(id) arrives and is handled      *)
(*        (handle_source_update).  k in NetworkIssue | Unreachable |       *)
(*        MustDemobilize.                                                  *)
(*  [t |-> "Exit", id]    the source task that has sent its message        *)
(*        removes its snapshot entry and ends (environment; in the harness *)
(*        the driver does it, since it also sent the message in the task's *)
(*        name).                                                           *)
(*  [t |-> "Use", u]      the controller's selection changes to u          *)
(*        (environment; any sources it was ever told about - the real      *)
(*        TimeSyncControllerWrapper refreshes its list only on a successful*)
(*        combine of a measurement, ntp-proto algorithm/mod.rs:316-318 and *)
(*        kalman/mod.rs:219, NOT when a source is dropped, :331-333).      *)
(*  [t |-> "Tick"]        one iteration of the timer loop (system.rs:      *)
(*        306-334).                                                        *)
(* Pending channels: every action is "enqueue + handle".  The event loop   *)
(* awaits each handler inside its select arm (system.rs:339-368), so       *)
(* handling is atomic with respect to other events; both channels are FIFO *)
(* and the choice between them is random (tokio::select!), but events of   *)
(* different sources commute on everything observed here, and Msg(id)      *)
(* cannot overtake Create(id) because the sender of Msg(id) is started by  *)
(* the handling of Create(id).  The timer loop runs in the same task       *)
(* (tokio::join!, system.rs:375) and takes the table lock for its whole    *)
(* iteration, hence it is atomic too.                                      *)
(*                                                                         *)
(* CAN A REAL SOURCE TASK SEND TWO REMOVAL MESSAGES FOR ONE ID?  No.  In   *)
(* ntp_source.rs every `msg_for_system_sender.send(..)` is followed by     *)
(* `return` from SourceTask::run (five places, listed above), the task     *)
(* owns its id, and ids are fresh; sock, pps and csptp source tasks never  *)
(* send a MsgForSystem.  So with the real senders Msg(k, id) happens only  *)
(* with src[id] = "run" (MsgReal below).  The code nevertheless has a      *)
(* failure branch that only such a protocol breach reaches: all three do   *)
(*     self.sources.lock().unwrap().remove(&index).unwrap()                *)
(* (system.rs:400, 420, 440), which PANICS for an id that is not in the    *)
(* table (second message for an id, or an id never created) - with the     *)
(* mutex guard still alive, so the table mutex is poisoned as well - and   *)
(* takes the whole system task down (event loop, timer loop and controller *)
(* run in one task).  The model transcribes that: outcome "panic",         *)
(* dead = TRUE, nothing enabled afterwards.  The bounded model includes    *)
(* such phantom messages so that the branch is replayed on the real task.  *)
(***************************************************************************)
EXTENDS Naturals, Sequences, FiniteSets, TLC

CONSTANTS MaxId,    \* sources are named 1..MaxId
          NSp       \* registered spawners 1..NSp

Ghost == NSp + 1
Registered(sp) == sp \in 1..NSp
Ids == 1..MaxId
MsgKinds == {"NetworkIssue", "Unreachable", "MustDemobilize"}
Reasons == {"NetworkIssue", "Unreachable", "Demobilized"}

\* system.rs:407-410 / 427-430 / 447-450: the reason the handler of message kind k puts into the event
Reason(k) == CASE k = "NetworkIssue" -> "NetworkIssue"
               [] k = "Unreachable" -> "Unreachable"
               [] k = "MustDemobilize" -> "Demobilized"

NoRem == [to |-> 0, reason |-> "-"]
NoPub == [k |-> "none", id |-> 0]
Range(q) == { q[i] : i \in DOMAIN q }

SysInit ==
  [owner |-> [i \in Ids |-> 0], kind |-> [i \in Ids |-> "-"], ctl |-> [i \in Ids |-> "-"], snaps |-> {},
   used |-> <<>>, pub |-> NoPub, dead |-> FALSE,
   next |-> 1, by |-> [i \in Ids |-> 0], reg |-> [i \in Ids |-> 0], rem |-> [i \in Ids |-> NoRem],
   src |-> [i \in Ids |-> "none"]]

InTable(s, id) == s.owner[id] # 0
Table(s) == { id \in Ids : InTable(s, id) }

\* a removal message as a real source task sends it: its own id, once
MsgReal(s, a) == a.t = "Msg" /\ s.src[a.id] = "run"

SysEnabled(s, a) ==
  /\ ~s.dead
  /\ CASE a.t = "Create" -> s.next <= MaxId
       [] a.t = "Msg"    -> TRUE
       [] a.t = "Exit"   -> s.src[a.id] = "sent"
       [] a.t = "Use"    -> a.u # s.used /\ \A i \in Range(a.u) : s.ctl[i] # "-"
       [] a.t = "Tick"   -> TRUE

\* system.rs:461-619 create_source (+ the NTP source task's first poll)
PostCreate(s, a) ==
  LET id == s.next IN
  [s EXCEPT !.owner[id] = a.sp, !.kind[id] = a.kind,                          \* :468-482 insert
            !.ctl[id] = a.kind,                                               \* :486 add_source / :512 add_one_way_source
            !.src[id] = "run",                                                \* :496 / :520 task spawned
            !.snaps = IF a.kind = "Ntp" THEN @ \cup {id} ELSE @,              \* ntp_source.rs:164-174 (timer 0 s)
            !.reg[id] = IF Registered(a.sp) THEN a.sp ELSE 0,                 \* :611-616 notify the spawner, if known
            !.by[id] = a.sp, !.next = id + 1]

\* system.rs:378-455 handle_source_update and the three handlers (identical up to the reason)
PostMsg(s, a) ==
  IF ~InTable(s, a.id) THEN [s EXCEPT !.dead = TRUE]                          \* :400/420/440 remove(..).unwrap() on None
  ELSE LET sp == s.owner[a.id] IN
       [s EXCEPT !.owner[a.id] = 0, !.kind[a.id] = "-",                       \* remove(&index)
                 !.rem[a.id] = IF Registered(sp) THEN [to |-> sp, reason |-> Reason(a.k)] ELSE @,   \* :403-413 etc.
                 !.src[a.id] = "sent"]

\* the source task's last act, ntp_source.rs:154-159 etc.
PostExit(s, a) == [s EXCEPT !.snaps = @ \ {a.id}, !.src[a.id] = "gone"]

\* system.rs:310-329.  All used ids in the table: the reference is recomputed from the used sources
\* (NtpManager::update_used_sources -> NtpSnapshot::from_used_sources: the FIRST used source gives stratum and
\* reference id; none: local stratum, XNON) and the snapshot is sent; otherwise only the time part is refreshed
\* (send_modify) and the NTP part stays as it was.
AllUsedInTable(s) == \A i \in Range(s.used) : InTable(s, i)
PostTick(s) ==
  IF AllUsedInTable(s)
    THEN [s EXCEPT !.pub = IF s.used = <<>> THEN NoPub
                           ELSE IF s.kind[s.used[1]] = "Ntp" THEN [k |-> "Ntp", id |-> s.used[1]]
                           ELSE [k |-> "Sock", id |-> 0]]
    ELSE s

Post(s, a) ==
  CASE a.t = "Create" -> PostCreate(s, a)
    [] a.t = "Msg"    -> PostMsg(s, a)
    [] a.t = "Exit"   -> PostExit(s, a)
    [] a.t = "Use"    -> [s EXCEPT !.used = a.u]
    [] a.t = "Tick"   -> PostTick(s)

\* What the step emits:
\*   evs     the SystemEvents delivered to registered spawners during the step, [to, e, id, reason]
\*   reason  the reason carried by the SourceRemoved event delivered to the spawner owning the source ("-" if the step
\*           delivers none)
\*   panic   the system task panicked
\*   fresh   the published snapshot's time part was refreshed (both branches of the timer loop do that)
Out(s, a) ==
  LET none == [evs |-> <<>>, reason |-> "-", panic |-> FALSE, fresh |-> FALSE] IN
  CASE a.t = "Create" ->
         [none EXCEPT !.evs = IF Registered(a.sp) THEN <<[to |-> a.sp, e |-> "registered", id |-> s.next, reason |-> "-"]>>
                              ELSE <<>>]
    [] a.t = "Msg" ->
         IF ~InTable(s, a.id) THEN [none EXCEPT !.panic = TRUE]
         ELSE IF Registered(s.owner[a.id])
           THEN [none EXCEPT !.evs = <<[to |-> s.owner[a.id], e |-> "removed", id |-> a.id, reason |-> Reason(a.k)]>>,
                             !.reason = Reason(a.k)]
           ELSE none
    [] a.t = "Tick" -> [none EXCEPT !.fresh = TRUE]
    [] OTHER -> none

(***************************************************************************)
(* Declarative statements (checked by TLC on MC_SysTask).  They are not    *)
(* among the listed properties; they are what C36 rests on at the system   *)
(* side: the reason delivered by the system is what the spawner acts on.   *)
(***************************************************************************)
\* the expected reason, stated independently of Reason()
ReasonPairs == { <<"NetworkIssue", "NetworkIssue">>, <<"Unreachable", "Unreachable">>, <<"MustDemobilize", "Demobilized">> }

\* SYS1  every removal message for a source in the table removes exactly that source from the table, and the owning
\*       spawner (and no other) receives exactly one `removed` event carrying the id and the reason that corresponds to
\*       the message kind; no panic.  (Owner unknown to the system: nobody is told - as coded.)
SYS1_Removal(s, a) ==
  (a.t = "Msg" /\ InTable(s, a.id)) =>
     LET p == Post(s, a)  o == Out(s, a)  sp == s.owner[a.id] IN
     /\ Table(p) = Table(s) \ {a.id}
     /\ \A j \in Table(p) : p.owner[j] = s.owner[j] /\ p.kind[j] = s.kind[j]
     /\ ~o.panic
     /\ Registered(sp) => /\ Len(o.evs) = 1
                          /\ o.evs[1].to = sp /\ o.evs[1].e = "removed" /\ o.evs[1].id = a.id
                          /\ <<a.k, o.evs[1].reason>> \in ReasonPairs
                          /\ o.reason = o.evs[1].reason
     /\ ~Registered(sp) => o.evs = <<>>
     /\ p.snaps = s.snaps /\ p.ctl = s.ctl /\ p.pub = s.pub                 \* as coded: nothing else is touched

\* SYS1b  as coded: a removal message for an id that is NOT in the table panics (see the module comment); it cannot come
\*        from a real source task.
SYS1b_PanicOnlyOnPhantom(s, a) ==
  a.t = "Msg" => (Out(s, a).panic <=> ~InTable(s, a.id)) /\ (MsgReal(s, a) => ~Out(s, a).panic)

\* SYS2  every created source is entered into the table under its spawner and kind, is handed to the controller, and
\*       is announced to its spawner exactly once (here: in the creating step; never again: SYS3 keeps reg[id] fixed).
SYS2_Creation(s, a) ==
  a.t = "Create" =>
     LET p == Post(s, a)  o == Out(s, a)  id == s.next IN
     /\ Table(p) = Table(s) \cup {id} /\ id \notin Table(s)
     /\ p.owner[id] = a.sp /\ p.kind[id] = a.kind /\ p.ctl[id] = a.kind
     /\ \A j \in Table(s) : p.owner[j] = s.owner[j] /\ p.kind[j] = s.kind[j]
     /\ Registered(a.sp) => o.evs = <<[to |-> a.sp, e |-> "registered", id |-> id, reason |-> "-"]>>
     /\ ~Registered(a.sp) => o.evs = <<>>
     /\ ~o.panic

\* only Create and Msg deliver events
SYS2b_NoStrayEvents(s, a) == a.t \notin {"Create", "Msg"} => Out(s, a).evs = <<>> /\ Post(s, a).owner = s.owner

\* SYS3  state invariant: table = created - removed, and the event history is exactly one `registered` per created
\*       source and one `removed` per removed source, both to the creating spawner (if registered).
SYS3_Inventory(s) ==
  \A id \in Ids :
    /\ (id >= s.next) <=> s.src[id] = "none"
    /\ (id >= s.next) <=> s.by[id] = 0
    /\ InTable(s, id) <=> s.src[id] = "run"                                   \* table = created - removed
    /\ InTable(s, id) => s.owner[id] = s.by[id]
    /\ s.reg[id] = (IF Registered(s.by[id]) THEN s.by[id] ELSE 0)
    /\ s.rem[id].to # 0 <=> (s.src[id] \in {"sent", "gone"} /\ Registered(s.by[id]))
    /\ s.rem[id].to # 0 => s.rem[id].to = s.by[id] /\ s.rem[id].reason \in Reasons
    /\ s.ctl[id] # "-" <=> id < s.next

\* SYS4  published source snapshots: once the removal has been processed AND the source task has ended, the source is
\*       neither in the table nor in the source snapshots; entries exist only for NTP sources that are running or are
\*       in their last act.  (In between - src = "sent" - the entry outlives the table entry: the two are updated by
\*       different tasks without synchronisation, by design.)
SYS4_Snapshots(s) ==
  /\ \A id \in Ids : s.src[id] = "gone" => id \notin s.snaps /\ ~InTable(s, id)
  /\ \A id \in s.snaps : s.src[id] \in {"run", "sent"} /\ s.ctl[id] = "Ntp"
  /\ \A id \in Ids : (s.src[id] = "run" /\ s.ctl[id] = "Ntp") => id \in s.snaps

\* SYS5  the published system snapshot.  As coded: a tick republishes the reference iff every source the controller
\*       reports as used is in the table; then the reference is the first used source.
SYS5_TickAsCoded(s, a) ==
  a.t = "Tick" =>
     LET p == Post(s, a) IN
     /\ AllUsedInTable(s) /\ s.used # <<>> => (p.pub.k = s.kind[s.used[1]] /\ (p.pub.k = "Ntp" => p.pub.id = s.used[1]))
     /\ AllUsedInTable(s) /\ s.used = <<>> => p.pub = NoPub
     /\ ~AllUsedInTable(s) => p.pub = s.pub
     /\ Out(s, a).fresh
\*       Conditional form of "the system no longer uses a removed source": IF the controller has stopped reporting
\*       removed sources, then after a tick the published reference is a source in the table.
SYS5_NoRemovedReferenceIfControllerForgets(s, a) ==
  (a.t = "Tick" /\ AllUsedInTable(s)) => (Post(s, a).pub.k = "Ntp" => InTable(s, Post(s, a).pub.id))
\*       The INTENDED unconditional form ("after a tick the published reference is a source in the table") does NOT
\*       hold for the code (checked as an expected counterexample by CE_SysTask_Stale.cfg):
\*       Create(1, Ntp); Use(<<1>>); Tick; Msg(Unreachable, 1); Tick  leaves pub = source 1.
\*       The system task never tells the controller about a removal (the controller learns it when the source task
\*       drops its handle), the real controller wrapper keeps reporting the dropped source until some other source's
\*       measurement is combined, and the timer loop then skips the NTP part of the snapshot: the daemon keeps
\*       announcing stratum and reference id of the removed source (with growing root dispersion) until another source
\*       is selected.
SYS5_Intended(s, a) == a.t = "Tick" => (Post(s, a).pub.k = "Ntp" => InTable(s, Post(s, a).pub.id))
\* weaker, holds: the published reference is a source that has been created
SYS5_ReferenceWasCreated(s) == s.pub.k = "Ntp" => s.pub.id < s.next

(***************************************************************************)
(* Cones.  C36 ("A plain single-server spawner never respawns a demobilised*)
(* source and re-resolves the server name after an unreachable removal")   *)
(* depends on the system task through exactly one observable: the reason   *)
(* carried by the removed-event delivered to the owning spawner.  Weaker   *)
(* reading: C36 constrains WHICH reason is delivered when an event is      *)
(* delivered; that exactly one event is delivered, to the owner only, is   *)
(* SYS1 ("out.evs", "rem").  Everything else is compared too and attributed*)
(* to SYS (a divergence note of the C36 check, not a C36 violation).       *)
(***************************************************************************)
SysObservables == {"owner", "kind", "ctl", "snaps", "pub", "reg", "rem", "out.evs", "out.fresh", "panic", "extra"}
ConeKey(s, a) == IF a.t = "Msg" /\ InTable(s, a.id) /\ Registered(s.owner[a.id]) THEN "MsgOwned" ELSE "Other"
ConeTable ==
  [MsgOwned |-> [C36 |-> {"out.reason"}, SYS |-> SysObservables],
   Other    |-> [C36 |-> {},             SYS |-> SysObservables \cup {"out.reason"}]]
ConesOf(k) == ConeTable[k]

=============================================================================
