CONSTANTS
  ShapeSample = "small"
INIT GenInit
NEXT GenNext
CHECK_DEADLOCK FALSE
INVARIANTS C38_FramingRule
