----------------------------- MODULE MC_Source -----------------------------
(***************************************************************************)
(* Bounded configuration of Source.tla: the action alphabet (timer inputs, *)
(* datagram classes, clock ticks) for each mode, the invariants, and the   *)
(* transition printer used to generate implementation tests.               *)
(***************************************************************************)
EXTENDS Source, Json

CONSTANTS Desired,      \* poll exponents the clock filter may ask for
          ReqPolls,     \* poll bytes a v5 answer may carry
          Strata,       \* strata of time answers
          CLen,         \* byte length of delivered cookies
          Batches,      \* numbers of cookies an answer may carry in its encrypted part
          InitCookies,  \* cookies obtained from key exchange
          RefLocals     \* values of the "reference id is one of ours" attribute

Rep(x, n) == [i \in 1..n |-> x]

Versions == CASE Mode = "PlainV4" -> {3, 4, 5} [] Mode = "PlainV5" -> {4, 5}
              [] Mode = "PlainAuto" -> {4, 5} [] Mode = "NtsV4" -> {4, 5} [] Mode = "NtsV5" -> {4, 5}

Base(v) == [parse |-> "ok", ver |-> v, draft |-> TRUE, mode |-> "server", id |-> "cur",
            seal |-> IF Nts THEN "s2c" ELSE "none",
            ua |-> IF Nts THEN "ok" ELSE "none", ue |-> "none", uu |-> "none",
            stratum |-> 2, code |-> "none", poll |-> MinPoll, authnak |-> FALSE, marker |-> FALSE,
            cEnc |-> <<>>, cAuth |-> <<>>, cUnt |-> <<>>, refLocal |-> FALSE]

\* genuine time answers
TimeAnswers(v) ==
  { [Base(v) EXCEPT !.stratum = s, !.poll = q, !.marker = m, !.cEnc = Rep(CLen, b), !.refLocal = r] :
      s \in Strata, q \in (IF v = 5 THEN ReqPolls ELSE {MinPoll}),
      m \in (IF v = 4 /\ Mode = "PlainAuto" THEN BOOLEAN ELSE {FALSE}),
      b \in (IF Nts THEN Batches ELSE {0}),
      r \in (IF v = 5 THEN {FALSE} ELSE RefLocals) }

\* KISS answers (stratum 0). v5: RATE = poll above our own, DENY = poll NEVER, NTS-NAK = authnak flag.
\* The combinations "authnak together with a RATE/DENY poll value" are ambiguous and not generated.
Kisses(v) ==
  IF v = 5 THEN
     { x \in { [Base(v) EXCEPT !.stratum = 0, !.poll = q, !.authnak = n] :
                  q \in {MinPoll, MaxPoll + 1, 100, NEVER}, n \in BOOLEAN } : ~(x.authnak /\ x.poll # MinPoll) }
  ELSE { [Base(v) EXCEPT !.stratum = 0, !.code = c] : c \in {"RATE", "DENY", "RSTR", "NTSN", "XXXX"} }

\* well-formed but unusable / stale / misdirected variants of an answer x
Deviations(x) ==
  { [x EXCEPT !.id = "old"], [x EXCEPT !.id = "none"], [x EXCEPT !.mode = "other"],
    [x EXCEPT !.parse = "garbage"] }
  \cup (IF x.stratum > 0 THEN {[x EXCEPT !.stratum = 17]} ELSE {})
  \cup (IF x.ver = 5 THEN {[x EXCEPT !.draft = FALSE]} ELSE {})

\* what an attacker can do to / instead of an authenticated answer x of an NTS association
NtsAttacks(x) ==
  { [x EXCEPT !.seal = "other"], [x EXCEPT !.seal = "tampered"],
    [x EXCEPT !.seal = "none", !.ua = "none", !.uu = "ok", !.cUnt = x.cEnc, !.cEnc = <<>>],
    [x EXCEPT !.seal = "none", !.ua = "none", !.uu = "none"],
    \* NAK markings (reference id "NTSN" / v5 NAK flag) on a datagram that is not a KISS packet
    [x EXCEPT !.seal = "none", !.ua = "none", !.uu = "ok", !.code = IF x.ver = 5 THEN "none" ELSE "NTSN",
              !.authnak = (x.ver = 5), !.poll = MinPoll],
    [x EXCEPT !.ua = "bad"], [x EXCEPT !.ua = "none", !.ue = "ok"], [x EXCEPT !.ua = "none", !.ue = "bad"],
    [x EXCEPT !.ua = "none", !.uu = "ok"], [x EXCEPT !.uu = "bad"],
    [x EXCEPT !.cAuth = x.cEnc, !.cEnc = <<>>], [x EXCEPT !.cUnt = x.cEnc] }

\* the forged NTPv5 datagrams of finding F-1: unauthenticated, authnak set, RATE / DENY poll value
V5Forgeries ==
  IF Nts THEN { [Base(5) EXCEPT !.seal = "none", !.ua = "none", !.uu = "ok", !.stratum = 0, !.authnak = TRUE, !.poll = q] :
                  q \in {MinPoll, MaxPoll + 1, NEVER} }
  ELSE {}

\* an authenticated KISS answer that nevertheless carries a fresh cookie (other servers may do that): no cookie is
\* ever taken from it, however often it is delivered
KissesWithCookie(v) == IF Nts THEN { [k EXCEPT !.cEnc = Rep(CLen, 1)] : k \in Kisses(v) } ELSE {}

Genuine == UNION { TimeAnswers(v) \cup Kisses(v) \cup KissesWithCookie(v) : v \in Versions }
SomeGenuine == UNION { { [Base(v) EXCEPT !.cEnc = Rep(CLen, IF Nts THEN 1 ELSE 0)] } \cup Kisses(v) : v \in Versions }

Packets == Genuine \cup UNION { Deviations(x) : x \in SomeGenuine }
                   \cup (IF Nts THEN UNION { NtsAttacks(x) : x \in SomeGenuine } ELSE
                           { [x EXCEPT !.seal = "s2c"] : x \in { Base(v) : v \in Versions } })
                   \cup V5Forgeries

Acts == { [t |-> "Timer", desired |-> d] : d \in Desired }
        \cup { [t |-> "Recv", p |-> p] : p \in Packets }
        \cup { [t |-> "Tick", n |-> n] : n \in {1, 2} }

Init == st = InitState(IF Nts THEN Rep(CLen, InitCookies) ELSE <<>>)
Next == \E a \in Acts : st' = Post(st, a)
Spec == Init /\ [][Next]_vars

TypeOK == /\ st.proto \in {"V4", "Upg", "Upgraded", "V5"} /\ st.k \in 0..UpgradeTries
          /\ st.since \in 0..8 /\ st.tries \in 0..3 /\ st.pend \in 0..3 /\ st.deny \in BOOLEAN
          /\ st.remoteMin \in MinPoll..NEVER /\ st.lastPoll \in MinPoll..NEVER
          /\ Len(st.stash) <= MaxCookies /\ st.stratum \in 0..16

All(P(_, _)) == \A a \in Acts : P(st, a)
C07_UnauthenticatedHasNoEffect == All(C07_Step) /\ All(C07_Cookies)
C08_OnlyFreshAnswers == All(C08_Step)
C09_KissCodes == All(C09_Step) /\ All(C09_Timer) /\ All(C09_Demob)
C10_PollBounds == All(C10_Step)
C11_Reachability == All(C11_Step) /\ C11_Inv
C12_VersionNegotiation == All(C12_Step)
C13_CookieDiscipline == All(C13_Step)
C14_RequestFits == All(C14_Step)
C33_UsableFlag == All(C33_Step)

\* ---- test generation: print every explored transition once ----
GenInit == Init /\ PrintT(<<"INIT", ToJson(st)>>) /\ PrintT(<<"CONES", ToJson(ConeTable)>>)
GenNext == \E a \in Acts :
             /\ st' = Post(st, a)
             /\ PrintT(<<"EDGE", ToJson([pre |-> st, act |-> a, post |-> st', out |-> Out(st, a),
                                          ck |-> ConeKeyStr(ConeKey(st, a))])>>)
=============================================================================
