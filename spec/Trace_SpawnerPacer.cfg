CONSTANTS
  W = 20
  Count = 1
  Ignore = {}
INIT TraceInit
NEXT TraceNext
CHECK_DEADLOCK FALSE
