----------------------------- MODULE MC_KeySet -----------------------------
(***************************************************************************)
(* Bounded configurations of KeySet.tla: action alphabet, invariants and   *)
(* the transition printer used to generate implementation tests.           *)
(*   Rot*    rotation / issue / decode only (C26), long enough for the     *)
(*           wire-id counter to wrap (M = 8)                               *)
(*   Store*  start, store path token by token, crash at and inside every   *)
(*           token, restart (C27), no faults                               *)
(*   Faults  plus truncation / header / key corruption of the file at rest *)
(*   NoTrunc negative configuration: a non-truncating open violates        *)
(*           C27_CrashAtomicity (shows the invariant is not vacuous)       *)
(***************************************************************************)
EXTENDS KeySet, Json

CONSTANTS WithDecode,   \* variants of Decode explored
          WithStore,    \* store path / crash / restart actions present
          WithFaults    \* fault actions present

MaxToks == 4 + Max(History + 1, InitKeys)

Acts ==
        { [t |-> "Rotate"], [t |-> "Issue"], [t |-> "Restart"] }
   \cup { [t |-> "Decode", c |-> c, var |-> v] : c \in 1..MaxCookies, v \in WithDecode }
   \cup (IF WithStore THEN { [t |-> "Open"], [t |-> "Write"], [t |-> "Close"] }
                           \cup { [t |-> "Crash", torn |-> b] : b \in BOOLEAN } ELSE {})
   \cup (IF WithFaults THEN { [t |-> "Truncate", n |-> n, part |-> b] : n \in 0..MaxToks, b \in BOOLEAN }
                            \cup { [t |-> "CorruptHeader", f |-> f, cls |-> c] :
                                     f \in {"primary", "len"}, c \in {"zero", "refm1", "ref", "refp1", "max"} }
                            \cup { [t |-> "CorruptHeader", f |-> "offset", cls |-> "bump"] }
                            \cup { [t |-> "CorruptKey", i |-> i] : i \in 1..(MaxToks - 4) }
         ELSE {})

Init == st = InitState
Next == \E a \in Acts : Enabled(st, a) /\ st' = Post(st, a)
Spec == Init /\ [][Next]_vars

TypeOK == /\ st.up \in BOOLEAN /\ st.offset \in 0..(M - 1) \cup {MAXV} /\ st.primary \in Nat /\ st.next \in 0..MaxGen
          /\ Len(st.cookies) <= MaxCookies /\ st.fd \in 0..(MaxToks + 1) /\ st.nf \in 0..MaxFaults

All(P(_, _)) == \A a \in Acts : Enabled(st, a) => P(st, a)
C26_CookieWindow == All(C26_Decode) /\ All(C26_Rotate) /\ All(C26_Newest) /\ C26_PrimaryLast /\ C26_UniqueIds
C27_CleanRestoreInv == All(C27_CleanRestore)
C27_CrashAtomicity == All(C27_CrashAtomic)
C27_StartsUsable == All(C27_Usable) /\ All(C27_Mode) /\ All(C27_CookiesSurvive)

\* ---- test generation: print every explored transition once ----
GenInit == Init /\ PrintT(<<"INIT", ToJson(st)>>) /\ PrintT(<<"CONES", ToJson(ConeTable)>>)
GenNext == \E a \in Acts :
             /\ Enabled(st, a)
             /\ st' = Post(st, a)
             /\ PrintT(<<"EDGE", ToJson([pre |-> st, act |-> a, post |-> st', out |-> Out(st, a),
                                          ck |-> ConeKeyStr(ConeKey(st, a))])>>)
=============================================================================
