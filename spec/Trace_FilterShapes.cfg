CONSTANTS
  BaseOffsets = {"zero", "sec", "alt", "maxneg"}
  BaseDelays = {"zero", "ms"}
  BaseGaps = {"ms", "sec"}
  TailOffsets = {"zero", "sec", "maxpos", "maxneg"}
  TailDelays = {"neg", "min", "max"}
  TailGaps = {"ms", "long"}
  TailDisps = {"zero", "max"}
  TailLen = 2
  Reps = 2
INIT TraceInit
NEXT TraceNext
CHECK_DEADLOCK FALSE
