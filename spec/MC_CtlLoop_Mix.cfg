CONSTANTS
  N = 2
  OneWay = {1}
  MaxMeas = 1
  MaxChan = 2
  UsableVals = {TRUE, FALSE}
  Steers = {TRUE}
  Arms = {TRUE}
INIT Init
NEXT Next
CHECK_DEADLOCK FALSE
INVARIANTS TypeOK C37_StepHolds C37_Invariant
