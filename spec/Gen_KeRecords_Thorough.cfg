CONSTANTS
  FullLen = 2
  CoreLen = 3
  ExactLen = 4
  SeqTails = {"eom", "eof", "endless", "fill", "straddle"}
  MutTails = {"eom", "eof", "endless", "fill", "straddle"}
INIT GenInit
NEXT GenNext
CHECK_DEADLOCK FALSE
INVARIANTS C30_ModelBounded
