------------------------------ MODULE CtlLoop ------------------------------
(***************************************************************************)
(* The wrapper layer between the source tasks and the clock controller,    *)
(* with the message loop in FINE-GRAINED steps:                            *)
(*   ntp-proto/src/algorithm/mod.rs   TimeSyncControllerWrapper::run,      *)
(*        add_source / add_one_way_source, the two source wrappers         *)
(*        (handle_measurement, set_usable, Drop), one unbounded channel.   *)
(*                                                                         *)
(* ClockCtl.tla treats one iteration of run() as one atomic action.  It is *)
(* not: when the controller's answer carries a `source_message` (steering  *)
(* broadcast) the loop walks over its lists of Weak source handles - first *)
(* the one-way sources, then the two-way sources, each list locked for the *)
(* duration of its walk - upgrades every handle that is still alive and    *)
(* calls handle_message on it under that source's mutex.  The source tasks *)
(* run on other threads all the while: they drop their wrapper (also the   *)
(* one whose handle the loop is holding at that moment), send measurements,*)
(* report usability, and new sources are added.                            *)
(*                                                                         *)
(* The inner controller is ABSTRACT here (the harness uses a recording     *)
(* mock with the contract of KalmanClockController: add registers with     *)
(* usable = FALSE, remove unregisters, update / message for an unknown id  *)
(* are ignored); ClockCtl.tla covers the real controller.  Whether a       *)
(* measurement message makes the controller answer with a broadcast        *)
(* (`steer`) and with a request for a timer update (`arm`) is an input of   *)
(* the Recv action.  A requested timer update is due at once: time_update  *)
(* runs right after the iteration that asked for it and answers with a     *)
(* broadcast (the other order of select! - a queued message first - is the *)
(* same two iterations in the other order and is not explored).            *)
(*                                                                         *)
(* Granularity.  The loop stands still only (1) waiting for a message and  *)
(* (2) inside handle_message of the handle it holds (`cur`).  Releasing a  *)
(* handle, skipping the handles whose source is gone and upgrading the     *)
(* next live one is one step (Leave / the tail of Recv): an operation of a *)
(* source task that falls between the release and the next upgrade has    *)
(* the same effect as the same operation just before the release (a Drop   *)
(* makes the upgrade fail either way; the others only enqueue); the        *)
(* harness cannot stop the real loop there.  MC_CtlLoopFine.tla checks the *)
(* same property with release and upgrade as separate steps (model only).  *)
(*                                                                         *)
(* Blocking = not enabled: Meas(i) while the loop holds i's mutex, Add of  *)
(* a source whose kind's handle list is locked by the walk.                *)
(*                                                                         *)
(* State `st`, deterministic: Post(s, a), Out(s, a), Cones.  Property C37. *)
(***************************************************************************)
EXTENDS Naturals, Sequences, FiniteSets, TLC

CONSTANTS N,          \* source slots; a slot is used again with a fresh ClockId once nothing of its old handle is left
          OneWay,     \* the slots holding one-way sources (add_one_way_source); the others are two-way (add_source)
          MaxMeas     \* measurements a handle sends (they are numbered 1..MaxMeas by the source controller)

Slots == 1..N

InitSrc == [alive |-> FALSE,   \* the source task holds its wrapper
            reg |-> FALSE,     \* the controller knows the source (add .. remove)
            usable |-> FALSE,  \* the controller's usable flag
            sent |-> 0,        \* measurements this handle has produced
            proc |-> 0]        \* number of the last measurement of this handle the controller has processed
InitState == [src |-> [i \in Slots |-> InitSrc],
              chan |-> <<>>,   \* the channel: messages [k |-> "M"|"U"|"D", i, n, b]
              ow |-> <<>>,     \* live one-way handles in the order of their addition (dead Weak entries always fail to upgrade)
              tw |-> <<>>,     \* live two-way handles
              pc |-> "idle",   \* "idle": waiting in select!;  "ow" / "tw": inside handle_message during the walk over that list
              cur |-> 0,       \* the slot whose upgraded handle the loop holds (0: none)
              todo |-> <<>>,   \* live handles of the current list not yet visited
              arm |-> FALSE]   \* the update being broadcast asked for a timer update (sleeper reset at the end of the iteration)

Msg(k, i, n, b) == [k |-> k, i |-> i, n |-> n, b |-> b]
Call(c, i, n, b) == [c |-> c, i |-> i, n |-> n, b |-> b]     \* a call into the inner controller: add / sm / su / rm
NoOut == [calls |-> <<>>, tu |-> FALSE]                       \* tu: time_update was called in this step

InChan(s, i) == \E k \in 1..Len(s.chan) : s.chan[k].i = i
ListPc(i) == IF i \in OneWay THEN "ow" ELSE "tw"
Without(q, i) == SelectSeq(q, LAMBDA x : x # i)

(***************************************************************************)
(* The loop between two resting points.                                    *)
(***************************************************************************)
\* mod.rs:304-311 / 332-339  start of the walk: the one-way list is locked first
StartBc(s) == [s EXCEPT !.pc = "ow", !.todo = s.ow, !.cur = 0]

\* the handle held (if any) has been released: `filter_map(Weak::upgrade)` yields the next handle whose source still holds its
\* wrapper (between visits nothing else keeps a handle alive) and the loop enters its handle_message; an exhausted one-way
\* list is unlocked and the two-way list locked and walked; an exhausted two-way list ends the broadcast
Upg(s) ==
  IF s.todo # <<>> THEN [s EXCEPT !.cur = Head(s.todo), !.todo = Tail(s.todo)]
  ELSE IF s.pc = "ow" /\ s.tw # <<>> THEN [s EXCEPT !.pc = "tw", !.cur = Head(s.tw), !.todo = Tail(s.tw)]
  ELSE [s EXCEPT !.pc = "idle", !.cur = 0, !.todo = <<>>]

\* runs the loop to its next resting point; so = <<state, out>>.  mod.rs:318-320 the sleeper is reset at the very end of the
\* iteration, mod.rs:330-349 the timer branch (time_update answers with a broadcast and asks for no further timer)
Run(so) ==
  LET s1 == IF so[1].pc = "idle" THEN so[1] ELSE Upg([so[1] EXCEPT !.cur = 0])
  IN IF s1.pc = "idle" /\ s1.arm
       THEN << Upg(StartBc([s1 EXCEPT !.arm = FALSE])), [so[2] EXCEPT !.tu = TRUE] >>
       ELSE << s1, so[2] >>

(***************************************************************************)
(* Action enabledness.                                                     *)
(***************************************************************************)
Enabled(s, a) ==
  CASE a.t = "Add"    -> /\ ~s.src[a.i].alive /\ ~s.src[a.i].reg /\ ~InChan(s, a.i) /\ s.cur # a.i
                         /\ s.pc # ListPc(a.i)                 \* the list the new handle is pushed to is locked during its walk
    [] a.t = "Meas"   -> s.src[a.i].alive /\ s.src[a.i].sent < MaxMeas /\ s.cur # a.i    \* the source's mutex is held by the loop
    [] a.t = "Usable" -> s.src[a.i].alive
    [] a.t = "Drop"   -> s.src[a.i].alive                      \* in every phase of the loop, also while the loop holds this very handle
    [] a.t = "Recv"   -> /\ s.pc = "idle" /\ s.chan # <<>>
                         /\ LET m == Head(s.chan)              \* the inputs matter only for a measurement of a registered source
                            IN ~(m.k = "M" /\ s.src[m.i].reg) => ~a.steer /\ ~a.arm
    [] a.t = "Leave"  -> s.pc # "idle"

(***************************************************************************)
(* Post / Out.                                                             *)
(***************************************************************************)
\* mod.rs:300-328 one message taken from the channel
RecvSO(s, a) ==
  LET m  == Head(s.chan)
      s1 == [s EXCEPT !.chan = Tail(@)]
      i  == m.i
  IN CASE m.k = "U" -> << IF s1.src[i].reg THEN [s1 EXCEPT !.src[i].usable = m.b] ELSE s1,
                          [NoOut EXCEPT !.calls = << Call("su", i, 0, m.b) >>] >>
       [] m.k = "D" -> << [s1 EXCEPT !.src[i].reg = FALSE, !.src[i].usable = FALSE],
                          [NoOut EXCEPT !.calls = << Call("rm", i, 0, FALSE) >>] >>
       [] m.k = "M" -> LET o == [NoOut EXCEPT !.calls = << Call("sm", i, m.n, FALSE) >>]
                       IN IF ~s1.src[i].reg THEN << s1, o >>          \* unknown id: ignored, default (empty) update
                          ELSE LET s2 == [s1 EXCEPT !.src[i].proc = m.n, !.arm = a.arm]
                               IN Run(<< IF a.steer THEN StartBc(s2) ELSE s2, o >>)

SO(s, a) ==
  CASE a.t = "Add"    -> \* mod.rs:246-286: the controller is told first, then the Weak handle is pushed to the list of its kind
                         << [s EXCEPT !.src[a.i] = [InitSrc EXCEPT !.alive = TRUE, !.reg = TRUE],
                                      !.ow = IF a.i \in OneWay THEN Append(@, a.i) ELSE @,
                                      !.tw = IF a.i \in OneWay THEN @ ELSE Append(@, a.i)],
                            [NoOut EXCEPT !.calls = << Call("add", a.i, 0, FALSE) >>] >>
    [] a.t = "Meas"   -> \* mod.rs:389-409 / 449-480
                         << [s EXCEPT !.src[a.i].sent = @ + 1, !.chan = Append(@, Msg("M", a.i, s.src[a.i].sent + 1, FALSE))], NoOut >>
    [] a.t = "Usable" -> \* mod.rs:411 / 482
                         << [s EXCEPT !.chan = Append(@, Msg("U", a.i, 0, a.b))], NoOut >>
    [] a.t = "Drop"   -> \* mod.rs:378 / 436 Drop: Dropped is sent, then the wrapper's Arc goes: from now on the Weak handle can be
                         \* upgraded no more - unless the loop holds an upgraded copy right now, which it keeps until it leaves
                         << [s EXCEPT !.src[a.i].alive = FALSE, !.chan = Append(@, Msg("D", a.i, 0, FALSE)),
                                      !.ow = Without(@, a.i), !.tw = Without(@, a.i), !.todo = Without(@, a.i)], NoOut >>
    [] a.t = "Recv"   -> RecvSO(s, a)
    [] a.t = "Leave"  -> Run(<< s, NoOut >>)     \* handle_message returns; the upgraded Arc is dropped at the end of the loop body

Post(s, a) == SO(s, a)[1]
Out(s, a)  == SO(s, a)[2]

(***************************************************************************)
(* C37 on this layer, declaratively over one step.                         *)
(* Ctl(s): what the controller knows - the registered set, the usable      *)
(* flags, the measurements processed.                                      *)
(***************************************************************************)
Ctl(s) == [i \in Slots |-> [reg |-> s.src[i].reg, usable |-> s.src[i].usable, proc |-> s.src[i].proc]]

\* p, o: the step's post state and output (Post / Out below; MC_CtlLoopFine evaluates the same formula on finer steps)
C37_StepOn(s, a, p, o) ==
     \* operations of the source tasks only enqueue - exactly one message each, in every phase of the loop; in particular
     \* EVERY drop of a wrapper announces the removal
     /\ a.t = "Drop"   => p.chan = Append(s.chan, Msg("D", a.i, 0, FALSE)) /\ Ctl(p) = Ctl(s) /\ o = NoOut
     /\ a.t = "Meas"   => p.chan = Append(s.chan, Msg("M", a.i, s.src[a.i].sent + 1, FALSE)) /\ Ctl(p) = Ctl(s) /\ o = NoOut
     /\ a.t = "Usable" => p.chan = Append(s.chan, Msg("U", a.i, 0, a.b)) /\ Ctl(p) = Ctl(s) /\ o = NoOut
     \* the walk of a broadcast neither consumes messages nor tells the controller anything about a source
     /\ a.t = "Leave"  => p.chan = s.chan /\ Ctl(p) = Ctl(s) /\ o.calls = <<>>
     /\ a.t = "Recv"   =>
          LET m == Head(s.chan)
          IN /\ p.chan = Tail(s.chan)
             /\ Len(o.calls) = 1
             /\ \A j \in Slots \ {m.i} : Ctl(p)[j] = Ctl(s)[j]
             \* removal takes the source out
             /\ m.k = "D" => ~p.src[m.i].reg /\ ~p.src[m.i].usable
             \* data for a source that is not (no longer) registered changes nothing and moves nothing
             /\ m.k \in {"M", "U"} /\ ~s.src[m.i].reg => Ctl(p) = Ctl(s) /\ p.pc = "idle" /\ ~o.tu
             \* measurements of a source are processed in the order they were produced, none skipped
             /\ m.k = "M" /\ s.src[m.i].reg => /\ m.n = s.src[m.i].proc + 1 /\ p.src[m.i].proc = m.n
                                               /\ o.calls[1] = Call("sm", m.i, m.n, FALSE)
                                               /\ p.src[m.i].usable = s.src[m.i].usable /\ p.src[m.i].reg
             \* the usable flag is the last one reported
             /\ m.k = "U" /\ s.src[m.i].reg => /\ p.src[m.i].usable = m.b /\ p.src[m.i].proc = s.src[m.i].proc /\ p.src[m.i].reg

C37_Step(s, a) == C37_StepOn(s, a, Post(s, a), Out(s, a))

\* State invariants (they make the step property inductive): a source is registered exactly while it is held or its removal is
\* under way; the removal notice is the last message of its handle; measurements queue up in order; at rest nothing dangles.
C37_Inv(s) ==
  /\ \A i \in Slots :
       LET mine == SelectSeq(s.chan, LAMBDA m : m.i = i)
           ds == { k \in 1..Len(mine) : mine[k].k = "D" }
           ms == SelectSeq(mine, LAMBDA m : m.k = "M")
       IN /\ s.src[i].alive => s.src[i].reg /\ ds = {}
          /\ s.src[i].reg /\ ~s.src[i].alive => ds = {Len(mine)}          \* exactly one notice, after everything else of i
          /\ ~s.src[i].reg => ~s.src[i].alive /\ mine = <<>>
          /\ \A k \in 1..Len(ms) : ms[k].n = s.src[i].proc + k              \* in order, nothing lost
          /\ s.src[i].proc + Len(ms) = s.src[i].sent
  /\ s.chan = <<>> /\ s.pc = "idle" => \A i \in Slots : s.src[i].reg = s.src[i].alive       \* quiescence
\* shape of the resting points of this module's granularity
LoopShape(s) ==
  /\ (s.pc = "idle") = (s.cur = 0)
  /\ s.pc = "idle" => s.todo = <<>> /\ ~s.arm

(***************************************************************************)
(* Cones.  Observables compared by the harness after every step:           *)
(*   ctl    per slot: registered / usable / last processed (the mock)      *)
(*   chan   the queue between the source tasks and the loop                *)
(*   calls  out.calls: the calls into the inner controller made in the step*)
(*   src    per slot: wrapper held, measurements produced                  *)
(*   loop   where the loop rests (pc, cur);  tu  out.tu                    *)
(* The order in which a broadcast visits the sources is not part of C37:   *)
(* `loop`, `tu`, `src` are compared (a difference is reported as a         *)
(* divergence of the model) but attributed to no property.                 *)
(***************************************************************************)
ConeKey(s, a) == IF a.t = "Recv" THEN "Recv_" \o Head(s.chan).k ELSE a.t
ConeTable ==
  [ Add    |-> [C37 |-> {"ctl", "chan", "calls", "panic"}],
    Meas   |-> [C37 |-> {"ctl", "chan", "calls", "panic"}],
    Usable |-> [C37 |-> {"ctl", "chan", "calls", "panic"}],
    Drop   |-> [C37 |-> {"ctl", "chan", "calls", "panic"}],
    Recv_M |-> [C37 |-> {"ctl", "chan", "calls", "panic"}],
    Recv_U |-> [C37 |-> {"ctl", "chan", "calls", "panic"}],
    Recv_D |-> [C37 |-> {"ctl", "chan", "calls", "panic"}],
    Leave  |-> [C37 |-> {"ctl", "chan", "calls", "panic"}] ]
=============================================================================
