CONSTANTS
  Mode = "PlainV4"
  MinPoll = 4
  MaxPoll = 6
  Desired = {4, 6}
  ReqPolls = {4}
  Strata = {2}
  CLen = 100
  Batches = {0}
  InitCookies = 0
  RefLocals = {FALSE}
  SrcLocal = FALSE
  LocalStratum = 3
INIT GenInit
NEXT GenNext
CHECK_DEADLOCK FALSE
INVARIANTS TypeOK C07_UnauthenticatedHasNoEffect C08_OnlyFreshAnswers C09_KissCodes C10_PollBounds C11_Reachability C12_VersionNegotiation C13_CookieDiscipline C14_RequestFits C33_UsableFlag
