---------------------------- MODULE Trace_NtsKe ----------------------------
(***************************************************************************)
(* Trace validation for NtsKe.tla part 1 (C29).  The harness records       *)
(* seeded random sessions of the real KeyExchangeServer (more connections, *)
(* more requests and larger permit pools than the bounded model) as        *)
(* ndjson: a "reset" event (token configuration, permit pool) followed by  *)
(* "step" events carrying the action, the state projection observed after  *)
(* it and the observed answer.  This module re-executes Post/Out along the *)
(* trace and prints every disagreement with the cones of that step; the    *)
(* rest of that session is skipped.                                        *)
(***************************************************************************)
EXTENDS NtsKe, Json, IOUtils

Rec == ndJsonDeserialize(IOEnv.TRACE)

VARIABLES l, skip, nb, fin
tvars == <<st, l, skip, nb, fin>>

OutFields == {"resp", "code", "cookies", "ka", "open", "handle", "srv", "asked", "keysok"}

Diff(exp, eo, ev) ==
  (IF ev.panic # "" THEN {"panic"} ELSE {})
  \cup (IF exp.free # ev.st.free THEN {"free"} ELSE {})
  \cup (IF \E c \in 1..NConns : exp.conns[c].phase # ev.st.conns[c].phase THEN {"phase"} ELSE {})
  \cup (IF \E c \in 1..NConns : exp.conns[c].n # ev.st.conns[c].n THEN {"n"} ELSE {})
  \cup { "out." \o f : f \in { g \in OutFields : eo[g] # ev.out[g] } }

TraceInit == /\ l = 1 /\ skip = FALSE /\ nb = 0 /\ fin = FALSE
             /\ st = InitState("none", 0)

Reset(ev) ==
  /\ st' = InitState(ev.cfg.tokens, ev.cfg.permits)
  /\ skip' = FALSE /\ nb' = nb + 1

Step(ev) ==
  IF skip THEN UNCHANGED <<st, skip, nb>>
  ELSE LET a   == ev.act
           exp == Post(st, a)
           eo  == Out(st, a)
           d   == IF Enabled(st, a) THEN Diff(exp, eo, ev) ELSE {"enabled"}
       IN /\ nb' = nb
          /\ IF d = {} THEN st' = exp /\ skip' = FALSE
             ELSE /\ UNCHANGED st /\ skip' = TRUE
                  /\ PrintT(<<"MISMATCH", ToJson([line |-> l, act |-> a, fields |-> d, cones |-> Cones(st, a),
                                                   ck |-> ConeKeyStr(ConeKey(st, a)), pre |-> st,
                                                   expected |-> [st |-> exp, out |-> eo],
                                                   observed |-> [st |-> ev.st, out |-> ev.out], panic |-> ev.panic])>>)

TraceNext ==
  \/ /\ l <= Len(Rec) /\ l' = l + 1 /\ UNCHANGED fin
     /\ IF Rec[l].ev = "reset" THEN Reset(Rec[l]) ELSE Step(Rec[l])
  \/ /\ l = Len(Rec) + 1 /\ ~fin /\ fin' = TRUE /\ UNCHANGED <<st, l, skip, nb>>
     /\ PrintT(<<"DONE", ToJson([consumed |-> Len(Rec), behaviours |-> nb])>>)

TraceSpec == TraceInit /\ [][TraceNext]_tvars
=============================================================================
