----------------------------- MODULE MC_Server -----------------------------
(***************************************************************************)
(* Bounded configurations of Server.tla.  `Slice` selects the alphabet:    *)
(*   Policy  configurations x address classes x datagram classes (C15,C21) *)
(*   Size    extension-field layouts, plain and NTS, all versions          *)
(*           (C16 C17 C18 C19 C21)                                         *)
(*   Rate    rate-limit cache: three clients, two of them sharing a slot,  *)
(*           clock ticks (C20)                                             *)
(*   Mut     layouts x structural mutations (C22)                          *)
(*   Stats   the daemon's counter mapping, all (nts, reason, response)     *)
(*           triples (C21)                                                 *)
(* `Deep` = TRUE widens every alphabet (thorough tier).                    *)
(***************************************************************************)
EXTENDS Server, Json

CONSTANTS Slice, Deep,
          Prop    \* the property a generator run is for ("all": every one)

It(k, n, q) == [k |-> k, n |-> n, q |-> q, enc |-> <<>>]
Uid(n) == It("uid", n, "")
Ck(q, n) == It("cookie", n, q)
Ph(n) == It("ph", n, "")
Unk(n) == It("unk", n, "")
Draft(q) == It("draft", 23, q)
RefReq(n, q) == It("refreq", n, q)
PadF(n) == It("pad", n, "")
Bad(q, n) == It("bad", n, q)
Auth(q, alg, enc) == [k |-> "auth", n |-> alg, q |-> q, enc |-> enc]
Rep(x, n) == [i \in 1..n |-> x]

Pkt(ver, mode, items, tail) == [form |-> "pkt", ver |-> ver, mode |-> mode, hdrok |-> TRUE, marker |-> FALSE,
                                items |-> items, tail |-> tail]
Raw(form, ver) == [form |-> form, ver |-> ver, mode |-> 3, hdrok |-> TRUE, marker |-> FALSE, items |-> <<>>, tail |-> 0]

Seqs(S, n) == UNION { [1..m -> S] : m \in 0..n }

(* ---- addresses ---- *)
Addr(name, den, alw, slot) == [name |-> name, den |-> den, alw |-> alw, slot |-> slot]
PolicyAddrs == { Addr("d4", TRUE, TRUE, 0), Addr("d4m", TRUE, TRUE, 0), Addr("d6", TRUE, TRUE, 0),
                 Addr("n4", FALSE, FALSE, 0), Addr("n6", FALSE, FALSE, 0), Addr("dn", TRUE, FALSE, 0),
                 Addr("a1", FALSE, TRUE, 1), Addr("a1m", FALSE, TRUE, 0), Addr("a6", FALSE, TRUE, 0),
                 Addr("a4x", FALSE, TRUE, 0),
                 \* native IPv6 clients in ::/96 (the "IPv4-compatible" range; not IPv4-mapped, so they stay IPv6):
                 \* covered by an IPv6 allow entry / by IPv6 deny and allow entries / spelling an allowed IPv4 host
                 Addr("a6low", FALSE, TRUE, 0), Addr("d6low", TRUE, TRUE, 0), Addr("c4a", FALSE, FALSE, 0) }
A1 == Addr("a1", FALSE, TRUE, 1)
D4 == Addr("d4", TRUE, TRUE, 0)

(* ---- configurations ---- *)
Cfg(d, w, r, acc, cache, info) == [denyAct |-> d, allowAct |-> w, requireNts |-> r, accepted |-> acc, cache |-> cache, info |-> info]
PolicyCfgs == { Cfg(d, w, r, acc, 0, "s2") : d \in {"ignore", "deny"}, w \in {"ignore", "deny"}, r \in {"none", "ignore", "deny"},
                acc \in (IF Deep THEN {{4}, {3, 4}, {5}, {4, 5}, {3, 4, 5}} ELSE {{4}, {3, 4, 5}}) }

(* ---- datagram classes for the policy slice ---- *)
NtsOk4(mode) == Pkt(4, mode, <<Uid(32), Ck("v256", 104), Auth("ok", 256, <<>>)>>, 0)
NtsOk5(mode) == Pkt(5, mode, <<Uid(32), Ck("v256", 104), Draft("ok"), Auth("ok", 256, <<>>)>>, 0)
NtsBad4(mode) == Pkt(4, mode, <<Uid(32), Ck("foreign", 104), Auth("ok", 256, <<>>)>>, 0)
NtsBad5(mode) == Pkt(5, mode, <<Uid(32), Ck("v256", 104), Draft("ok"), Auth("wrongKey", 256, <<>>)>>, 0)
PolicyBodies ==
  { Raw("empty", 0), Raw("short", 4), Raw("badver", 1), Raw("badver", 7),
    Pkt(3, 3, <<>>, 0), Pkt(3, 3, <<>>, 20), Pkt(4, 3, <<>>, 0), Pkt(4, 3, <<Uid(32)>>, 0), Pkt(5, 3, <<Draft("ok")>>, 0),
    Pkt(5, 3, <<>>, 0), Pkt(5, 3, <<Draft("other")>>, 0), [Pkt(5, 3, <<Draft("ok")>>, 0) EXCEPT !.hdrok = FALSE],
    Pkt(4, 3, <<Bad("len0", 28)>>, 0), Pkt(4, 3, <<>>, 2), Pkt(3, 3, <<>>, 28),
    Pkt(3, 4, <<>>, 0), Pkt(5, 4, <<Draft("ok")>>, 0), Pkt(5, 1, <<Draft("ok")>>, 0),
    NtsOk4(3), NtsOk5(3), NtsOk4(4), NtsOk5(4), NtsBad4(3), NtsBad5(3), NtsBad4(4), NtsBad4(1), NtsBad5(4),
    Pkt(4, 3, <<Uid(32), Ck("v256", 104), Auth("wrongKey", 256, <<>>)>>, 0),
    Pkt(4, 3, <<Uid(32), Ck("expired", 104), Auth("ok", 256, <<>>)>>, 0),
    Pkt(4, 3, <<Uid(32), Auth("ok", 256, <<>>)>>, 0) }
  \cup { Pkt(4, m, <<>>, 0) : m \in {0, 1, 2, 4, 5, 6, 7} }

(* ---- extension-field layouts for the size slice ---- *)
PlainItems4 == {Uid(0), Uid(4), Uid(12), Uid(24), Uid(32), Unk(8), Unk(28)}
\* tails: a legacy MAC of up to 24 octets follows the fields; 22 and 23 make the datagram length no multiple of 4
Plain4 == { Pkt(4, 3, q, t) : q \in Seqs(PlainItems4, IF Deep THEN 3 ELSE 2), t \in {0, 4, 20, 22, 23, 24} }
          \cup { [Pkt(4, 3, <<>>, 0) EXCEPT !.marker = TRUE], [Pkt(4, 3, <<Uid(32)>>, 0) EXCEPT !.marker = TRUE] }
Plain3 == { Pkt(3, 3, <<>>, t) : t \in {0, 2, 4, 20, 24, 28} }
PlainItems5 == {Uid(0), Uid(5), Uid(32), RefReq(4, "in"), RefReq(16, "in"), RefReq(8, "out"), Unk(8), PadF(8)}
Plain5 == { Pkt(5, 3, <<Draft("ok")>> \o q, 0) : q \in Seqs(PlainItems5, 2) }
          \cup { Pkt(5, 3, q \o <<Draft("ok")>>, 0) : q \in Seqs(PlainItems5, IF Deep THEN 2 ELSE 1) }
          \cup { Pkt(5, 3, <<Draft("other"), Draft("ok")>>, 0), Pkt(5, 3, <<Draft("nonascii")>>, 0),
                 Pkt(5, 3, <<Draft("ok"), RefReq(0, "in")>>, 0), Pkt(5, 3, <<Draft("ok"), RefReq(512, "in")>>, 0),
                 Pkt(5, 3, <<Draft("ok")>>, 2) }

Pre4 == {<<>>, <<Uid(32)>>, <<Uid(4)>>, <<Uid(32), Unk(8)>>}
Cks == {Ck("v256", 104), Ck("v512", 168), Ck("old", 104), Ck("expired", 104), Ck("foreign", 104), Ck("v256", 108), Ck("junk", 8)}
GoodCks == {Ck("v256", 104), Ck("v512", 168)}
Phs(c) == LET b == IF c.q = "v512" THEN 168 ELSE 104 IN
          {<<>>, <<Ph(b)>>, <<Ph(b - 4)>>, <<Ph(b + 4)>>, Rep(Ph(b), 7), Rep(Ph(b), 8)}
Auths(c) == LET g == IF c.q = "v512" THEN 512 ELSE 256 IN
            {Auth("ok", g, <<>>), Auth("ok", g, <<Ph(CookieBase(g))>>), Auth("ok", g, <<Unk(8)>>), Auth("ok", g, <<Uid(32)>>),
             Auth("wrongKey", g, <<>>), Auth("tampered", g, <<>>), Auth("ok", 768 - g, <<>>), Auth("ok", g, <<Bad("len0", 4)>>)}
Auth0(c) == Auth("ok", IF c.q = "v512" THEN 512 ELSE 256, <<>>)
Post4 == {<<>>, <<Uid(32)>>, <<Unk(8)>>}
Nts4 ==
  IF Deep THEN { Pkt(4, 3, p \o <<c>> \o h \o <<x>> \o z, 0) : p \in Pre4, c \in Cks, h \in Phs(Ck("v256", 104)), x \in Auths(Ck("v256", 104)), z \in Post4 }
               \cup { Pkt(4, 3, p \o <<Ck("v512", 168)>> \o h \o <<x>> \o z, 0) : p \in Pre4, h \in Phs(Ck("v512", 168)), x \in Auths(Ck("v512", 168)), z \in Post4 }
  ELSE { Pkt(4, 3, p \o <<c, Auth0(c)>>, 0) : p \in Pre4, c \in Cks }
       \cup UNION { { Pkt(4, 3, <<Uid(32), c>> \o h \o <<x>>, 0) : h \in Phs(c), x \in Auths(c) } : c \in GoodCks }
       \cup { Pkt(4, 3, <<Uid(32), Ck("v256", 104), x>> \o z, 0) : x \in {Auth("ok", 256, <<>>), Auth("wrongKey", 256, <<>>)}, z \in Post4 }
Nts4Special ==
  { Pkt(4, 3, <<Uid(32), Ck("v256", 104), Ck("v256", 104), Auth("ok", 256, <<>>)>>, 0),
    Pkt(4, 3, <<Uid(32), Auth("ok", 256, <<>>)>>, 0),
    Pkt(4, 3, Rep(Unk(8), 8) \o <<Ck("v256", 104), Auth("ok", 256, <<>>)>>, 0),
    Pkt(4, 3, <<Uid(32)>> \o Rep(Unk(8), 8) \o <<Ck("v256", 104), Auth("ok", 256, <<>>)>>, 0),
    Pkt(4, 3, <<Ck("v256", 104), Auth("ok", 256, <<>>)>>, 0),
    Pkt(4, 3, <<Uid(32), Ck("v256", 104), Auth("ok", 256, <<>>), Auth("wrongKey", 256, <<>>)>>, 0),
    \* a failing authenticator in front of one that verifies (over everything before it, the failed one included)
    Pkt(4, 3, <<Auth("wrongKey", 256, <<>>), Uid(32), Ck("v256", 104), Auth("ok", 256, <<>>)>>, 0),
    Pkt(4, 3, <<Uid(32), Ck("v256", 104), Auth("wrongKey", 256, <<>>), Auth("ok", 256, <<>>)>>, 0),
    Pkt(4, 3, <<Uid(32), Ck("v256", 104), Auth("tampered", 256, <<>>), Auth("ok", 256, <<>>)>>, 0),
    Pkt(4, 3, <<Auth("empty", 256, <<>>), Uid(32), Ck("v256", 104), Auth("ok", 256, <<>>)>>, 0),
    Pkt(4, 3, <<Uid(32), Ck("v256", 104), Auth("short", 256, <<>>)>>, 0),
    Pkt(4, 3, <<Auth("wrongKey", 256, <<>>)>>, 0), Pkt(4, 3, <<Auth("empty", 256, <<>>)>>, 0), Pkt(4, 3, <<Auth("empty", 256, <<>>)>>, 20),
    Pkt(4, 3, <<Uid(32), Ck("v256", 104), Auth("ok", 256, <<Ck("v256", 104), Ph(104)>>)>>, 0),
    Pkt(4, 3, <<Uid(32), Ck("v256", 104), Auth("ok", 256, <<>>)>>, 24),
    Pkt(4, 3, <<Uid(32), Ck("v256", 104), Auth("wrongKey", 256, <<>>), Bad("over", 28)>>, 0) }
Nts5 ==
  { Pkt(5, 3, p \o <<c>> \o d1 \o h \o <<x>> \o d2, 0) :
      p \in {<<>>, <<Uid(32)>>, <<Uid(4)>>, <<Uid(32), RefReq(16, "in")>>}, c \in {Ck("v256", 104), Ck("foreign", 104)},
      d1 \in {<<>>, <<Draft("ok")>>}, h \in {<<>>, <<Ph(104)>>}, x \in {Auth("ok", 256, <<>>), Auth("wrongKey", 256, <<>>)},
      d2 \in {<<>>, <<Draft("ok")>>} }
  \cup { Pkt(5, 3, <<Draft("ok"), Auth("wrongKey", 256, <<>>), Uid(32), Ck("v256", 104), Auth("ok", 256, <<>>)>>, 0),
         Pkt(5, 3, <<Draft("ok"), Uid(32), Ck("v256", 104), Auth("wrongKey", 256, <<>>), Auth("ok", 256, <<>>)>>, 0) }
  \cup { Pkt(5, 3, <<Auth("wrongKey", 256, <<>>)>>, 0), Pkt(5, 4, <<Auth("wrongKey", 256, <<>>)>>, 0),
         Pkt(5, 3, <<Auth("empty", 256, <<>>)>>, 0), Pkt(5, 3, <<Draft("ok"), Auth("empty", 256, <<>>)>>, 0),
         Pkt(5, 3, <<Uid(32), Ck("v256", 104), Auth("empty", 256, <<>>)>>, 0) }
SizeBodies == Plain4 \cup Plain3 \cup Plain5 \cup Nts4 \cup Nts4Special \cup Nts5
SizeCfgs == { Cfg("deny", "ignore", r, {3, 4, 5}, 0, i) : r \in {"none", "deny"}, i \in {"s2"} }
InfoCfgs == { Cfg("deny", "ignore", "none", {3, 4, 5}, 0, i) : i \in {"unsync", "s1", "s15", "leap"} }
InfoBodies == { Pkt(3, 3, <<>>, 0), Pkt(4, 3, <<Uid(32)>>, 0), Pkt(5, 3, <<Draft("ok"), Uid(32)>>, 0), NtsOk4(3), NtsOk5(3), NtsBad4(3) }

(* ---- rate slice ---- *)
RateCfg == Cfg("deny", "ignore", "none", {3, 4, 5}, 2, "s2")
RateCfg0 == Cfg("deny", "ignore", "none", {3, 4, 5}, 0, "s2")      \* cache size 0: never limited
RateAddrs == { Addr("a1", FALSE, TRUE, 1), Addr("a2", FALSE, TRUE, 1), Addr("a3", FALSE, TRUE, 2), D4, Addr("n4", FALSE, FALSE, 0) }
RateBodies == { Pkt(4, 3, <<>>, 0), Raw("short", 4), NtsBad4(3) }

(* ---- mutations ---- *)
MutBases == { Pkt(4, 3, <<Uid(32), Unk(8)>>, 20), Pkt(4, 3, <<Uid(4), Uid(4)>>, 24), Pkt(3, 3, <<>>, 20),
              Pkt(5, 3, <<Draft("ok"), Uid(32), RefReq(16, "in")>>, 0), Pkt(5, 3, <<Uid(5), Draft("ok"), PadF(8)>>, 0),
              Pkt(4, 3, <<Uid(32), Ck("v256", 104), Ph(104), Auth("ok", 256, <<>>)>>, 0),
              Pkt(4, 3, <<Uid(32), Ck("v256", 104), Auth("ok", 256, <<Ph(104), Unk(8)>>), Uid(32)>>, 0),
              Pkt(4, 3, <<Uid(32), Ck("v512", 168), Auth("ok", 512, <<>>)>>, 0),
              Pkt(4, 3, <<Uid(32), Ck("foreign", 104), Auth("ok", 256, <<>>)>>, 0),
              Pkt(5, 3, <<Uid(32), Ck("v256", 104), Draft("ok"), RefReq(16, "in"), Ph(104), Auth("ok", 256, <<>>)>>, 0),
              Pkt(5, 3, <<Uid(32), Ck("v256", 104), Auth("wrongKey", 256, <<>>), Draft("ok")>>, 0) }
            \cup { Pkt(4, 3, <<Uid(32), Ck("junk", n), Auth("ok", 256, <<>>)>>, 0) : n \in {0, 4, 20, 24, 36} }
            \cup { Pkt(5, 3, <<Ck("junk", n), Draft("ok"), Auth("empty", 256, <<>>)>>, 0) : n \in {1, 5, 21, 22} }
LenVals == {"0", "1", "3", "4", "m1", "p1", "max"}
MutsOf(b) ==
  { [m |-> "trunc", at |-> j, v |-> d] : j \in 0..Len(b.items), d \in {"m1", "0", "p1"} }
  \cup { [m |-> "len", at |-> i, v |-> v] : i \in 1..Len(b.items), v \in LenVals }
  \cup { [m |-> w, at |-> i, v |-> v] : w \in {"nonce", "ct"}, i \in { j \in 1..Len(b.items) : b.items[j].k = "auth" }, v \in LenVals }
  \cup { [m |-> "ver", at |-> 0, v |-> v] : v \in {"0", "1", "3", "4"} }
MutCfgs == { Cfg("deny", "ignore", r, {3, 4, 5}, 0, "s2") : r \in {"none", "deny"} }

Acts ==
  CASE Slice = "Policy" -> { [t |-> "Handle", cfg |-> c, addr |-> ad, body |-> b] : c \in PolicyCfgs, ad \in PolicyAddrs, b \in PolicyBodies }
    [] Slice = "Size" -> { [t |-> "Handle", cfg |-> c, addr |-> ad, body |-> b] : c \in SizeCfgs, ad \in {A1, D4}, b \in SizeBodies }
                         \cup { [t |-> "Handle", cfg |-> c, addr |-> A1, body |-> b] : c \in InfoCfgs, b \in InfoBodies }
    [] Slice = "Rate" -> { [t |-> "Handle", cfg |-> RateCfg, addr |-> ad, body |-> b] : ad \in RateAddrs, b \in RateBodies }
                         \cup { [t |-> "Handle", cfg |-> RateCfg0, addr |-> A1, body |-> Pkt(4, 3, <<>>, 0)] }
                         \cup { [t |-> "Tick", n |-> n] : n \in {1, Cutoff - 1, Cutoff} }
    [] Slice = "Mut" -> UNION { { [t |-> "Mut", cfg |-> c, addr |-> ad, body |-> b, mut |-> m] : c \in MutCfgs, ad \in {A1, D4}, m \in MutsOf(b) } : b \in MutBases }

    [] Slice = "Stats" -> { [t |-> "Reg", ver |-> 4, nts |-> n, reason |-> r, resp |-> q] : n \in BOOLEAN,
                               r \in {"RateLimit", "ParseError", "InvalidCrypto", "InternalError", "Policy"},
                               q \in {"NTSNak", "Deny", "Ignore", "ProvideTime"} }

Init == st = InitState
Next == \E a \in Acts : st' = Post(st, a)
Spec == Init /\ [][Next]_vars

TypeOK == \A k \in 1..2 : st.cache[k].age \in 0..Cutoff

\* structural assumptions of the alphabet (see the comment on the abstract datagram in Server.tla)
AlphabetOK ==
  \A a \in Acts : a.t \in {"Tick", "Reg"} \/
    LET b == a.body IN
    /\ b.form = "pkt" => /\ (b.ver = 5 => b.tail < 4) /\ (b.ver = 4 => b.tail <= 24)
                         /\ \A i \in 1..Len(b.items) : /\ (b.ver = 4 => b.items[i].k = "auth" \/ b.items[i].n % 4 = 0)
                                                       /\ \A j \in 1..Len(b.items[i].enc) : b.items[i].enc[j].k # "auth"
    /\ ReqLen(b) <= 2048
ASSUME AlphabetOK
\* ASSUME PrintT(<<"ALPHABET", Cardinality(Acts)>>)

H(a) == a.t = "Handle"
All(P(_, _)) == \A a \in Acts : P(st, a)
C15_AccessPolicy == \A a \in Acts : C15_Step(st, a)   \* (finding F-3 repaired: no excused shape any more)
C16_NoAmplification == All(C16_Step)
C17_RequestSizedBufferSuffices == \A a \in Acts : C17_Step(st, a) \/ F4_Shape(a)
C18_EchoOnly == All(C18_Step)
C19_NtsAnswers == \A a \in Acts : C19_Step(st, a)   \* (finding F-16 repaired: no excused shape any more)
C20_RateLimit == All(C20_Step)
C21_Statistics == All(C21_Reg)
C22_Total == All(C22_Step)

StepOf(p, s, a) ==
  CASE p = "C15" -> C15_Step(s, a) [] p = "C16" -> C16_Step(s, a) [] p = "C17" -> C17_Step(s, a)
    [] p = "C18" -> C18_Step(s, a) [] p = "C19" -> C19_Step(s, a) [] p = "C20" -> C20_Step(s, a)
    [] p = "C21" -> C21_Reg(s, a) [] p = "C22" -> C22_Step(s, a)
KnownShape(p, a) == CASE p = "C17" -> F4_Shape(a) [] OTHER -> FALSE
Props == IF Prop = "all" THEN {"C15", "C16", "C17", "C18", "C19", "C20", "C21", "C22"} ELSE {Prop}

\* properties falsified by the (code-faithful) model on this transition: design-level counterexamples
BadOf(s, a) == { p \in Props : ~StepOf(p, s, a) }
\* the invariant of a generator run: the selected properties hold on every transition outside the known shapes
PropHolds == \A a \in Acts : \A p \in Props : StepOf(p, st, a) \/ KnownShape(p, a)

GenInit == Init /\ PrintT(<<"INIT", ToJson(st)>>) /\ PrintT(<<"CONES", ToJson(ConeTable)>>)
GenNext == \E a \in Acts :
             /\ st' = Post(st, a)
             /\ PrintT(<<"EDGE", ToJson([pre |-> st, act |-> a, post |-> st', out |-> Out(st, a),
                                          ck |-> ConeKeyStr(ConeKey(st, a)), bad |-> BadOf(st, a)])>>)
=============================================================================
