---------------------------- MODULE MC_ClockCtl ----------------------------
(***************************************************************************)
(* Bounded configuration of ClockCtl.tla: the action alphabet (source-task *)
(* operations, one controller loop iteration, slew timer, forged data for  *)
(* a removed source), bounds, the property invariants and the transition   *)
(* printer used to generate the walks replayed on the real                 *)
(* TimeSyncControllerWrapper<KalmanClockController<recording clock>>.      *)
(***************************************************************************)
EXTENDS ClockCtl, Json

CONSTANTS OffPos, OffNeg, \* offsets (whole seconds, relative to the current clock) a measurement may report: x and -y
          LeapVals,  \* leap indicators a measurement may carry
          Wides,     \* subset of BOOLEAN: whether a measurement may have a huge delay
          MaxChan,   \* bound on the number of queued messages
          Bound,     \* bound on |clk|, |offsets|, acc
          UsableVals \* values set_usable may be called with

VARIABLE st
vars == <<st>>

Offs == OffPos \cup { -y : y \in OffNeg }

Acts == { [t |-> "Add", i |-> i] : i \in Slots }
        \cup { [t |-> "Meas", i |-> i, off |-> x, leap |-> l, wide |-> w] : i \in Slots, x \in Offs, l \in LeapVals, w \in Wides }
        \cup { [t |-> "Usable", i |-> i, b |-> b] : i \in Slots, b \in UsableVals }
        \cup { [t |-> "Drop", i |-> i] : i \in Slots }
        \cup { [t |-> "Recv"], [t |-> "SlewEnd"] }
        \cup (IF Ghosts THEN { [t |-> "Ghost", i |-> i] : i \in Slots } ELSE {})

InBounds(s) == /\ Abs(s.clk) <= Bound /\ s.acc <= Bound /\ Len(s.chan) <= MaxChan
               /\ \A i \in Slots : Abs(s.src[i].snap.off) <= Bound /\ Abs(s.src[i].sv.off) <= Bound
                                   /\ Abs(s.src[i].snap.t) <= Bound
               /\ \A k \in 1..Len(s.chan) : Abs(s.chan[k].off) <= Bound

Init == st = InitState
Next == \E a \in Acts : Enabled(st, a) /\ LET p == Post(st, a) IN InBounds(p) /\ st' = p
Spec == Init /\ [][Next]_vars

TypeOK == /\ st.slew \in {-1, 0, 1} /\ st.acc >= 0 /\ st.inStartup \in BOOLEAN
          /\ st.used \subseteq Slots /\ st.leap \in {"none", "59", "61", "unknown"}
          /\ \A i \in Slots : st.src[i].sv.n \in 0..MaxSamples /\ (st.src[i].snap.has => st.src[i].reg)

\* each property is evaluated on the actions it can constrain (for the others it holds trivially: see ConeTable)
AllIn(T, P(_, _)) == \A a \in { x \in Acts : x.t \in T } : Enabled(st, a) => P(st, a)
C01_StepsWithinThresholds == AllIn({"Recv", "SlewEnd"}, C01_Step)
C02_FrequencyBounds == AllIn({"Recv", "SlewEnd"}, C02_Step)
C03_MajorityConsensus == AllIn({"Recv"}, C03_Step)
C04_LeapMajority == AllIn({"Recv"}, C04_Step)
C37_OnlyRegisteredUsable == AllIn({"Recv", "Meas", "Usable", "Drop", "Ghost"}, C37_Step)

\* ---- test generation: print every explored transition once ----
GenInit == Init /\ PrintT(<<"INIT", ToJson(st)>>) /\ PrintT(<<"CONES", ToJson(ConeTable)>>)
GenNext == \E a \in Acts :
             /\ Enabled(st, a)
             /\ LET so == SO(st, a)
                IN /\ InBounds(so[1])
                   /\ st' = so[1]
                   /\ PrintT(<<"EDGE", ToJson([pre |-> st, act |-> a, post |-> so[1], out |-> so[2],
                                                ck |-> ConeKeyStr(ConeKey(st, a))])>>)
=============================================================================
