------------------------------ MODULE Spawner ------------------------------
(***************************************************************************)
(* Source spawners of the ntpd-rs daemon (ntpd/src/daemon/spawn/).         *)
(*                                                                         *)
(* Part Pool     (C35)  PoolSpawner bookkeeping: spawn/pool.rs             *)
(* Part Standard (C36)  StandardSpawner removal handling: spawn/standard.rs*)
(* Part Pacer    (C36)  spawner_task ticket pacing: spawn/mod.rs           *)
(*                                                                         *)
(* This module contains only operators (transition functions Post/Out and  *)
(* the declarative property statements); the bounded models with their     *)
(* variables, action alphabets and generators are MC_SpawnerPool,          *)
(* MC_SpawnerStd and MC_SpawnerPacer.                                      *)
(***************************************************************************)
EXTENDS Naturals, Integers, Sequences, FiniteSets, TLC

Range(f) == { f[i] : i \in DOMAIN f }
Last(q) == q[Len(q)]
Front(q) == SubSeq(q, 1, Len(q) - 1)

(***************************************************************************)
(*                               Part Pool                                 *)
(*                                                                         *)
(* State  active : sequence of [id, addr]   PoolSpawner::current_sources   *)
(*        known  : sequence of addresses    PoolSpawner::known_ips         *)
(* (both are Vecs in the code; `known` is consumed from its END by pop()). *)
(* Source ids: the code draws a globally fresh ClockId per source; the     *)
(* model names a new source by the smallest number not in use, the harness *)
(* keeps the table model id -> real ClockId.                               *)
(*                                                                         *)
(* Actions  [t |-> "TrySpawn", fail |-> BOOLEAN, ans |-> Seq(Addr)]        *)
(*              one call of try_spawn; `ans` is what the DNS lookup would  *)
(*              answer (in order, repetitions allowed), `fail` = the       *)
(*              lookup would fail.  WHETHER a lookup happens is decided by *)
(*              the spawner: only when it knows fewer addresses than it    *)
(*              has vacancies (pool.rs:60).                                *)
(*          [t |-> "Removed", id |-> Nat, reason |-> String]               *)
(*              handle_source_removed (pool.rs:109-115; reason is ignored) *)
(*                                                                         *)
(* The parameter `dedup` selects between                                   *)
(*   dedup = FALSE  the bookkeeping exactly AS CODED: answers are appended *)
(*                  to the leftover known addresses and filtered against   *)
(*                  active sources and the ignore list, nothing else;      *)
(*   dedup = TRUE   the INTENDED bookkeeping: additionally an address is   *)
(*                  kept at most once in `known` (first occurrence wins).  *)
(* TLC shows that the as-coded variant violates C35_Distinct (finding F-8) *)
(* and that the intended variant satisfies all of C35; the implementation  *)
(* is compared with the intended variant.                                  *)
(***************************************************************************)
CONSTANTS Count,     \* PoolSourceConfig::count
          Ignore     \* PoolSourceConfig::ignore (set of addresses)

PoolInit == [active |-> <<>>, known |-> <<>>]

ActiveAddrs(s) == { s.active[i].addr : i \in DOMAIN s.active }
ActiveIds(s)   == { s.active[i].id : i \in DOMAIN s.active }

\* smallest number not naming an active source
FreshId(active) ==
  LET used == { active[i].id : i \in DOMAIN active }
  IN CHOOSE n \in 0..Len(active) : n \notin used /\ \A m \in 0..(n - 1) : m \in used

\* first occurrence of every element, order kept
RECURSIVE DedupeFrom(_, _)
DedupeFrom(acc, q) ==
  IF q = <<>> THEN acc
  ELSE DedupeFrom(IF Head(q) \in Range(acc) THEN acc ELSE Append(acc, Head(q)), Tail(q))
Dedupe(q) == DedupeFrom(<<>>, q)

\* pool.rs:62-69  append the answer, drop what is active or ignored
PoolLookup(dedup, s, ans) ==
  LET all  == s.known \o ans
      uniq == IF dedup THEN Dedupe(all) ELSE all
  IN SelectSeq(uniq, LAMBDA x : x \notin ActiveAddrs(s) /\ x \notin Ignore)

\* pool.rs:79-100  pop known addresses into active sources until full or none is left
RECURSIVE PoolFill(_, _)
PoolFill(active, known) ==
  IF Len(active) < Count /\ known # <<>>
    THEN PoolFill(Append(active, [id |-> FreshId(active), addr |-> Last(known)]), Front(known))
    ELSE [active |-> active, known |-> known]

PoolNeedsLookup(s) == Len(s.active) < Count /\ Len(s.known) < Count - Len(s.active)   \* pool.rs:56,60

PoolTrySpawn(dedup, s, a) ==
  IF Len(s.active) >= Count THEN s                                    \* pool.rs:56 early return
  ELSE IF PoolNeedsLookup(s) /\ a.fail THEN s                         \* pool.rs:71-74 lookup error
  ELSE PoolFill(s.active, IF PoolNeedsLookup(s) THEN PoolLookup(dedup, s, a.ans) ELSE s.known)

PoolRemoved(s, a) ==                                                  \* pool.rs:113
  [s EXCEPT !.active = SelectSeq(s.active, LAMBDA p : p.id # a.id)]

PoolPost(dedup, s, a) ==
  IF a.t = "TrySpawn" THEN PoolTrySpawn(dedup, s, a) ELSE PoolRemoved(s, a)

\* What the call emits: the SpawnEvent::Create stream (ids and addresses, in order) and is_complete() afterwards.
PoolOut(dedup, s, a) ==
  LET p == PoolPost(dedup, s, a)
  IN [creates  |-> IF a.t = "TrySpawn" THEN SubSeq(p.active, Len(s.active) + 1, Len(p.active)) ELSE <<>>,
      complete |-> Len(p.active) >= Count]

\* ---- C35, stated declaratively on a state s and on the step (s, a) ----
\* "never more active sources than its configured count"
C35_Bounded(s) == Len(s.active) <= Count
\* "never two active sources for the same server address"
C35_Distinct(s) == \A i, j \in DOMAIN s.active : i # j => s.active[i].addr # s.active[j].addr
\* "never creates a source for an ignored address"
C35_NoIgnoredCreate(dedup, s, a) ==
  \A i \in DOMAIN PoolOut(dedup, s, a).creates : PoolOut(dedup, s, a).creates[i].addr \notin Ignore
\* bookkeeping consistency that the three clauses rest on (weaker reading: the Create stream is exactly the growth of
\* the active list, removal only forgets the named source)
C35_Bookkeeping(dedup, s, a) ==
  LET p == PoolPost(dedup, s, a) IN
  /\ a.t = "Removed" => ActiveIds(p) = ActiveIds(s) \ {a.id} /\ p.known = s.known
  /\ a.t = "TrySpawn" => /\ SubSeq(p.active, 1, Len(s.active)) = s.active
                         /\ \A i \in DOMAIN p.active : \A j \in DOMAIN p.active : i # j => p.active[i].id # p.active[j].id

\* Every step of the pool is constrained by C35 (its anchors are current_sources, known_ips and the SpawnEvent stream).
PoolConeTable ==
  [TrySpawn |-> [C35 |-> {"active", "known", "out.creates", "out.complete", "panic"}],
   Removed  |-> [C35 |-> {"active", "known", "out.creates", "out.complete", "panic"}]]

(***************************************************************************)
(*                             Part Standard                               *)
(*                                                                         *)
(* StandardSpawner (spawn/standard.rs): one configured server.             *)
(* State  resolved : 0 = no address stored | the stored address            *)
(*        spawned  : has_spawned (= is_complete())                         *)
(*   history (property level, not in the code):                            *)
(*        live       the source created last has not been removed yet      *)
(*        lastAddr   address of the source created last                    *)
(*        lastReason reason of the last removal ("none" before the first)  *)
(*        demob      the source has been demobilised                       *)
(* Actions [t |-> "TrySpawn", fail, ans]  try_spawn with the DNS lookup    *)
(*            scripted as in part Pool.  spawner_task calls try_spawn only *)
(*            while ~is_complete(): StdEnabled.                            *)
(*         [t |-> "Removed", reason]      handle_source_removed; the system*)
(*            reports the removal of a source that exists: StdEnabled.     *)
(***************************************************************************)
StdInit == [resolved |-> 0, spawned |-> FALSE, live |-> FALSE, lastAddr |-> 0, lastReason |-> "none", demob |-> FALSE]

StdEnabled(s, a) == IF a.t = "TrySpawn" THEN ~s.spawned ELSE s.live

\* standard.rs:56-64 do_resolve(false) + spawn/mod.rs:294-325 resolve_single_ntp_server (first connectable address)
StdAddr(s, a) == IF s.resolved # 0 THEN s.resolved
                 ELSE IF a.fail \/ a.ans = <<>> THEN 0 ELSE Head(a.ans)

StdPost(s, a) ==
  IF a.t = "TrySpawn"
    THEN LET addr == StdAddr(s, a)
         IN IF addr = 0 THEN s                                                    \* standard.rs:74-76
            ELSE [s EXCEPT !.resolved = addr, !.spawned = TRUE, !.live = TRUE, !.lastAddr = addr]   \* :77-92
    ELSE [s EXCEPT !.resolved = IF a.reason = "Unreachable" THEN 0 ELSE @,       \* standard.rs:103-106
                   !.spawned  = IF a.reason # "Demobilized" THEN FALSE ELSE @,   \* standard.rs:107-109
                   !.live = FALSE, !.lastReason = a.reason, !.demob = @ \/ a.reason = "Demobilized"]

StdOut(s, a) ==
  [creates  |-> IF a.t = "TrySpawn" /\ StdAddr(s, a) # 0 THEN <<StdAddr(s, a)>> ELSE <<>>,
   complete |-> StdPost(s, a).spawned]

\* "never respawns a demobilised source": once demobilised the spawner stays complete, so the task never calls try_spawn again
C36_NoRespawnAfterDemobilized(s) == s.demob => s.spawned
C36_DemobilizedStep(s, a) == (a.t = "Removed" /\ a.reason = "Demobilized") => (StdPost(s, a).spawned = s.spawned /\ StdOut(s, a).creates = <<>>)
\* "re-resolves the server name after an unreachable removal" (and, as coded, reuses the address after a network issue)
C36_ReResolve(s, a) ==
  (a.t = "TrySpawn" /\ StdOut(s, a).creates # <<>>) =>
     StdOut(s, a).creates[1] = IF s.lastReason \in {"none", "Unreachable"} THEN Head(a.ans) ELSE s.lastAddr

StdConeTable ==
  [TrySpawn |-> [C36 |-> {"resolved", "spawned", "out.creates", "out.complete", "panic"}],
   Removed  |-> [C36 |-> {"resolved", "spawned", "out.creates", "out.complete", "panic"}]]

(***************************************************************************)
(*                               Part Pacer                                *)
(*                                                                         *)
(* spawner_task (spawn/mod.rs:246-292) around a scripted Spawner.          *)
(* Discrete time: W ticks = NETWORK_WAIT_PERIOD.  At every instant the     *)
(* task first runs until it blocks (Loop/Wait below), then the environment *)
(* acts; actions:                                                          *)
(*   Start        the task is spawned                                      *)
(*   Tick         one tick passes                                          *)
(*   Event(k)     the system sends Registered | Removed | Idle             *)
(*   Script(d, c) the next try_spawn will take d ticks and leave the       *)
(*                spawner complete (c) or incomplete                       *)
(* The scripted spawner becomes incomplete on every Removed event.         *)
(*                                                                         *)
(* State  ticket, el : has_ticket, last_ticket_time.elapsed() capped at W  *)
(*        busy       : 0 | remaining ticks of the running try_spawn        *)
(*        q          : events waiting in the channel (only while busy)     *)
(*        complete, tryC, nextD, nextC : the scripted spawner              *)
(*        sinceEnd   : history, ticks since the last attempt ended, capped *)
(*                     at W; W before the first attempt                    *)
(* The code measures the wait from the instant try_spawn RETURNED          *)
(* (mod.rs:262), hence pacing is stated on start_{k+1} - end_k.            *)
(* Normal forms (values the code cannot read before overwriting them):     *)
(* ticket => el = W;  busy > 0 => ticket = FALSE, el = 0, sinceEnd = 0.    *)
(***************************************************************************)
CONSTANTS W

Min2(a, b) == IF a <= b THEN a ELSE b

PacerInit == [up |-> FALSE, ticket |-> TRUE, el |-> W, complete |-> FALSE, busy |-> 0, tryC |-> FALSE, q |-> <<>>,
              nextD |-> 0, nextC |-> FALSE, sinceEnd |-> W,
              evStart |-> FALSE, evGap |-> 0, evEnd |-> FALSE]
PacerClear(s) == [s EXCEPT !.evStart = FALSE, !.evGap = 0, !.evEnd = FALSE]

PacerHandle(s, k) == IF k = "Removed" THEN [s EXCEPT !.complete = FALSE] ELSE s    \* mod.rs:280-288

\* try_spawn returned: mod.rs:261-262
PacerEndTry(s) == [s EXCEPT !.complete = s.tryC, !.busy = 0, !.ticket = FALSE, !.el = 0, !.sinceEnd = 0, !.evEnd = TRUE]

RECURSIVE PacerLoop(_), PacerWait(_)
\* top of the loop, mod.rs:254-263
PacerLoop(s) ==
  LET t  == s.ticket \/ s.el >= W
      s1 == [s EXCEPT !.ticket = t, !.el = IF t THEN W ELSE @]
  IN IF t /\ ~s1.complete
       THEN LET s2 == [s1 EXCEPT !.evStart = TRUE, !.evGap = s1.sinceEnd, !.tryC = s1.nextC]
            IN IF s1.nextD = 0 THEN PacerWait(PacerEndTry(s2))
               ELSE [s2 EXCEPT !.busy = s1.nextD, !.ticket = FALSE, !.el = 0, !.sinceEnd = 0]   \* blocked inside try_spawn
       ELSE PacerWait(s1)
\* mod.rs:265-278: recv() / timeout(W - elapsed, recv()); a waiting event is taken at once, otherwise the task blocks
PacerWait(s) ==
  IF s.q # <<>> THEN PacerLoop(PacerHandle([s EXCEPT !.q = Tail(s.q)], Head(s.q))) ELSE s

PacerEnabled(s, a) ==
  CASE a.t = "Start"  -> ~s.up
    [] a.t = "Tick"   -> s.up
    [] a.t = "Event"  -> s.up
    [] a.t = "Script" -> s.nextD # a.d \/ s.nextC # a.c

PacerFull(s0, a) ==
  LET s == PacerClear(s0) IN
  CASE a.t = "Start"  -> PacerLoop([s EXCEPT !.up = TRUE])
    [] a.t = "Script" -> [s EXCEPT !.nextD = a.d, !.nextC = a.c]
    [] a.t = "Event"  -> IF s.busy > 0 THEN [s EXCEPT !.q = Append(@, a.k)]
                         ELSE PacerLoop(PacerHandle(s, a.k))
    [] a.t = "Tick"   -> IF s.busy > 1 THEN [s EXCEPT !.busy = @ - 1]
                         ELSE IF s.busy = 1 THEN PacerWait(PacerEndTry(s))
                         ELSE LET s1 == [s EXCEPT !.el = Min2(@ + 1, W), !.sinceEnd = Min2(@ + 1, W)]
                              IN IF ~s1.ticket /\ s1.el >= W THEN PacerLoop(s1)     \* the timeout fires: Idle, mod.rs:273
                                 ELSE s1

PacerPost(s, a) == PacerClear(PacerFull(s, a))
PacerOut(s, a) == LET f == PacerFull(s, a) IN [started |-> f.evStart, gap |-> f.evGap, ended |-> f.evEnd]

\* "starts a new spawn attempt at most once per network wait period": an attempt starts no earlier than W after the previous
\* one ended (weaker reading: measured from the end of the previous attempt, as the code does)
C36_Paced(s, a) == PacerOut(s, a).started => PacerOut(s, a).gap >= W
\* "while incomplete, keeps attempting at that pace": whenever the task is idle with an incomplete spawner, less than W has
\* passed since the last attempt ended (at W the next attempt has started)
C36_Responsive(s) == (s.up /\ ~s.complete /\ s.busy = 0) => s.sinceEnd < W
\* no attempt while complete
C36_OnlyWhenIncomplete(s, a) == PacerOut(s, a).started => (~s.complete \/ (a.t = "Event" /\ a.k = "Removed") \/ s.q # <<>>)

PacerConeTable ==
  [x \in {"Start", "Tick", "Event", "Script"} |->
     [C36 |-> {"up", "complete", "busy", "qlen", "sinceEnd", "out.started", "out.gap", "out.ended", "panic"}]]

=============================================================================
