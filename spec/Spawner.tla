------------------------------ MODULE Spawner ------------------------------
(***************************************************************************)
(* Source spawners of the ntpd-rs daemon (ntpd/src/daemon/spawn/).         *)
(*                                                                         *)
(* Part Pool     (C35)  PoolSpawner bookkeeping: spawn/pool.rs             *)
(* Part Standard (C36)  StandardSpawner removal handling: spawn/standard.rs*)
(* Part Pacer    (C36)  spawner_task ticket pacing: spawn/mod.rs           *)
(*                                                                         *)
(* This module contains only operators (transition functions Post/Out and  *)
(* the declarative property statements); the bounded models with their     *)
(* variables, action alphabets and generators are MC_SpawnerPool,          *)
(* MC_SpawnerStd and MC_SpawnerPacer.                                      *)
(***************************************************************************)
EXTENDS Naturals, Integers, Sequences, FiniteSets, TLC

Range(f) == { f[i] : i \in DOMAIN f }
Last(q) == q[Len(q)]
Front(q) == SubSeq(q, 1, Len(q) - 1)

(***************************************************************************)
(*                               Part Pool                                 *)
(*                                                                         *)
(* State  active : sequence of [id, addr]   PoolSpawner::current_sources   *)
(*        known  : sequence of addresses    PoolSpawner::known_ips         *)
(* (both are Vecs in the code; `known` is consumed from its END by pop()). *)
(* Source ids: the code draws a globally fresh ClockId per source; the     *)
(* model names a new source by the smallest number not in use, the harness *)
(* keeps the table model id -> real ClockId.                               *)
(*                                                                         *)
(* Actions  [t |-> "TrySpawn", fail |-> BOOLEAN, ans |-> Seq(Addr)]        *)
(*              one call of try_spawn; `ans` is what the DNS lookup would  *)
(*              answer (in order, repetitions allowed), `fail` = the       *)
(*              lookup would fail.  WHETHER a lookup happens is decided by *)
(*              the spawner: only when it knows fewer addresses than it    *)
(*              has vacancies (pool.rs:60).                                *)
(*          [t |-> "Removed", id |-> Nat, reason |-> String]               *)
(*              handle_source_removed (pool.rs:109-115; reason is ignored) *)
(*                                                                         *)
(* The parameter `dedup` selects between                                   *)
(*   dedup = FALSE  the bookkeeping exactly AS CODED: answers are appended *)
(*                  to the leftover known addresses and filtered against   *)
(*                  active sources and the ignore list, nothing else;      *)
(*   dedup = TRUE   the INTENDED bookkeeping: additionally an address is   *)
(*                  kept at most once in `known` (first occurrence wins).  *)
(* TLC shows that the as-coded variant violates C35_Distinct (finding F-8) *)
(* and that the intended variant satisfies all of C35; the implementation  *)
(* is compared with the intended variant.                                  *)
(***************************************************************************)
CONSTANTS Count,     \* PoolSourceConfig::count
          Ignore     \* PoolSourceConfig::ignore (set of addresses)

PoolInit == [active |-> <<>>, known |-> <<>>]

ActiveAddrs(s) == { s.active[i].addr : i \in DOMAIN s.active }
ActiveIds(s)   == { s.active[i].id : i \in DOMAIN s.active }

\* smallest number not naming an active source
FreshId(active) ==
  LET used == { active[i].id : i \in DOMAIN active }
  IN CHOOSE n \in 0..Len(active) : n \notin used /\ \A m \in 0..(n - 1) : m \in used

\* first occurrence of every element, order kept
RECURSIVE DedupeFrom(_, _)
DedupeFrom(acc, q) ==
  IF q = <<>> THEN acc
  ELSE DedupeFrom(IF Head(q) \in Range(acc) THEN acc ELSE Append(acc, Head(q)), Tail(q))
Dedupe(q) == DedupeFrom(<<>>, q)

\* pool.rs:62-69  append the answer, drop what is active or ignored
PoolLookup(dedup, s, ans) ==
  LET all  == s.known \o ans
      uniq == IF dedup THEN Dedupe(all) ELSE all
  IN SelectSeq(uniq, LAMBDA x : x \notin ActiveAddrs(s) /\ x \notin Ignore)

\* pool.rs:79-100  pop known addresses into active sources until full or none is left
RECURSIVE PoolFill(_, _)
PoolFill(active, known) ==
  IF Len(active) < Count /\ known # <<>>
    THEN PoolFill(Append(active, [id |-> FreshId(active), addr |-> Last(known)]), Front(known))
    ELSE [active |-> active, known |-> known]

PoolNeedsLookup(s) == Len(s.active) < Count /\ Len(s.known) < Count - Len(s.active)   \* pool.rs:56,60

PoolTrySpawn(dedup, s, a) ==
  IF Len(s.active) >= Count THEN s                                    \* pool.rs:56 early return
  ELSE IF PoolNeedsLookup(s) /\ a.fail THEN s                         \* pool.rs:71-74 lookup error
  ELSE PoolFill(s.active, IF PoolNeedsLookup(s) THEN PoolLookup(dedup, s, a.ans) ELSE s.known)

PoolRemoved(s, a) ==                                                  \* pool.rs:113
  [s EXCEPT !.active = SelectSeq(s.active, LAMBDA p : p.id # a.id)]

PoolPost(dedup, s, a) ==
  IF a.t = "TrySpawn" THEN PoolTrySpawn(dedup, s, a) ELSE PoolRemoved(s, a)

\* What the call emits: the SpawnEvent::Create stream (ids and addresses, in order) and is_complete() afterwards.
PoolOut(dedup, s, a) ==
  LET p == PoolPost(dedup, s, a)
  IN [creates  |-> IF a.t = "TrySpawn" THEN SubSeq(p.active, Len(s.active) + 1, Len(p.active)) ELSE <<>>,
      complete |-> Len(p.active) >= Count]

\* ---- C35, stated declaratively on a state s and on the step (s, a) ----
\* "never more active sources than its configured count"
C35_Bounded(s) == Len(s.active) <= Count
\* "never two active sources for the same server address"
C35_Distinct(s) == \A i, j \in DOMAIN s.active : i # j => s.active[i].addr # s.active[j].addr
\* "never creates a source for an ignored address"
C35_NoIgnoredCreate(dedup, s, a) ==
  \A i \in DOMAIN PoolOut(dedup, s, a).creates : PoolOut(dedup, s, a).creates[i].addr \notin Ignore
\* bookkeeping consistency that the three clauses rest on (weaker reading: the Create stream is exactly the growth of
\* the active list, removal only forgets the named source)
C35_Bookkeeping(dedup, s, a) ==
  LET p == PoolPost(dedup, s, a) IN
  /\ a.t = "Removed" => ActiveIds(p) = ActiveIds(s) \ {a.id} /\ p.known = s.known
  /\ a.t = "TrySpawn" => /\ SubSeq(p.active, 1, Len(s.active)) = s.active
                         /\ \A i \in DOMAIN p.active : \A j \in DOMAIN p.active : i # j => p.active[i].id # p.active[j].id

\* Every step of the pool is constrained by C35 (its anchors are current_sources, known_ips and the SpawnEvent stream).
PoolConeTable ==
  [TrySpawn |-> [C35 |-> {"active", "known", "out.creates", "out.complete", "panic"}],
   Removed  |-> [C35 |-> {"active", "known", "out.creates", "out.complete", "panic"}]]

=============================================================================
