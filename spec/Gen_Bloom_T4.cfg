CONSTANTS
  Part = "transfer"
  N = 4
  NBits = 2
  Offs = {0}
  Lens = {0}
INIT GenInit
NEXT GenNext
CHECK_DEADLOCK FALSE
INVARIANTS TypeOK C34_BloomTransfer
