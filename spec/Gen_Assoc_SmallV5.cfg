CONSTANTS
  Mode = "NtsV5"
  MinPoll = 4
  MaxPoll = 4
  LocalStratum = 16
  SrcLocal = FALSE
  History = 0
  MaxGen = 1
  MaxNet = 1
  CLen = 104
  Desired = {4}
INIT GenInit
NEXT GenNext
CHECK_DEADLOCK FALSE
INVARIANTS TypeOK E08_OneMeasurementPerRequest E13_CookieEconomy E07_NakHasNoEffect E26_KeyWindow
