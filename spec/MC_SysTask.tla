---------------------------- MODULE MC_SysTask ----------------------------
(***************************************************************************)
(* Bounded models of SysTask.tla.  `Variant` selects the action alphabet   *)
(* (cfg files cannot spell records):                                       *)
(*  "Life"  (MaxId sources, NSp = 2) spawner 1 creates NTP sources,        *)
(*          spawner 2 NTP and SOCK sources, the ghost NTP sources; every   *)
(*          message kind for every id (live, removed, never created: the   *)
(*          phantom messages of the panic branch); source exits; ticks;    *)
(*          the controller never reports a used source.                    *)
(*  "Pub"   (MaxId sources, NSp = 1) spawner 1 creates NTP and SOCK        *)
(*          sources; Unreachable messages for sources in the table only;   *)
(*          no exits; the controller's selection ranges over all sequences *)
(*          of at most two distinct sources it has been told about; ticks. *)
(* quick: Life and Pub with 2 sources; thorough: Life and Pub with 3       *)
(* (phantom messages only while at most two sources have been created).   *)
(***************************************************************************)
EXTENDS SysTask, Json

CONSTANTS Variant

VARIABLE st
vars == <<st>>

Creates ==
  CASE Variant = "Life" ->
         {[sp |-> 1, kind |-> "Ntp"], [sp |-> 2, kind |-> "Ntp"], [sp |-> 2, kind |-> "Sock"], [sp |-> Ghost, kind |-> "Ntp"]}
    [] Variant = "Pub" ->
         {[sp |-> 1, kind |-> "Ntp"], [sp |-> 1, kind |-> "Sock"]}

UseSeqs ==
  IF Variant = "Life" THEN {<<>>}
  ELSE {<<>>} \cup { <<i>> : i \in Ids } \cup { p \in { <<i, j>> : i, j \in Ids } : p[1] # p[2] }

Kinds == IF Variant = "Pub" THEN {"Unreachable"} ELSE MsgKinds
Phantoms(s) == Variant = "Life" /\ s.next <= 3     \* messages for ids that are not in the table
Exits == Variant # "Pub"

Acts == { [t |-> "Create", sp |-> c.sp, kind |-> c.kind] : c \in Creates }
        \cup { [t |-> "Msg", k |-> k, id |-> i] : k \in Kinds, i \in Ids }
        \cup (IF Exits THEN { [t |-> "Exit", id |-> i] : i \in Ids } ELSE {})
        \cup { [t |-> "Use", u |-> u] : u \in UseSeqs }
        \cup { [t |-> "Tick"] }

Enabled(s, a) == SysEnabled(s, a) /\ (a.t = "Msg" => (Phantoms(s) \/ InTable(s, a.id)))

Init == st = SysInit
Next == \E a \in Acts : Enabled(st, a) /\ st' = Post(st, a)
Spec == Init /\ [][Next]_vars

TypeOK ==
  /\ \A i \in Ids : st.owner[i] \in 0..Ghost /\ st.kind[i] \in {"-", "Ntp", "Sock"} /\ st.ctl[i] \in {"-", "Ntp", "Sock"}
                    /\ st.src[i] \in {"none", "run", "sent", "gone"} /\ st.reg[i] \in 0..NSp /\ st.rem[i].to \in 0..NSp
  /\ st.snaps \subseteq Ids /\ st.next \in 1..(MaxId + 1) /\ st.dead \in BOOLEAN
  /\ st.pub.k \in {"none", "Ntp", "Sock"}

SYS_Steps == \A a \in Acts : Enabled(st, a) =>
               /\ SYS1_Removal(st, a) /\ SYS1b_PanicOnlyOnPhantom(st, a)
               /\ SYS2_Creation(st, a) /\ SYS2b_NoStrayEvents(st, a)
               /\ SYS5_TickAsCoded(st, a) /\ SYS5_NoRemovedReferenceIfControllerForgets(st, a)
SYS_State == SYS3_Inventory(st) /\ SYS4_Snapshots(st) /\ SYS5_ReferenceWasCreated(st)
\* expected to FAIL (CE_SysTask_Stale.cfg): see SYS5 in SysTask.tla
SYS5_IntendedInv == \A a \in Acts : Enabled(st, a) => SYS5_Intended(st, a)

GenInit == Init /\ PrintT(<<"INIT", ToJson(st)>>) /\ PrintT(<<"CONES", ToJson(ConeTable)>>)
GenNext == \E a \in Acts :
             /\ Enabled(st, a) /\ st' = Post(st, a)
             /\ PrintT(<<"EDGE", ToJson([pre |-> st, act |-> a, post |-> st', out |-> Out(st, a), ck |-> ConeKey(st, a)])>>)

Alias == [json |-> ToJson(st)]
=============================================================================
