------------------------------ MODULE IpFilter ------------------------------
(***************************************************************************)
(* IP subnet filters of ntpd-rs                                            *)
(*   ntp-proto/src/ipfilter.rs   IpFilter::new / is_in (nibble trie)       *)
(*   ntp-proto/src/server.rs     IpSubnet::from_str                        *)
(*                                                                         *)
(* Lookup: the specification is the set semantics of a subnet list over a  *)
(* universe of 8-bit addresses (two nibbles: both trie levels, the "covered*)
(* by the union of its parts" merge and the child indexing all occur).     *)
(* The harness embeds every enumerated subnet set into real IPv4 / IPv6    *)
(* space below a common prefix of k nibbles (masks shifted by 4k) and      *)
(* compares IpFilter::is_in on all 256 addresses with Members(S).          *)
(*                                                                         *)
(* Strings: classes family x mask x syntax; Accept is the acceptance rule. *)
(* Property anchored here: C31.                                            *)
(***************************************************************************)
EXTENDS Naturals, Integers, Sequences, FiniteSets, TLC

BITS == 8
Pow2(n) == 2 ^ n
Addrs == 0..(Pow2(BITS) - 1)

\* a prefix: the first `len` bits of `val` (canonical: remaining bits zero)
Prefixes == {[val |-> v * Pow2(BITS - l), len |-> l] : l \in 0..BITS, v \in 0..(Pow2(BITS) - 1)} 
CanonPrefixes == {p \in Prefixes : p.val < Pow2(BITS) /\ p.val % Pow2(BITS - p.len) = 0}

InSubnet(a, p) == a \div Pow2(BITS - p.len) = p.val \div Pow2(BITS - p.len)
Member(a, S) == \E p \in S : InSubnet(a, p)                  \* "lies in at least one configured subnet"
Members(S) == {a \in Addrs : Member(a, S)}
Block(p) == {a \in Addrs : InSubnet(a, p)}

\* all partitions of the block of prefix [v, l] into exactly k aligned sub-blocks (binary splits)
RECURSIVE Parts(_, _, _)
Parts(v, l, k) ==
  IF k = 1 THEN {{[val |-> v, len |-> l]}}
  ELSE IF l >= BITS THEN {}
  ELSE UNION {{A \cup B : A \in Parts(v, l + 1, i), B \in Parts(v + Pow2(BITS - l - 1), l + 1, k - i)} : i \in 1..(k - 1)}

(***************************************************************************)
(* Subnet strings.  family: "v4" a.b.c.d, "v6" a non-mapped IPv6 address,  *)
(* "mapped" ::ffff:a.b.c.d.  mask: an integer written in decimal, or the   *)
(* sentinels MISSING (nothing after the slash) / GARBAGE (not a number).   *)
(* syntax: "ok", "noslash" (address only), "badaddr".                      *)
(* IpSubnet::from_str: split at '/', parse the address, parse the mask as  *)
(* u8, canonicalise a mapped address to IPv4 with mask - 96 (must not      *)
(* underflow), mask <= 32 / 128.                                           *)
(***************************************************************************)
MISSING == 1000
GARBAGE == 1001
MaskIsU8(m) == m \in 0..255          \* u8::from_str succeeds (the sentinels and -1, 256 do not)
Accept(c) ==
  /\ c.syntax = "ok"
  /\ MaskIsU8(c.mask)
  /\ CASE c.family = "v4" -> c.mask <= 32
       [] c.family = "v6" -> c.mask <= 128
       [] c.family = "mapped" -> c.mask >= 96 /\ c.mask - 96 <= 32
ParsedFamily(c) == IF c.family = "v6" THEN "v6" ELSE "v4"
ParsedMask(c) == IF c.family = "mapped" THEN c.mask - 96 ELSE c.mask
OutString(c) == IF Accept(c) THEN [ok |-> TRUE, family |-> ParsedFamily(c), mask |-> ParsedMask(c)]
                ELSE [ok |-> FALSE, family |-> "", mask |-> -1]
\* "accepted exactly when the address parses and the mask fits the canonicalised family"
C31_StringRule(c) ==
  OutString(c).ok <=> /\ c.syntax = "ok" /\ c.mask \in 0..255
                      /\ ParsedMask(c) >= 0
                      /\ ParsedMask(c) <= (IF ParsedFamily(c) = "v4" THEN 32 ELSE 128)
=============================================================================
