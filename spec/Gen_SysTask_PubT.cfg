CONSTANTS
  MaxId = 3
  NSp = 1
  Variant = "Pub"
INIT GenInit
NEXT GenNext
CHECK_DEADLOCK FALSE
INVARIANTS TypeOK SYS_Steps SYS_State
