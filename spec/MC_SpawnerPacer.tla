-------------------------- MODULE MC_SpawnerPacer --------------------------
(***************************************************************************)
(* Bounded model of the Pacer part of Spawner.tla (C36, ticket pacing of   *)
(* spawner_task).                                                          *)
(***************************************************************************)
EXTENDS Spawner, Json

CONSTANTS Durations,   \* durations (ticks) a scripted try_spawn may take
          QMax         \* events that may pile up in the channel while try_spawn runs

VARIABLE st
vars == <<st>>

Kinds == {"Registered", "Removed", "Idle"}
Acts == { [t |-> "Start"], [t |-> "Tick"] }
        \cup { [t |-> "Event", k |-> k] : k \in Kinds }
        \cup { [t |-> "Script", d |-> d, c |-> c] : d \in Durations, c \in BOOLEAN }

Enabled(s, a) == PacerEnabled(s, a) /\ (a.t = "Event" /\ s.busy > 0 => Len(s.q) < QMax)

Init == st = PacerInit
Next == \E a \in Acts : Enabled(st, a) /\ st' = PacerPost(st, a)
Spec == Init /\ [][Next]_vars

MaxD == CHOOSE d \in Durations : \A e \in Durations : e <= d
TypeOK == /\ st.el \in 0..W /\ st.sinceEnd \in 0..W /\ st.busy \in 0..MaxD /\ Len(st.q) <= QMax
          /\ (st.ticket => st.el = W) /\ (st.busy > 0 => ~st.ticket /\ st.el = 0 /\ st.sinceEnd = 0)
          /\ (st.busy = 0 => st.q = <<>>)
          /\ ~st.evStart /\ ~st.evEnd

C36_Pacing == /\ C36_Responsive(st)
              /\ \A a \in Acts : Enabled(st, a) => C36_Paced(st, a) /\ C36_OnlyWhenIncomplete(st, a)

\* harness view of a state: what can be observed from outside the task
Proj(s) == [up |-> s.up, complete |-> s.complete, busy |-> s.busy, qlen |-> Len(s.q), sinceEnd |-> s.sinceEnd]

GenInit == Init /\ PrintT(<<"INIT", ToJson(st)>>) /\ PrintT(<<"CONES", ToJson(PacerConeTable)>>)
GenNext == \E a \in Acts :
             /\ Enabled(st, a) /\ st' = PacerPost(st, a)
             /\ PrintT(<<"EDGE", ToJson([pre |-> st, act |-> a, post |-> st', obs |-> Proj(st'), out |-> PacerOut(st, a), ck |-> a.t])>>)
=============================================================================
