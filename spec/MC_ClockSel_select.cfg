CONSTANTS
  What = "select"
  NFull = 3
  EndFull = 2
  WFull = 1
  NOk = 4
  EndOk = 3
  WOk = 2
  MinAgrees = {1, 2, 3}
  NLeap = 0
INIT Init
NEXT Next
CHECK_DEADLOCK FALSE
INVARIANTS C03_MajorityConsensus
