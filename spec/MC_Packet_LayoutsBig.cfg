CONSTANTS
  BodyLens = {0, 1, 2, 3, 4, 5, 6, 7, 8, 12, 16, 20, 21, 24, 25, 28, 32, 516, 600}
  Tails = {0, 4, 8, 20, 24, 28}
  Contexts = {"none", "uid", "unk0", "unk24"}
  Derived = FALSE
  Sealed = FALSE
INIT Init
NEXT Next
CHECK_DEADLOCK FALSE
INVARIANTS C24_RoundTrip C23_Total C25_Regions
