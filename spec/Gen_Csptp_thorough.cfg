CONSTANTS
  MaxReq = 3
  T3s = {"zero", "midC", "max"}
  Corrs = {"zero", "pos1", "neg1", "max", "min"}
  ReqCorrs = {"zero", "min", "max", "neg1"}
INIT GenInit
NEXT GenNext
CHECK_DEADLOCK FALSE
INVARIANTS TypeOK C44_OnlyMatchingAnswers
