CONSTANTS
  Slice = "Stats"
  Deep = FALSE
  Cutoff = 3
  Prop = "all"
INIT GenInit
NEXT GenNext
CHECK_DEADLOCK FALSE
INVARIANTS TypeOK PropHolds
