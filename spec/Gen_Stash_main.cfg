CONSTANTS MaxId = 12
INIT GenInit
NEXT GenNext
VIEW View
INVARIANTS C13_StashDiscipline C13_GetYieldsOldestOnce
CHECK_DEADLOCK FALSE
