----------------------------- MODULE MC_Packet -----------------------------
(***************************************************************************)
(* Enumeration of datagram layouts for Packet.tla.  Three levels, so that  *)
(* TLC's workers share the work: root -> group (version, context fields,   *)
(* tail) -> layout; with Derived = TRUE a fourth level adds, for every     *)
(* layout, its truncations at every run boundary -1/0/+1 and every length  *)
(* field set to {0, 1, 3, 4, dl-1, dl+1, 65535}.                           *)
(* Every generated datagram is printed as a CASE line with the model's     *)
(* prediction (decoder result, re-encoded bytes, round-trip verdict).      *)
(***************************************************************************)
EXTENDS Packet, Json

CONSTANTS BodyLens,    \* body lengths of the focus field
          Tails,       \* v4: byte counts of a trailing MAC-like remainder (class D)
          Contexts,    \* subset of {"none", "uid", "unk0", "unk24"}: fields before / after the focus field
          Derived,     \* generate truncations and length edits
          Sealed       \* enumerate the sealed-packet parameter space (C25 / C23 with keys)

VARIABLE st
vars == <<st>>

Kinds == {"uid", "cookie", "ph", "enc", "unk", "draft", "pad", "rreq", "rresp"}
Classes(k, n) == CASE k \in {"ph", "enc", "rreq"} -> {"Z", "D"}
                   [] k = "draft" -> IF n = 23 THEN {"G", "W"} ELSE {"W", "D", "Z"}
                   [] k = "unk" -> {"D", "Z"}
                   [] OTHER -> {"D"}

\* one well-formed extension field: header, body, zero padding (v4 declares the padded length, v5 the unpadded one)
Chunk(k, n, c, ver) == <<H(k, IF ver = 4 THEN 4 + Pad4(n) ELSE 4 + n), Run(c, n), Run("Z", Pad4(n) - n)>>
Ctx(x, ver) == CASE x = "none" -> <<>> [] x = "uid" -> Chunk("uid", 12, "D", ver)
                 [] x = "unk0" -> Chunk("unk", 0, "D", ver) [] x = "unk24" -> Chunk("unk", 24, "D", ver)
DraftOk(ver) == Chunk("draft", 23, "G", ver)

HC(mode, leap, sync) == [mode |-> mode, leap |-> leap, scaleOk |-> TRUE, flagsOk |-> TRUE, sync |-> sync]
Dgram(ver, hc, body) == [ver |-> ver, hc |-> hc, body |-> Norm(body), total |-> 48 + Bytes(body)]

Groups ==
  { [ver |-> 4, before |-> b, after |-> a, tail |-> t, dpos |-> "none", hc |-> HC(3, 0, TRUE)] :
      b \in Contexts, a \in Contexts, t \in Tails }
  \cup { [ver |-> 5, before |-> b, after |-> a, tail |-> t, dpos |-> dp, hc |-> HC(4, 0, TRUE)] :
      b \in Contexts, a \in Contexts, t \in {0, 4} \cap Tails, dp \in {"first", "last", "none"} }
  \cup { [ver |-> 0, before |-> "none", after |-> "none", tail |-> 0, dpos |-> "none", hc |-> HC(3, 0, TRUE)] }   \* headers, v3

FocusFields(ver) ==
  { Chunk(k, n, c, ver) : <<k, n, c>> \in { x \in Kinds \X (BodyLens \cup {23}) \X {"Z", "D", "G", "W"} :
                                            (x[2] = 23 => x[1] = "draft") /\ x[3] \in Classes(x[1], x[2])
                                            /\ (x[3] = "G" => ver = 5) } }
  \cup {<<>>}

InGroup(g) ==
  IF g.ver = 0 THEN
       { Dgram(3, g.hc, IF t = 0 THEN <<>> ELSE <<Run("D", t)>>) : t \in {0, 1, 3, 4, 12, 20, 24, 25, 28} }
       \cup { Dgram(5, [HC(m, l, s) EXCEPT !.scaleOk = sc, !.flagsOk = fl], DraftOk(5) \o (IF u THEN Ctx("uid", 5) ELSE <<>>)) :
                m \in {3, 4, 1}, l \in {0, 3}, s \in BOOLEAN, sc \in BOOLEAN, fl \in BOOLEAN, u \in BOOLEAN }
       \cup { Dgram(v, HC(m, 1, TRUE), <<>>) : v \in {0, 1, 2, 4, 6, 7}, m \in {0, 3, 4, 7} }
  ELSE { Dgram(g.ver, g.hc,
               (IF g.dpos = "first" THEN DraftOk(5) ELSE <<>>) \o Ctx(g.before, g.ver) \o f \o Ctx(g.after, g.ver)
               \o (IF g.dpos = "last" THEN DraftOk(5) ELSE <<>>) \o (IF g.tail = 0 THEN <<>> ELSE <<Run("D", g.tail)>>)) :
           f \in FocusFields(g.ver) }

\* ---- derived datagrams: truncations and length edits -----------------------------------------------------
RECURSIVE Starts(_, _)
Starts(rs, o) == IF rs = <<>> THEN {o} ELSE {o} \cup Starts(Tail(rs), o + Head(rs).n)
Truncate(d, L) == IF L < 48 THEN [d EXCEPT !.body = <<>>, !.total = Max(L, 0)]
                  ELSE [d EXCEPT !.body = Norm(Take(d.body, L - 48)), !.total = L]
Truncations(d) == { Truncate(d, L) : L \in { x \in UNION { {48 + b - 1, 48 + b, 48 + b + 1} : b \in Starts(d.body, 0) } \cup {0, 1, 47} :
                                              x >= 0 /\ x < d.total } }
LenEdits(d) == UNION { { [d EXCEPT !.body[i].dl = v] : v \in {0, 1, 3, 4, d.body[i].dl - 1, d.body[i].dl + 1, 65535} \ {d.body[i].dl, -1} } :
                       i \in { j \in 1..Len(d.body) : d.body[j].c = "H" } }

\* ---- sealed datagram parameters (concretised with the real cipher by the harness) --------------------------
SealedCases == { [ver |-> v, alg |-> a, dir |-> dr, npre |-> n, trailing |-> t] :
                   v \in {4, 5}, a \in {256, 512}, dr \in {"c2s", "s2c"}, n \in 0..3, t \in BOOLEAN }
RegionTable == [r \in Regions |-> [expect |-> Expect(r), aad |-> InAad(r), outcome |-> Outcome(r)]]

Init == st = [lvl |-> 0]
Case(d) == LET r == Decode(d) e == IF r.res = "ok" THEN Encode(r.p) ELSE [res |-> "n/a", d |-> d] IN
           [ver |-> d.ver, hc |-> d.hc, body |-> d.body, total |-> d.total, weak |-> Weak(d), dec |-> r.res,
            enc |-> e.res, d1 |-> IF e.res = "ok" THEN e.d.body ELSE <<>>,
            leap1 |-> IF e.res = "ok" THEN e.d.hc.leap ELSE 0, rt |-> RoundTrip(d),
            f5 |-> (r.res = "ok" /\ F5Class(r.p))]
Next == \/ /\ st.lvl = 0
           /\ \/ \E g \in Groups : st' = [lvl |-> 1, g |-> g]
              \/ Sealed /\ \E c \in SealedCases : st' = [lvl |-> 9, s |-> c]
        \/ /\ st.lvl = 1 /\ \E d \in InGroup(st.g) : st' = [lvl |-> 2, d |-> d]
        \/ /\ st.lvl = 2 /\ Derived /\ \E d \in Truncations(st.d) \cup LenEdits(st.d) : st' = [lvl |-> 3, d |-> d]
GenInit == Init /\ PrintT(<<"REGIONS", ToJson(RegionTable)>>)
GenNext == /\ Next
           /\ \/ st'.lvl \in {2, 3} /\ PrintT(<<"CASE", ToJson(Case(st'.d))>>)
              \/ st'.lvl = 9 /\ PrintT(<<"SEALED", ToJson(st'.s)>>)
              \/ st'.lvl = 1
Spec == Init /\ [][Next]_vars

\* C24 on the model: every accepted, exactly predicted layout survives the round trip (F-5 class excepted, see Packet.tla)
C24_RoundTrip == st.lvl \in {2, 3} => C24_Case(st.d)
\* C23 on the model: the transcribed decoder is total -- it yields "ok" or an error class for every datagram
C23_Total == st.lvl \in {2, 3} => LET r == Decode(st.d).res IN
                r \in {"ok", "err:len", "err:version", "err:placeholder", "err:decrypt", "err:v5mode", "err:v5scale", "err:v5flags",
                       "err:v5draft"}
\* C25 on the model: the expectation per region follows from which bytes are inputs of the AEAD
C25_Regions == \A r \in Regions : C25_Region(r)
=============================================================================
