---- MODULE MC_KeySet_TTrace_1790035001 ----
EXTENDS Sequences, TLCExt, Toolbox, Naturals, TLC, MC_KeySet

_expression ==
    LET MC_KeySet_TEExpression == INSTANCE MC_KeySet_TEExpression
    IN MC_KeySet_TEExpression!expression
----

_trace ==
    LET MC_KeySet_TETrace == INSTANCE MC_KeySet_TETrace
    IN MC_KeySet_TETrace!trace
----

_inv ==
    ~(
        TLCGet("level") = Len(_TETrace)
        /\
        st = ([up |-> TRUE, offset |-> 0, primary |-> 1, next |-> 1, cookies |-> <<>>, fd |-> 0, nf |-> 0, keys |-> <<102, 0>>, disk |-> [exists |-> TRUE, mode |-> 384, toks |-> <<[v |-> 0, part |-> FALSE], [v |-> 6, part |-> FALSE], [v |-> 2, part |-> FALSE], [v |-> 3, part |-> FALSE], [v |-> 100, part |-> FALSE], [v |-> 101, part |-> FALSE], [v |-> 102, part |-> FALSE]>>]])
    )
----

_init ==
    /\ st = _TETrace[1].st
----

_next ==
    /\ \E i,j \in DOMAIN _TETrace:
        /\ \/ /\ j = i + 1
              /\ i = TLCGet("level")
        /\ st  = _TETrace[i].st
        /\ st' = _TETrace[j].st

\* Uncomment the ASSUME below to write the states of the error trace
\* to the given file in Json format. Note that you can pass any tuple
\* to `JsonSerialize`. For example, a sub-sequence of _TETrace.
    \* ASSUME
    \*     LET J == INSTANCE Json
    \*         IN J!JsonSerialize("MC_KeySet_TTrace_1790035001.json", _TETrace)

=============================================================================

 Note that you can extract this module `MC_KeySet_TEExpression`
  to a dedicated file to reuse `expression` (the module in the 
  dedicated `MC_KeySet_TEExpression.tla` file takes precedence 
  over the module `MC_KeySet_TEExpression` below).

---- MODULE MC_KeySet_TEExpression ----
EXTENDS Sequences, TLCExt, Toolbox, Naturals, TLC, MC_KeySet

expression == 
    [
        \* To hide variables of the `MC_KeySet` spec from the error trace,
        \* remove the variables below.  The trace will be written in the order
        \* of the fields of this record.
        st |-> st
        
        \* Put additional constant-, state-, and action-level expressions here:
        \* ,_stateNumber |-> _TEPosition
        \* ,_stUnchanged |-> st = st'
        
        \* Format the `st` variable as Json value.
        \* ,_stJson |->
        \*     LET J == INSTANCE Json
        \*     IN J!ToJson(st)
        
        \* Lastly, you may build expressions over arbitrary sets of states by
        \* leveraging the _TETrace operator.  For example, this is how to
        \* count the number of times a spec variable changed up to the current
        \* state in the trace.
        \* ,_stModCount |->
        \*     LET F[s \in DOMAIN _TETrace] ==
        \*         IF s = 1 THEN 0
        \*         ELSE IF _TETrace[s].st # _TETrace[s-1].st
        \*             THEN 1 + F[s-1] ELSE F[s-1]
        \*     IN F[_TEPosition - 1]
    ]

=============================================================================



Parsing and semantic processing can take forever if the trace below is long.
 In this case, it is advised to uncomment the module below to deserialize the
 trace from a generated binary file.

\*
\*---- MODULE MC_KeySet_TETrace ----
\*EXTENDS IOUtils, TLC, MC_KeySet
\*
\*trace == IODeserialize("MC_KeySet_TTrace_1790035001.bin", TRUE)
\*
\*=============================================================================
\*

---- MODULE MC_KeySet_TETrace ----
EXTENDS TLC, MC_KeySet

trace == 
    <<
    ([st |-> [up |-> FALSE, offset |-> 0, primary |-> 0, next |-> 0, cookies |-> <<>>, fd |-> 0, nf |-> 0, keys |-> <<>>, disk |-> [exists |-> TRUE, mode |-> 384, toks |-> <<[v |-> 0, part |-> FALSE], [v |-> 6, part |-> FALSE], [v |-> 2, part |-> FALSE], [v |-> 3, part |-> FALSE], [v |-> 100, part |-> FALSE], [v |-> 101, part |-> FALSE], [v |-> 102, part |-> FALSE]>>]]]),
    ([st |-> [up |-> TRUE, offset |-> 6, primary |-> 2, next |-> 0, cookies |-> <<>>, fd |-> 0, nf |-> 0, keys |-> <<100, 101, 102>>, disk |-> [exists |-> TRUE, mode |-> 384, toks |-> <<[v |-> 0, part |-> FALSE], [v |-> 6, part |-> FALSE], [v |-> 2, part |-> FALSE], [v |-> 3, part |-> FALSE], [v |-> 100, part |-> FALSE], [v |-> 101, part |-> FALSE], [v |-> 102, part |-> FALSE]>>]]]),
    ([st |-> [up |-> TRUE, offset |-> 0, primary |-> 1, next |-> 1, cookies |-> <<>>, fd |-> 0, nf |-> 0, keys |-> <<102, 0>>, disk |-> [exists |-> TRUE, mode |-> 384, toks |-> <<[v |-> 0, part |-> FALSE], [v |-> 6, part |-> FALSE], [v |-> 2, part |-> FALSE], [v |-> 3, part |-> FALSE], [v |-> 100, part |-> FALSE], [v |-> 101, part |-> FALSE], [v |-> 102, part |-> FALSE]>>]]])
    >>
----


=============================================================================

---- CONFIG MC_KeySet_TTrace_1790035001 ----
CONSTANTS
    History = 1
    M = 8
    InitOffset = 6
    InitKeys = 3
    Trunc = FALSE
    MaxGen = 2
    MaxCookies = 0
    MaxFaults = 0
    WithDecode = { "intact" }
    WithStore = TRUE
    WithFaults = FALSE

INVARIANT
    _inv

CHECK_DEADLOCK
    \* CHECK_DEADLOCK off because of PROPERTY or INVARIANT above.
    FALSE

INIT
    _init

NEXT
    _next

CONSTANT
    _TETrace <- _trace

ALIAS
    _expression
=============================================================================
\* Generated on Mon Sep 21 23:57:05 UTC 2026