---------------------------- MODULE MC_EstState ----------------------------
EXTENDS EstState, Json

VARIABLE st
vars == <<st>>

Acts ==
  { [t |-> tt, x |-> x] : tt \in {"AddClock", "AddExt", "RemoveClock", "RemoveExt", "Step", "Freq"}, x \in Ids }
  \cup { [t |-> tt, l |-> l] : tt \in {"AddLink", "RemoveLink"}, l \in LinkIds }
  \cup { [t |-> "Measure", l |-> l, d |-> d, dl |-> dl] : l \in LinkIds, d \in {"F", "R"}, dl \in BOOLEAN }
  \cup { [t |-> "Progress"], [t |-> "Back"] }

\* failing measurements are the same in both directions: keep one
Pruned(s, a) == a.t = "Measure" /\ Res(s, a) # "ok" /\ a.d = "R"

Init == st = Init0
Next == \E a \in Acts : Enabled(st, a) /\ ~Pruned(st, a) /\ st' = Post(st, a)
Spec == Init /\ [][Next]_vars

TypeOK == /\ Cardinality(st.links) <= MaxLinks
          /\ \A l \in st.links : Known(st, l.a) /\ Known(st, l.b) /\ l.a < l.b /\ ~BothExt(st, l)
C42_UnrelatedEstimatesIntact == \A a \in Acts : Enabled(st, a) => C42_Step(st, a)

GenInit == Init /\ PrintT(<<"INIT", ToJson(st)>>) /\ PrintT(<<"CONES", ToJson(ConeTable)>>)
GenNext == \E a \in Acts :
             /\ Enabled(st, a) /\ ~Pruned(st, a)
             /\ st' = Post(st, a)
             /\ PrintT(<<"EDGE", ToJson([pre |-> st, act |-> a, post |-> st', out |-> Out(st, a), ck |-> ConeKey(st, a)])>>)
=============================================================================
