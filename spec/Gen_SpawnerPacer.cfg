CONSTANTS
  W = 4
  Count = 1
  Ignore = {}
  Durations = {0, 1, 5}
  QMax = 2
INIT GenInit
NEXT GenNext
CHECK_DEADLOCK FALSE
INVARIANTS TypeOK C36_Pacing
