CONSTANTS
  BodyLens = {0, 4, 24}
  Tails = {0, 20}
  Contexts = {"none", "unk0"}
  Derived = TRUE
  Sealed = TRUE
INIT GenInit
NEXT GenNext
CHECK_DEADLOCK FALSE
INVARIANTS C24_RoundTrip C23_Total C25_Regions
