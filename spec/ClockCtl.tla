------------------------------ MODULE ClockCtl ------------------------------
(***************************************************************************)
(* Decision layer of the clock controller of ntpd-rs and the controller    *)
(* wrapper's message loop:                                                 *)
(*   ntp-proto/src/algorithm/mod.rs         TimeSyncControllerWrapper::run,*)
(*                                          source wrappers, one channel   *)
(*   ntp-proto/src/algorithm/kalman/mod.rs  KalmanClockController:         *)
(*        source_message / update_clock / steer_offset / check_offset_steer*)
(*        / change_desired_frequency / steer_frequency / time_update       *)
(*   select.rs, combiner.rs                 via ClockSel.tla               *)
(*                                                                         *)
(* NOT modelled: the floating-point Kalman filter.  Every source is in its *)
(* initial phase (< 8 samples), where its estimate is the mean of its      *)
(* samples, its uncertainty sqrt(delay) and its frequency estimate 0; all  *)
(* offsets are whole seconds, so every quantity below is exact in the real *)
(* code too.  Two sources "agree" iff their offsets are equal (intervals   *)
(* of different whole-second offsets are disjoint and never touch).        *)
(*                                                                         *)
(* State `st`, deterministic: Post(s, a), Out(s, a), Cones.                *)
(* Time: `clk` is the sum of all steps (local clock minus monotonic time); *)
(* a snapshot carries the local time `t` at which it was produced; steps   *)
(* shift the stored snapshots' offset and time (process_offset_steering).  *)
(* A snapshot that has to be progressed over >= 1 s becomes too uncertain  *)
(* for selection (initial frequency variance 100): "wide", offset dropped. *)
(*                                                                         *)
(* Properties: C01 C02 C03 C04 C37.                                        *)
(***************************************************************************)
EXTENDS ClockSel

CONSTANTS N,            \* number of source slots (a slot is re-used with a fresh ClockId once quiescent)
          MinAgree,     \* synchronization.minimum-agreeing-sources
          StepThresh,   \* algorithm.step-threshold (s): |change| > StepThresh steps, otherwise slews
          SFwd2, SBwd2, \* startup-step-panic-threshold forward / backward, in HALF seconds, 9999 = inf
          Fwd2, Bwd2,   \* single-step-panic-threshold, in half seconds, 9999 = inf
          Acc2,         \* accumulated-step-panic-threshold, in half seconds, 9999 = none
          TrackFreq,    \* frequency numerics modelled (requires N = 1, see SteerFreq)
          F0, F0Neg,    \* frequency reported by the kernel at start (ppm): F0, or -F0 if F0Neg
          MaxSteer,     \* algorithm.maximum-frequency-steer (ppm)
          SlewMax,      \* algorithm.slew-maximum-frequency-offset (ppm)
          MaxSamples,   \* measurements per source handle (1 or 2; < 8 keeps the source in its initial phase)
          Ghosts,       \* whether forged data for removed sources is generated (tracks `had`)
          Readd         \* whether a quiescent slot may be used again for a new source

ASSUME TrackFreq => N = 1
ASSUME ~TrackFreq => StepThresh = 0      \* without frequency tracking no slew may start

Slots == 1..N
Inf == 9999
Abs(x) == IF x < 0 THEN -x ELSE x
Sgn(x) == IF x < 0 THEN -1 ELSE IF x > 0 THEN 1 ELSE 0
Clamp(x, m) == IF x > m THEN m ELSE IF x < -m THEN -m ELSE x

NoSnap == [has |-> FALSE, off |-> 0, t |-> 0, leap |-> "none", wide |-> FALSE]
NoSv   == [n |-> 0, off |-> 0, wide |-> FALSE]
InitSrc == [alive |-> FALSE, reg |-> FALSE, usable |-> FALSE, had |-> FALSE, was |-> FALSE, sv |-> NoSv, snap |-> NoSnap]
InitState == [src |-> [i \in Slots |-> InitSrc], chan |-> <<>>, inStartup |-> TRUE, acc |-> 0, slew |-> 0,
              leap |-> "unknown", used |-> {}, dead |-> FALSE, clk |-> 0, f |-> IF F0Neg THEN -F0 ELSE F0]

NoOut == [steps |-> <<>>, exit |-> FALSE, err |-> FALSE, status |-> <<>>, freqs |-> <<>>, freqOk |-> TRUE]

InChan(s, i) == \E k \in 1..Len(s.chan) : s.chan[k].i = i

(***************************************************************************)
(* config.rs:81 StepThreshold::is_within -- strict on both sides.          *)
(* Thresholds are in half seconds so that "one unit of 2^-32 s above /     *)
(* below a whole second" is expressible: 2t+1, 2t-1.                       *)
(***************************************************************************)
Within(f2, b2, c) == (f2 = Inf \/ 2 * c < f2) /\ (b2 = Inf \/ 2 * c > -b2)

\* kalman/mod.rs:232 check_offset_steer
StepAllowed(s, c) ==
  IF s.inStartup THEN Within(SFwd2, SBwd2, c)
  ELSE Within(Fwd2, Bwd2, c) /\ (Acc2 = Inf \/ 2 * (s.acc + Abs(c)) <= Acc2)

(***************************************************************************)
(* Action enabledness (the harness can perform the action in this state).  *)
(***************************************************************************)
Enabled(s, a) ==
  /\ ~s.dead
  /\ CASE a.t = "Add"     -> ~s.src[a.i].alive /\ ~s.src[a.i].reg /\ ~InChan(s, a.i) /\ (Readd \/ ~s.src[a.i].was)
       [] a.t = "Meas"    -> /\ s.src[a.i].alive /\ s.src[a.i].sv.n < MaxSamples
                             /\ (s.src[a.i].sv.n = 1 => (s.src[a.i].sv.off + a.off) % 2 = 0)
       [] a.t = "Usable"  -> s.src[a.i].alive
       [] a.t = "Drop"    -> s.src[a.i].alive
       [] a.t = "Recv"    -> s.chan # <<>>
       [] a.t = "SlewEnd" -> s.slew # 0
       [] a.t = "Ghost"   -> ~s.src[a.i].alive /\ ~s.src[a.i].reg /\ s.src[a.i].had /\ ~InChan(s, a.i)

(***************************************************************************)
(* Controller side.                                                        *)
(***************************************************************************)
\* KalmanState::progress_time on every stored snapshot that is older than `time`
Age(s, time) ==
  [s EXCEPT !.src = [i \in Slots |->
     IF s.src[i].snap.has /\ s.src[i].snap.t < time
       THEN [s.src[i] EXCEPT !.snap = [@ EXCEPT !.wide = TRUE, !.off = 0, !.t = time]]
       ELSE s.src[i]]]

\* kalman/mod.rs:330 steer_frequency (+ process_frequency_steering of every stored snapshot at clock.now()).
\* Frequencies in whole ppm: new = clamp((1+f)(1+c)-1) = clamp(f + c + f*c); the second-order term (< 0.3 ppm per
\* call, reset by every saturation) is dropped, the harness compares values with a tolerance of 8 ppm and checks the
\* configured bound itself exactly (out.freqOk).
SteerFreq(so, change) ==
  LET s == so[1]
      nf == Clamp(s.f + change, MaxSteer)
  IN << [Age(s, s.clk) EXCEPT !.f = nf], [so[2] EXCEPT !.freqs = Append(@, nf)] >>

\* candidates of update_clock (kalman/mod.rs:128-139): usable sources that have a snapshot
CandSlots(s) == { i \in Slots : s.src[i].reg /\ s.src[i].usable /\ s.src[i].snap.has }
SlotSeq(S) == LET n == Cardinality(S) IN [k \in 1..n |-> CHOOSE x \in S : Cardinality({y \in S : y < x}) = k - 1]
CandOf(sn) == [lo |-> 4 * sn.off - (IF sn.wide THEN 100 ELSE 1), hi |-> 4 * sn.off + (IF sn.wide THEN 100 ELSE 1),
               kind |-> IF sn.leap = "unsync" THEN "unsync" ELSE "ok"]
Selected(s) ==
  LET order == SlotSeq(CandSlots(s))
      cands == [k \in 1..Len(order) |-> CandOf(s.src[order[k]].snap)]
  IN { order[k] : k \in Select(cands, MinAgree, 2) }

\* the step the controller wants to make in this update (0 = none): kalman/mod.rs:160-174, 275
Wanted(s, sel) ==
  LET est == s.src[CHOOSE j \in sel : TRUE].snap.off
  IN IF sel # {} /\ s.slew = 0 /\ Abs(est) > StepThresh THEN est ELSE 0

\* kalman/mod.rs:104 update_clock, after the new snapshot has been stored; so = <<state, out>>
Update(s, time) ==
  IF \E j \in Slots : s.src[j].snap.has /\ s.src[j].snap.t > time
    THEN << s, NoOut >>                                       \* mod.rs:106-118 some filter is ahead of this message
  ELSE
    LET s2  == Age(s, time)
        sel == Selected(s2)
    IN IF sel = {} THEN << s2, NoOut >>                       \* "No consensus on current time"
       ELSE
         LET est == s2.src[CHOOSE j \in sel : TRUE].snap.off
             w   == Wanted(s2, sel)
             \* --- steering (mod.rs:160-189) ---
             so1 == IF s2.slew = 0 /\ est # 0
                      THEN IF w # 0
                             THEN IF StepAllowed(s2, w)
                                    THEN << [s2 EXCEPT !.clk = @ + w,
                                                       !.acc = IF s2.inStartup THEN @ ELSE @ + Abs(w),
                                                       !.src = [i \in Slots |->
                                                          LET sn == s2.src[i].snap
                                                              sv == s2.src[i].sv
                                                          IN [s2.src[i] EXCEPT
                                                               !.snap = IF sn.has THEN [sn EXCEPT !.off = IF sn.wide THEN 0 ELSE sn.off - w, !.t = sn.t + w] ELSE sn,
                                                               !.sv = IF s2.src[i].alive /\ sv.n > 0 THEN [sv EXCEPT !.off = sv.off - w] ELSE sv]]],
                                            [NoOut EXCEPT !.steps = <<w>>] >>
                                    ELSE << [s2 EXCEPT !.dead = TRUE], [NoOut EXCEPT !.exit = TRUE] >>
                             ELSE \* slew: desired_freq := -SlewMax * sgn, total change = +SlewMax * sgn (frequency estimate is 0)
                                  SteerFreq(<< [s2 EXCEPT !.slew = Sgn(est)], NoOut >>, SlewMax * Sgn(est))
                    ELSE IF s2.slew # 0
                           THEN SteerFreq(<< s2, NoOut >>, SlewMax * s2.slew)   \* freq_delta = 0 - desired_freq
                           ELSE << s2, NoOut >>
             s3 == so1[1]
             o3 == so1[2]
         IN IF o3.exit THEN so1
            ELSE LET order == SlotSeq(sel)
                     v == VoteLeap([k \in 1..Len(order) |-> s2.src[order[k]].snap.leap])
                 IN << [s3 EXCEPT !.inStartup = FALSE, !.used = sel, !.leap = IF v = "keep" THEN @ ELSE v],
                       [o3 EXCEPT !.err = TRUE, !.status = IF v = "keep" THEN <<>> ELSE <<v>>] >>

SnapOf(m) == [has |-> TRUE, off |-> IF m.wide THEN 0 ELSE m.off, t |-> m.tm, leap |-> m.leap, wide |-> m.wide]

\* algorithm/mod.rs:295 run(), one message; kalman/mod.rs:442-469
RecvSO(s) ==
  LET m  == Head(s.chan)
      s1 == [s EXCEPT !.chan = Tail(@)]
      i  == m.i
  IN CASE m.k = "U" -> << IF s1.src[i].reg THEN [s1 EXCEPT !.src[i].usable = m.b] ELSE s1, NoOut >>
       [] m.k = "D" -> << [s1 EXCEPT !.src[i].reg = FALSE, !.src[i].usable = FALSE, !.src[i].snap = NoSnap], NoOut >>
       [] m.k = "M" -> LET s2 == [s1 EXCEPT !.src[i].had = Ghosts]
                       IN IF ~s2.src[i].reg THEN << s2, NoOut >>
                          ELSE Update([s2 EXCEPT !.src[i].snap = SnapOf(m)], m.tm)

Msg(i, k) == [i |-> i, k |-> k, off |-> 0, tm |-> 0, leap |-> "none", wide |-> FALSE, b |-> FALSE]

SO(s, a) ==
  CASE a.t = "Add"    -> \* a re-used slot gets a fresh ClockId: a stale listing of the old id in `used` no longer refers to it
                         << [s EXCEPT !.src[a.i] = [InitSrc EXCEPT !.alive = TRUE, !.reg = TRUE, !.was = ~Readd], !.used = @ \ {a.i}], NoOut >>
    [] a.t = "Meas"   -> LET sv == s.src[a.i].sv
                             mean == IF sv.n = 0 THEN a.off ELSE (sv.off + a.off) \div 2
                             nsv == [n |-> sv.n + 1, off |-> mean, wide |-> sv.wide \/ a.wide]
                         IN << [s EXCEPT !.src[a.i].sv = nsv,
                                         !.chan = Append(@, [Msg(a.i, "M") EXCEPT !.off = mean, !.tm = s.clk, !.leap = a.leap, !.wide = nsv.wide])],
                               NoOut >>
    [] a.t = "Usable" -> << [s EXCEPT !.chan = Append(@, [Msg(a.i, "U") EXCEPT !.b = a.b])], NoOut >>
    [] a.t = "Drop"   -> << [s EXCEPT !.src[a.i].alive = FALSE, !.src[a.i].sv = NoSv, !.chan = Append(@, Msg(a.i, "D"))], NoOut >>
    [] a.t = "Recv"   -> RecvSO(s)
    [] a.t = "SlewEnd" -> SteerFreq(<< [s EXCEPT !.slew = 0], NoOut >>, -SlewMax * s.slew)   \* time_update: change = desired_freq
    [] a.t = "Ghost"  -> << s, NoOut >>      \* data for a removed source: ignored (kalman/mod.rs:461-468)

Post(s, a) == SO(s, a)[1]
Out(s, a)  == SO(s, a)[2]

(***************************************************************************)
(* Properties, stated declaratively over one step.                         *)
(***************************************************************************)
IsUpdate(s, a) == a.t = "Recv" /\ Head(s.chan).k = "M"

\* C01: a step is within the threshold of the phase the controller is in, post-startup steps are accumulated and
\* the sum stays within the accumulated threshold; a wanted step that fails the guard ends in Exit, never in a step
\* and never silently; start-up ends with the first successful combined estimate, after that update's steering.
C01_Step(s, a) ==
  LET so == SO(s, a)
      o == so[2]
      p == so[1]
  IN /\ \A k \in 1..Len(o.steps) :
          LET c == o.steps[k]
          IN IF s.inStartup THEN Within(SFwd2, SBwd2, c) /\ p.acc = s.acc
             ELSE /\ Within(Fwd2, Bwd2, c) /\ p.acc = s.acc + Abs(c)
                  /\ (Acc2 = Inf \/ 2 * p.acc <= Acc2)
     /\ Len(o.steps) <= 1
     /\ o.exit => o.steps = <<>> /\ p.dead
     /\ IsUpdate(s, a) /\ s.src[Head(s.chan).i].reg =>
          LET s2 == [s EXCEPT !.src[Head(s.chan).i].snap = SnapOf(Head(s.chan))]
              ahead == \E j \in Slots : s2.src[j].snap.has /\ s2.src[j].snap.t > Head(s.chan).tm
              s3 == Age(s2, Head(s.chan).tm)
              w  == IF ahead THEN 0 ELSE Wanted(s3, Selected(s3))
          IN w # 0 => IF StepAllowed(s, w) THEN o.steps = <<w>> /\ ~o.exit ELSE o.exit /\ o.steps = <<>>
     /\ p.inStartup = (s.inStartup /\ ~o.err)
     /\ ~IsUpdate(s, a) => o.steps = <<>> /\ ~o.exit

\* C02: every frequency handed to the clock is within +-MaxSteer whatever the kernel reported at start; a slew
\* uses an extra frequency of at most SlewMax (|desired| is SlewMax while slewing, 0 otherwise) and ends with it.
C02_Step(s, a) ==
  LET so == SO(s, a)
      o == so[2]
      p == so[1]
  IN /\ \A k \in 1..Len(o.freqs) : Abs(o.freqs[k]) <= MaxSteer
     /\ o.freqOk
     /\ p.slew \in {-1, 0, 1}
     /\ a.t = "SlewEnd" => p.slew = 0 /\ Len(o.freqs) = 1

\* C03 (end to end): an update that reaches a combined estimate (err) -- the only place where the clock is steered
\* from an estimate -- has a group of eligible sources (registered, usable, synchronised, acceptable uncertainty) with
\* one common offset that has at least MinAgree members and is a strict majority of all eligible sources; the sources
\* used are eligible.
Eligible(s) == { i \in CandSlots(s) : ~s.src[i].snap.wide /\ s.src[i].snap.leap # "unsync" }
C03_Step(s, a) ==
  LET so == SO(s, a)
      o == so[2]
      p == so[1]
      m == Head(s.chan)
      s3 == Age([s EXCEPT !.src[m.i].snap = SnapOf(m)], m.tm)     \* the sources as the update sees them
      E == Eligible(s3)
      Group(x) == { i \in E : s3.src[i].snap.off = x }
  IN /\ (o.err \/ o.steps # <<>> \/ o.freqs # <<>> \/ o.exit) /\ a.t # "SlewEnd" =>
          /\ IsUpdate(s, a)
          /\ \E i \in E : Cardinality(Group(s3.src[i].snap.off)) >= MinAgree
                          /\ 2 * Cardinality(Group(s3.src[i].snap.off)) > Cardinality(E)
          /\ ~o.exit => p.used \subseteq E
     /\ ~(o.err) => p.used = s.used

\* C04: the indicator handed to the clock / published is the strict majority (unknown votes removed) among the
\* sources used in this update; without one the previous indicator stays; unselected sources have no say.
C04_Step(s, a) ==
  LET so == SO(s, a)
      o == so[2]
      p == so[1]
      m == Head(s.chan)
      s3 == Age([s EXCEPT !.src[m.i].snap = SnapOf(m)], m.tm)
      sel == p.used
      known == { i \in sel : s3.src[i].snap.leap # "unknown" }
      Maj(v) == 2 * Cardinality({ i \in sel : s3.src[i].snap.leap = v }) > Cardinality(known)
  IN /\ ~o.err => o.status = <<>> /\ p.leap = s.leap
     /\ o.err => /\ \A v \in {"none", "59", "61"} : Maj(v) => o.status = <<v>> /\ p.leap = v
                 /\ (\A v \in {"none", "59", "61"} : ~Maj(v)) => o.status = <<>> /\ p.leap = s.leap

\* C37: estimates use only sources that are registered and were last reported usable at that moment; source-side
\* operations only enqueue; removal takes the source out for good; data for a removed source changes nothing.
C37_Step(s, a) ==
  LET so == SO(s, a)
      o == so[2]
      p == so[1]
  IN /\ o.err => p.used \subseteq { i \in Slots : p.src[i].reg /\ p.src[i].usable }
     /\ a.t \in {"Meas", "Usable", "Drop"} =>
          /\ Len(p.chan) = Len(s.chan) + 1 /\ o = NoOut
          /\ \A i \in Slots : p.src[i].reg = s.src[i].reg /\ p.src[i].usable = s.src[i].usable /\ p.src[i].snap = s.src[i].snap
          /\ p.used = s.used /\ p.clk = s.clk
     /\ a.t = "Recv" => p.chan = Tail(s.chan)
     /\ a.t = "Recv" /\ Head(s.chan).k = "D" => ~p.src[Head(s.chan).i].reg /\ ~p.src[Head(s.chan).i].snap.has
     /\ (a.t = "Ghost" \/ (a.t = "Recv" /\ ~s.src[Head(s.chan).i].reg)) =>
          /\ o = NoOut /\ p.used = s.used /\ p.clk = s.clk
          /\ \A i \in Slots : p.src[i].reg = s.src[i].reg /\ p.src[i].snap = s.src[i].snap /\ p.src[i].usable = s.src[i].usable

(***************************************************************************)
(* Cones: which observables each property constrains on a step.            *)
(***************************************************************************)
ConeKey(s, a) == IF a.t = "Recv" THEN "Recv." \o Head(s.chan).k ELSE a.t

\* Derived observables (computed by the harness from the expected and from the observed state alike):
\*   srcReg  per slot: alive, reg, usable, snapshot present, its leap flag
\*   srcAbs  per slot: snapshot offset + clk, snapshot time - clk, wide, source-side mean + clk, sample count
\*           (invariant under clock steps, so they do not depend on whether this update reached a consensus)
\*   usedOk  an estimate made in this step used only sources that are registered and usable
\*   cons    this update reached a combined estimate (out.err or out.exit)
\* Attribution rule (checks/clock.py): when an update's consensus decision itself differs (cons / used), what follows
\* from it (steps, frequency, leap, accumulated steps) is not attributed to the properties about those.
ConeTable ==
  [ Recv_M  |-> [C01 |-> {"out.steps", "out.exit", "acc", "inStartup", "clk", "dead"},
                 C02 |-> {"out.freqs", "out.freqOk", "slew", "f"},
                 C03 |-> {"cons", "used"},
                 C04 |-> {"out.status", "leap"},
                 C37 |-> {"srcReg", "srcAbs", "usedOk", "chan"}],
    Recv_U  |-> [C01 |-> {}, C02 |-> {}, C03 |-> {}, C04 |-> {},
                 C37 |-> {"src", "srcReg", "srcAbs", "used", "usedOk", "chan", "clk", "out.err", "out.steps", "out.freqs", "out.status"}],
    Recv_D  |-> [C01 |-> {}, C02 |-> {}, C03 |-> {}, C04 |-> {},
                 C37 |-> {"src", "srcReg", "srcAbs", "used", "usedOk", "chan", "clk", "out.err", "out.steps", "out.freqs", "out.status"}],
    Add     |-> [C01 |-> {}, C02 |-> {}, C03 |-> {}, C04 |-> {}, C37 |-> {"src", "srcReg", "srcAbs", "chan"}],
    Meas    |-> [C01 |-> {}, C02 |-> {}, C03 |-> {}, C04 |-> {}, C37 |-> {"src", "srcReg", "srcAbs", "chan"}],
    Usable  |-> [C01 |-> {}, C02 |-> {}, C03 |-> {}, C04 |-> {}, C37 |-> {"src", "srcReg", "srcAbs", "chan"}],
    Drop    |-> [C01 |-> {}, C02 |-> {}, C03 |-> {}, C04 |-> {}, C37 |-> {"src", "srcReg", "srcAbs", "chan"}],
    SlewEnd |-> [C01 |-> {}, C02 |-> {"out.freqs", "out.freqOk", "slew", "f"},
                 C03 |-> {}, C04 |-> {}, C37 |-> {}],
    Ghost   |-> [C01 |-> {}, C02 |-> {}, C03 |-> {}, C04 |-> {},
                 C37 |-> {"src", "srcReg", "srcAbs", "used", "usedOk", "chan", "clk", "out.err", "out.steps", "out.freqs", "out.status"}] ]

ConeKeyStr(k) == CASE k = "Recv.M" -> "Recv_M" [] k = "Recv.U" -> "Recv_U" [] k = "Recv.D" -> "Recv_D" [] OTHER -> k
Cones(s, a) == ConeTable[ConeKeyStr(ConeKey(s, a))]
=============================================================================
