CONSTANTS
  AsCoded = FALSE
  Restrict = "any"
INIT Init
NEXT Next
CHECK_DEADLOCK FALSE
INVARIANTS C39_Thresholds

