---------------------------- MODULE Trace_Source ----------------------------
(***************************************************************************)
(* Trace validation for Source.tla.  The harness records sessions of the   *)
(* real NtpSource as ndjson: a "reset" event (fresh association, initial   *)
(* stash) followed by "step" events carrying the action, the state         *)
(* projection observed after it and what the call returned.  This module   *)
(* re-executes the specification along the trace: for every step it        *)
(* computes Post/Out from its own current state and compares all logged    *)
(* observables.  A disagreement is printed (with the cones of that step,   *)
(* so that it can be attributed to properties) and the rest of that        *)
(* session is skipped; validation resumes at the next reset.               *)
(***************************************************************************)
EXTENDS Source, Json, IOUtils

Rec == ndJsonDeserialize(IOEnv.TRACE)

VARIABLES l, skip, nb, fin
tvars == <<st, l, skip, nb, fin>>

StateFields == {"proto", "k", "since", "tries", "pend", "deny", "remoteMin", "lastPoll", "stratum", "refLocal"}
OutFields == {"actions", "ver", "poll", "marker", "cookie", "placeholders", "usable", "meas", "stored", "len"}

Diff(exp, eo, ev) ==
  IF ev.panic # "" THEN {"panic"}
  ELSE { f \in StateFields : exp[f] # ev.st[f] }
       \cup (IF Len(exp.stash) # ev.st.stashLen THEN {"stash"} ELSE {})
       \cup (IF exp.since # ev.st.obs_unanswered THEN {"since"} ELSE {})
       \cup { "out." \o f : f \in { g \in OutFields : eo[g] # ev.out[g] } }
       \cup (IF ~ev.out.timer_ok THEN {"out.timer_ok"} ELSE {})
       \cup (IF ev.out.meas > eo.meas THEN {"out.meas_over"} ELSE {})

TraceInit == /\ l = 1 /\ skip = FALSE /\ nb = 0 /\ fin = FALSE
             /\ st = InitState(<<>>)

Reset(ev) ==
  /\ st' = InitState(ev.cfg.init_stash)
  /\ skip' = FALSE /\ nb' = nb + 1
  /\ LET d == Diff(st', NoOut, [st |-> ev.st, out |-> [NoOut EXCEPT !.actions = <<>>] @@ [timer_ok |-> TRUE], panic |-> ""])
     IN d = {} \/ PrintT(<<"MISMATCH", ToJson([line |-> l, act |-> [t |-> "Init"], fields |-> d,
                               cones |-> [C12 |-> {"proto", "k"}, C11 |-> {"since", "tries"}, C13 |-> {"stash"}],
                               expected |-> [st |-> st', out |-> NoOut], observed |-> [st |-> ev.st]])>>)

Step(ev) ==
  IF skip THEN UNCHANGED <<st, skip, nb>>
  ELSE LET a   == ev.act
           exp == Post(st, a)
           eo  == Out(st, a)
           d   == Diff(exp, eo, ev)
       IN /\ nb' = nb
          /\ IF d = {} THEN st' = exp /\ skip' = FALSE
             ELSE /\ UNCHANGED st /\ skip' = TRUE
                  /\ PrintT(<<"MISMATCH", ToJson([line |-> l, act |-> a, fields |-> d, cones |-> Cones(st, a),
                                                   pre |-> st, expected |-> [st |-> exp, out |-> eo],
                                                   observed |-> [st |-> ev.st, out |-> ev.out], panic |-> ev.panic])>>)

TraceNext ==
  \/ /\ l <= Len(Rec) /\ l' = l + 1 /\ UNCHANGED fin
     /\ IF Rec[l].ev = "reset" THEN Reset(Rec[l]) ELSE Step(Rec[l])
  \/ /\ l = Len(Rec) + 1 /\ ~fin /\ fin' = TRUE /\ UNCHANGED <<st, l, skip, nb>>
     /\ PrintT(<<"DONE", ToJson([consumed |-> Len(Rec), behaviours |-> nb])>>)

TraceSpec == TraceInit /\ [][TraceNext]_tvars
=============================================================================
