CONSTANTS
  W = 4
  Count = 2
  Ignore = {4}
  Addr = {1, 2, 3, 4}
  MaxAns = 3
  AsCoded = TRUE
  DistinctAnswers = TRUE
INIT Init
NEXT Next
VIEW PoolView
CHECK_DEADLOCK FALSE
INVARIANTS C35_DistinctInv
ALIAS Alias
