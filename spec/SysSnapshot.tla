---------------------------- MODULE SysSnapshot ----------------------------
(***************************************************************************)
(* C33, first clause: what the daemon advertises (system.rs,               *)
(* NtpManager::update_used_sources / NtpSnapshot::from_used_sources).      *)
(* "Once its used sources have reported, the daemon advertises a stratum   *)
(* one more than that of its primary source (or the configured local       *)
(* stratum when it has none), with the primary source's identifier as      *)
(* reference id."                                                          *)
(* A case is the list of sources the clock controller says it used, in     *)
(* order (the first one is the primary): NTP sources with the stratum of   *)
(* their last answer, which may or may not have reported yet (snapshot     *)
(* present), and external sources (PPS, SOCK, CSPTP: stratum 0 with fixed  *)
(* identifiers).  Until every used NTP source has reported, the previous   *)
(* advertisement stays.                                                    *)
(***************************************************************************)
EXTENDS Naturals, Sequences, TLC, Json

CONSTANTS LocalStrata, Strata, MaxLen

Kinds == {"ntp", "pps", "sock", "csptp"}
Src == [ty : {"ntp"}, stratum : Strata, snap : BOOLEAN] \cup [ty : Kinds \ {"ntp"}, stratum : {0}, snap : {TRUE}]
Lists == UNION { [1..n -> Src] : n \in 0..MaxLen }

Min(a, b) == IF a <= b THEN a ELSE b
IdOf(s, i) == IF s.ty = "ntp" THEN "ntp" \o ToString(i) ELSE s.ty     \* identifier of the i-th listed source

\* what is advertised after update_used_sources(list), given the previous advertisement prev
Advertised(local, list, prev) ==
  IF \E i \in 1..Len(list) : list[i].ty = "ntp" /\ ~list[i].snap THEN prev
  ELSE IF Len(list) = 0 THEN [stratum |-> local, ref |-> "none"]
  ELSE [stratum |-> Min(list[1].stratum + 1, 255), ref |-> IdOf(list[1], 1)]

Prev == [stratum |-> 8, ref |-> "prev"]

\* C33 (advertisement clause) on the model
C33_Advertisement ==
  \A local \in LocalStrata, list \in Lists :
     LET a == Advertised(local, list, Prev) IN
     (\A i \in 1..Len(list) : list[i].snap) =>
        /\ (Len(list) = 0 => a.stratum = local)
        /\ (Len(list) > 0 => a.stratum = Min(list[1].stratum + 1, 255) /\ a.ref = IdOf(list[1], 1))

VARIABLE done
Init == done = FALSE
Next == ~done /\ done' = TRUE
        /\ \A local \in LocalStrata, list \in Lists :
              PrintT(<<"ACASE", ToJson([local |-> local, list |-> list, expect |-> Advertised(local, list, Prev)])>>)
=============================================================================
