CONSTANTS
  MaxTlvs = 3
  SerLens = {0, 2, 4, 6}
  ParseLens = {0, 1, 2, 3, 4, 6}
  Kinds = {"m", "z"}
  Pads = {0, 1, 4, 5}
INIT GenInit
NEXT GenNext
CHECK_DEADLOCK FALSE
INVARIANTS C41_PtpRoundTrip NonVacuous
