------------------------------ MODULE PtpWire ------------------------------
(***************************************************************************)
(* Wire grammar of PTP version 2 messages as implemented by statime-wire   *)
(* (statime-wire/src/messages/mod.rs, messages/header.rs, common/tlv.rs),  *)
(* with the transcribed INTENDED encoder / decoder.  Property C41.         *)
(*                                                                         *)
(* A message is abstracted to                                              *)
(*   ty    one of the ten body types (fixed body size, BodySize)           *)
(*   hc    header value class  ("zero" | "ones" | "mix")                   *)
(*   bc    body value class    ("zero" | "max"  | "mix")                   *)
(*   tlvs  sequence of [k |-> kind, l |-> value length]                    *)
(* and a datagram (byte string) to the same fields plus the ways a byte    *)
(* string can deviate from a serialised message:                           *)
(*   short  value bytes missing at the end of the last TLV (its length     *)
(*          field overruns the message)                                    *)
(*   junk   1..3 stray bytes after the last TLV, inside message_length     *)
(*   ml     class of the header's message_length field                     *)
(*   pad    bytes after message_length (to be ignored by the decoder)      *)
(*   cut    buffer cut inside the 34-byte header                           *)
(* The harness (harness/ext/src/ptpwire.rs) concretises a class to real    *)
(* statime_wire values (through the public constructors) and, by an        *)
(* independent byte writer, to real bytes.  Value classes contain only     *)
(* canonical field values, i.e. values v with decode(encode(v)) = v and    *)
(* reserved bits zero: for other values "equal" / "prefix of the input" is *)
(* ambiguous (e.g. TimeSource::Reserved(0x10) and AtomicClock share a wire *)
(* form; a set reserved bit is dropped) and C41 is read as not covering    *)
(* them.                                                                   *)
(***************************************************************************)
EXTENDS Naturals, Sequences, FiniteSets, TLC

TypeSet == {"Sync", "DelayReq", "PDelayReq", "PDelayResp", "FollowUp", "DelayResp",
            "PDelayRespFollowUp", "Announce", "Signaling", "Management"}
BadTypes == {"T4", "T7", "Te", "Tf"}          \* messageType nibbles 4, 7, 14, 15 (MessageType::try_from fails)

\* content_size() of each body (messages/*.rs)
BodySize(ty) == CASE ty \in {"Sync", "DelayReq", "FollowUp", "Signaling"} -> 10
                  [] ty = "Management" -> 14
                  [] ty = "Announce" -> 30
                  [] OTHER -> 20
HasTimestamp(ty) == ty \notin {"Signaling", "Management"}   \* bodies starting with a Timestamp (nanos validated)
HeaderSize == 34

RECURSIVE SumItems(_)
SumItems(s) == IF s = <<>> THEN 0 ELSE 4 + Head(s).l + SumItems(Tail(s))

(***************************************************************************)
(* Encoder: Message::serialize.  A TLV set with an odd-length value cannot *)
(* be serialised (TlvSet::wire_size debug assertion; a set is even-sized). *)
(***************************************************************************)
Serialisable(m) == \A i \in 1..Len(m.tlvs) : m.tlvs[i].l % 2 = 0
SerSize(m) == HeaderSize + BodySize(m.ty) + SumItems(m.tlvs)
Ser(m) == [ty |-> m.ty, hc |-> m.hc, bc |-> m.bc, items |-> m.tlvs,
           short |-> 0, junk |-> 0, ml |-> "exact", pad |-> 0, cut |-> "none"]

(***************************************************************************)
(* Datagram geometry.                                                      *)
(***************************************************************************)
Natural(d) == HeaderSize + BodySize(IF d.ty \in TypeSet THEN d.ty ELSE "Sync") + SumItems(d.items) - d.short + d.junk
CutLen(c) == CASE c = "h0" -> 0 [] c = "h1" -> 1 [] c = "h33" -> 33
BufLen(d) == IF d.cut # "none" THEN CutLen(d.cut) ELSE Natural(d) + d.pad
MsgLen(d) == CASE d.ml = "exact" -> Natural(d)
               [] d.ml = "zero" -> 0
               [] d.ml = "lt34" -> 33
               [] d.ml = "hdronly" -> 34
               [] d.ml = "cutbody" -> Natural(d) - 1      \* only used with items = <<>>: one byte short of the body
               [] d.ml = "beyond" -> Natural(d) + d.pad + 1

Err(kind) == [res |-> kind, msg |-> [ty |-> "", hc |-> "", bc |-> "", tlvs |-> <<>>], used |-> 0]

(***************************************************************************)
(* TLV suffix: TlvSet::deserialize (common/tlv.rs:74-100), INTENDED form:  *)
(* a TLV needs 4 header bytes, so the walk continues while at least 4      *)
(* bytes remain.  (The code at the time of writing continues only while    *)
(* MORE than 4 remain -- suspected defect F-13 -- see CodeWalk.)           *)
(* r = bytes of the suffix region not yet consumed, i = next item.         *)
(***************************************************************************)
RECURSIVE Walk(_, _, _, _)
Walk(items, i, r, min) ==
  IF r < min THEN (IF r = 0 THEN "ok" ELSE "short")
  ELSE IF i > Len(items) THEN "short"                       \* cannot happen for junk <= 3; kept total
  ELSE LET l == items[i].l IN
       IF l % 2 = 1 THEN "invalid"                          \* odd value length
       ELSE IF r - 4 < l THEN "short"                       \* length field overruns the message
       ELSE Walk(items, i + 1, r - 4 - l, min)

(***************************************************************************)
(* Decoder: Message::deserialize (messages/mod.rs:252-277) and             *)
(* Header::deserialize_header.                                             *)
(***************************************************************************)
ParseWith(d, min) ==
  LET bl == BufLen(d)  ml == MsgLen(d)  bs == BodySize(d.ty) IN
  IF bl < HeaderSize THEN Err("short")
  ELSE IF d.ty \notin TypeSet THEN Err("invalid")
  ELSE IF ml < HeaderSize THEN Err("invalid")
  ELSE IF ml > bl THEN Err("short")
  ELSE IF ml - HeaderSize < bs THEN Err("short")
  ELSE IF d.bc = "badnanos" /\ HasTimestamp(d.ty) THEN Err("invalid")
  ELSE LET w == Walk(d.items, 1, ml - HeaderSize - bs, min) IN
       IF w # "ok" THEN Err(w)
       ELSE [res |-> "ok", msg |-> [ty |-> d.ty, hc |-> d.hc, bc |-> d.bc, tlvs |-> d.items], used |-> ml]

Parse(d) == ParseWith(d, 4)
CodeParse(d) == ParseWith(d, 5)      \* `while buffer.len() > 4`: what the code does today (documentation of F-13)

\* a datagram whose first message_length bytes are the serialisation of a message
Canonical(d) == /\ d.ty \in TypeSet /\ d.bc # "badnanos" /\ d.short = 0 /\ d.junk = 0
                /\ d.ml = "exact" /\ d.cut = "none"
                /\ \A i \in 1..Len(d.items) : d.items[i].l % 2 = 0

(***************************************************************************)
(* C41.  (1) every serialisable message parses back to an equal message    *)
(* (equality includes the TLVs enumerated by TlvSet::tlvs -- a message     *)
(* that compares equal but enumerates other TLVs is not the same message); *)
(* (2) every message the decoder accepts re-serialises to the parsed       *)
(* prefix (message_length bytes) of the input; (3) the decoder is total    *)
(* (the byte-level part of (3) is explored by the harness: seeded          *)
(* mutations of the concretised classes, only oracle "no panic").          *)
(***************************************************************************)
C41_RoundTrip(m) ==
  Serialisable(m) => LET p == Parse(Ser(m)) IN p.res = "ok" /\ p.msg = m /\ p.used = SerSize(m)
C41_Reserialise(d) ==
  LET p == Parse(d) IN p.res = "ok" => /\ Serialisable(p.msg)
                                       /\ Ser(p.msg) = [d EXCEPT !.pad = 0]
                                       /\ p.used = Natural(d) /\ p.used <= BufLen(d)
C41_Total(d) == Parse(d).res \in {"ok", "invalid", "short"}
=============================================================================
