CONSTANTS
  BodyLens = {0, 2, 4, 12, 20, 24, 28, 516, 600}
  Tails = {0, 4, 24, 28}
  Contexts = {"none", "unk0"}
  Derived = FALSE
  Sealed = FALSE
INIT Init
NEXT Next
CHECK_DEADLOCK FALSE
INVARIANTS C24_RoundTrip C23_Total C25_Regions
