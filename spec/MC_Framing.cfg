CONSTANTS
  ShapeSample = "small"
INIT Init
NEXT Next
CHECK_DEADLOCK FALSE
INVARIANTS C38_FramingRule
