------------------------------- MODULE Packet -------------------------------
(***************************************************************************)
(* The NTP wire grammar of ntpd-rs with a transcribed decoder and encoder. *)
(*   ntp-proto/src/packet/mod.rs              NtpPacket::{deserialize,     *)
(*                                            serialize}                   *)
(*   ntp-proto/src/packet/extension_fields.rs RawExtensionField,           *)
(*       ExtensionFieldStreamer, ExtensionField::{decode, serialize},      *)
(*       ExtensionFieldData::{deserialize, serialize}                      *)
(*   ntp-proto/src/packet/mac.rs, packet/v5/mod.rs, v5/extension_fields.rs *)
(*                                                                         *)
(* A byte string is a sequence of RUNS [c, n]: n bytes of class c          *)
(*   "Z" zero bytes         "D" 0xA5 bytes (non-ASCII; as a field header:  *)
(*   "G" the draft id string    type 0xA5A5, length 42405)                 *)
(*   "W" ASCII 'x' bytes    "X" bytes the model does not track             *)
(*   "H" a 4-byte extension field header [k |-> kind, dl |-> declared len] *)
(* A datagram is [ver, hc (header class), body (runs after the 48-byte     *)
(* header)].  Every generated chunk has a length that is a multiple of 4,  *)
(* so every offset at which the decoder reads a field header is either the *)
(* start of an H run or inside data -- and 4 data bytes read as a header   *)
(* are always rejected (length 0, 42405 or an ASCII pair > any packet      *)
(* generated here).                                                        *)
(*                                                                         *)
(* Properties anchored here: C23 C24 C25.                                  *)
(***************************************************************************)
EXTENDS Naturals, Integers, Sequences, FiniteSets, TLC

Pad4(n) == ((n + 3) \div 4) * 4
Max(a, b) == IF a >= b THEN a ELSE b

Run(c, n) == [c |-> c, n |-> n, k |-> "", dl |-> 0]
H(k, dl)  == [c |-> "H", n |-> 4, k |-> k, dl |-> dl]

RECURSIVE Bytes(_)
Bytes(rs) == IF rs = <<>> THEN 0 ELSE Head(rs).n + Bytes(Tail(rs))

\* merge adjacent runs of one data class, drop empty runs
RECURSIVE Norm(_)
Norm(rs) ==
  IF rs = <<>> THEN <<>>
  ELSE LET h == Head(rs) t == Norm(Tail(rs)) IN
       IF h.n = 0 THEN t
       ELSE IF t # <<>> /\ h.c # "H" /\ Head(t).c = h.c THEN <<Run(h.c, h.n + Head(t).n)>> \o Tail(t)
       ELSE <<h>> \o t

\* a piece of a run; a piece of a header is class "X" (not tracked by the decoder model; k/dl kept so that a truncated
\* input can still be concretised: an X run of an input datagram is the first n bytes of that header)
Part(h, n) == IF h.c \in {"H", "X"} THEN [c |-> "X", n |-> n, k |-> h.k, dl |-> h.dl] ELSE Run(h.c, n)
RECURSIVE Drop(_, _)
Drop(rs, a) == IF a <= 0 \/ rs = <<>> THEN rs
               ELSE LET h == Head(rs) IN
                    IF h.n <= a THEN Drop(Tail(rs), a - h.n) ELSE <<Part(h, h.n - a)>> \o Tail(rs)
RECURSIVE Take(_, _)
Take(rs, b) == IF b <= 0 \/ rs = <<>> THEN <<>>
               ELSE LET h == Head(rs) IN
                    IF h.n <= b THEN <<h>> \o Take(Tail(rs), b - h.n) ELSE <<Part(h, b)>>
Slice(rs, a, b) == Norm(Take(Drop(rs, a), b - a))
AllZero(rs) == \A i \in 1..Len(rs) : rs[i].c = "Z"
HasX(rs) == \E i \in 1..Len(rs) : rs[i].c = "X"
HasH(rs) == \E i \in 1..Len(rs) : rs[i].c = "H"

(***************************************************************************)
(* Header classes.  v3/v4: every bit pattern is accepted.  v5: mode must   *)
(* be 3 or 4, timescale <= 3, flag bits 3..15 zero; the leap indicator is  *)
(* normalised from the synchronized flag (fix_leap_indicator).             *)
(* hc = [mode, leap, scaleOk, flagsOk, sync]                               *)
(***************************************************************************)
HdrErr(ver, hc) ==
  IF ver # 5 THEN ""
  ELSE IF hc.mode \notin {3, 4} THEN "v5mode"
  ELSE IF ~hc.scaleOk THEN "v5scale"
  ELSE IF ~hc.flagsOk THEN "v5flags"
  ELSE ""
HdrNorm(ver, hc) == IF ver = 5 /\ ~hc.sync THEN [hc EXCEPT !.leap = 3] ELSE hc

(***************************************************************************)
(* ExtensionField::decode on the message bytes of one raw field.           *)
(* Returns [err, f] with f = [kind, ty, data].  kind "invalid" is an NTS   *)
(* authenticator field that could not be opened (no keys in this model).   *)
(***************************************************************************)
V5Kinds == {"draft", "rreq", "rresp"}
\* does a run contain a byte >= 0x80?  Headers (and leading pieces of headers, class "X") that got inside a field's
\* message through an oversized declared length: type 0xF5xx for the NTPv5 kinds, then the two length bytes.
NonAscii(r) == \/ r.c = "D"
               \/ /\ r.c \in {"H", "X"}
                  /\ \/ r.k \in {"draft", "pad", "rreq", "rresp"}
                     \/ (r.n >= 3 /\ r.dl >= 32768)
                     \/ (r.n >= 4 /\ r.dl % 256 >= 128)
First4Zero(msg) == msg # <<>> /\ msg[1].c = "Z" /\ msg[1].n >= 4
Fld(kind, ty, data) == [kind |-> kind, ty |-> ty, data |-> data]
Field(k, msg, ver) ==
  CASE k = "ph" -> IF AllZero(msg) THEN [err |-> "", f |-> Fld("ph", k, msg)] ELSE [err |-> "placeholder", f |-> Fld("", "", <<>>)]
    [] k = "enc" ->   \* RawEncryptedField::from_message_bytes, then no cipher -> InvalidNtsEncryptedField
         IF Bytes(msg) < 4 \/ ~First4Zero(msg) THEN [err |-> "len", f |-> Fld("", "", <<>>)]
         ELSE [err |-> "", f |-> Fld("invalid", k, <<>>)]
    [] k = "draft" /\ ver = 5 ->
         IF \E i \in 1..Len(msg) : NonAscii(msg[i]) THEN [err |-> "v5draft", f |-> Fld("", "", <<>>)]
         ELSE [err |-> "", f |-> Fld("draft", k, msg)]
    [] k = "rreq" /\ ver = 5 ->
         IF Bytes(msg) < 2 THEN [err |-> "len", f |-> Fld("", "", <<>>)] ELSE [err |-> "", f |-> Fld("rreq", k, msg)]
    [] k = "rresp" /\ ver = 5 -> [err |-> "", f |-> Fld("rresp", k, msg)]
    [] k \in {"uid", "cookie"} -> [err |-> "", f |-> Fld(k, k, msg)]
    [] OTHER -> [err |-> "", f |-> Fld("unk", k, msg)]

(***************************************************************************)
(* ExtensionFieldStreamer + ExtensionFieldData::deserialize.               *)
(* v4: a remainder of <= 24 bytes is not parsed (it is the MAC);           *)
(* v5: fields until the end.                                               *)
(***************************************************************************)
RECURSIVE Walk(_, _, _, _)
Walk(body, o, ver, acc) ==
  LET rem == Bytes(body) - o
      cutoff == IF ver = 4 THEN 24 ELSE 0
  IN IF rem <= cutoff THEN [err |-> "", fields |-> acc, end |-> o]
     ELSE IF rem < 4 THEN [err |-> "len", fields |-> acc, end |-> o]
     ELSE LET rest == Drop(body, o)
              h == Head(rest)
          IN IF h.c # "H" \/ h.n # 4 THEN [err |-> "len", fields |-> acc, end |-> o]
             ELSE IF h.dl < 4 \/ (ver = 4 /\ h.dl % 4 # 0) \/ Pad4(h.dl) > rem THEN [err |-> "len", fields |-> acc, end |-> o]
             ELSE LET r == Field(h.k, Slice(rest, 4, h.dl), ver) IN
                  IF r.err # "" THEN [err |-> r.err, fields |-> acc, end |-> o]
                  ELSE Walk(body, o + Pad4(h.dl), ver, Append(acc, r.f))

IsDraftOk(f) == f.kind = "draft" /\ f.data = <<Run("G", 23)>>
FirstDraft(fs) == LET idx == { i \in 1..Len(fs) : fs[i].kind = "draft" } IN
                  IF idx = {} THEN 0 ELSE CHOOSE i \in idx : \A j \in idx : i <= j

\* NtpPacket::deserialize without keys.  Result [res, p]: res "ok" or "err:<class>"; p = [ver, hc, fields, mac].
NoPacket == [ver |-> 0, hc |-> <<>>, fields |-> <<>>, mac |-> <<>>]
Err(c) == [res |-> "err:" \o c, p |-> NoPacket]
Decode(d) ==
  IF d.total < 48 THEN (IF d.total = 0 \/ d.ver \in {3, 4, 5} THEN Err("len") ELSE Err("version"))
  ELSE IF d.ver \notin {3, 4, 5} THEN Err("version")
  ELSE IF HdrErr(d.ver, d.hc) # "" THEN Err(HdrErr(d.ver, d.hc))
  ELSE IF d.ver = 3 THEN
       LET n == Bytes(d.body) IN
       IF n = 0 THEN [res |-> "ok", p |-> [ver |-> 3, hc |-> d.hc, fields |-> <<>>, mac |-> <<>>]]
       ELSE IF n < 4 \/ n > 24 THEN Err("len")
       ELSE [res |-> "ok", p |-> [ver |-> 3, hc |-> d.hc, fields |-> <<>>, mac |-> Norm(d.body)]]
  ELSE LET w == Walk(d.body, 0, d.ver, <<>>)
           rem == Bytes(d.body) - w.end
       IN IF w.err # "" THEN Err(w.err)
          ELSE IF rem # 0 /\ (rem < 4 \/ rem > 24) THEN Err("len")
          \* (v5: the draft identification is checked on the decrypt-error path too, fix for finding F-4/v5)
          ELSE IF d.ver = 5 /\ (FirstDraft(w.fields) = 0 \/ ~IsDraftOk(w.fields[FirstDraft(w.fields)])) THEN Err("v5draft")
          ELSE IF \E i \in 1..Len(w.fields) : w.fields[i].kind = "invalid" THEN Err("decrypt")
          ELSE [res |-> "ok", p |-> [ver |-> d.ver, hc |-> HdrNorm(d.ver, d.hc), fields |-> w.fields,
                                     mac |-> Slice(d.body, w.end, Bytes(d.body))]]

\* Is the prediction exact?  Not when bytes the model does not track were looked at.
Weak(d) == HasX(d.body) \/ \E i \in 1..Len(d.body) : d.body[i].c = "H" /\ d.body[i].n # 4

(***************************************************************************)
(* Encoder: ExtensionFieldData::serialize (untrusted fields only: minimum  *)
(* sizes 16 / 28 for the last one in v4, 4 in v5), Mac::serialize.         *)
(* ReferenceIdRequest::serialize asserts payload_len % 4 = 0 ("panic").    *)
(***************************************************************************)
EncField(f, min, ver) ==
  LET n == Bytes(f.data) IN
  IF f.kind = "rreq" THEN
       \* (as repaired by the fix for finding F-5: offset, zero fill to the decoded payload length, word padding;
       \*  before the fix serialize asserted n % 4 = 0)
       <<H(f.ty, n + 4)>> \o Take(f.data, 2) \o <<Run("Z", n - 2), Run("Z", Pad4(n + 4) - n - 4)>>
  ELSE IF f.kind = "rresp" THEN <<H(f.ty, n + 4)>> \o f.data \o <<Run("Z", Pad4(n + 4) - n - 4)>>
  ELSE LET unp  == Max(n + 4, min)
           decl == IF ver = 4 THEN Pad4(unp) ELSE unp
       IN <<H(f.ty, decl)>> \o f.data \o <<Run("Z", Pad4(unp) - 4 - n)>>

RECURSIVE EncFields(_, _, _)
EncFields(fs, i, ver) ==
  IF i > Len(fs) THEN <<>>
  ELSE LET min == IF ver = 5 THEN 4 ELSE IF i = Len(fs) THEN 28 ELSE 16
       IN EncField(fs[i], min, ver) \o EncFields(fs, i + 1, ver)

Panics(rs) == \E i \in 1..Len(rs) : rs[i].c = "PANIC"
\* Encode(p) = the datagram; res "ok" | "panic"
Encode(p) ==
  LET body == IF p.ver = 3 THEN p.mac ELSE EncFields(p.fields, 1, p.ver) \o p.mac IN
  IF Panics(body) THEN [res |-> "panic", d |-> [ver |-> p.ver, hc |-> p.hc, body |-> <<>>, total |-> 0]]
  ELSE [res |-> "ok", d |-> [ver |-> p.ver, hc |-> p.hc, body |-> Norm(body), total |-> 48 + Bytes(body)]]

(***************************************************************************)
(* C24: every accepted datagram can be encoded; after that one normalising *)
(* round the encoding is a fixed point.                                    *)
(* Reading taken: "the same packet" is the packet obtained from the        *)
(* re-encoded bytes (fields shorter than the RFC 7822 minimum grow once).  *)
(* F5Class: accepted NTPv5 reference-id requests whose payload length is   *)
(* not a multiple of 4 -- the transcribed encoder asserts (finding F-5);   *)
(* they are excluded from the model-level invariant and reported by the    *)
(* replay on the real code.                                                *)
(***************************************************************************)
F5Class(p) == \E i \in 1..Len(p.fields) : p.fields[i].kind = "rreq" /\ Bytes(p.fields[i].data) % 4 # 0
RoundTrip(d) ==   \* "n/a" (not accepted) | "ok" | "encode" | "redecode" | "unstable"
  LET r == Decode(d) IN
  IF r.res # "ok" THEN "n/a"
  ELSE LET e1 == Encode(r.p) IN
       IF e1.res # "ok" THEN "encode"
       ELSE LET r1 == Decode(e1.d) IN
            IF r1.res # "ok" THEN "redecode"
            ELSE LET e2 == Encode(r1.p) IN
                 IF e2.res # "ok" \/ e2.d # e1.d THEN "unstable"
                 ELSE IF Decode(e2.d) # r1 THEN "unstable" ELSE "ok"
C24_Case(d) == (~Weak(d) /\ Decode(d).res = "ok") => RoundTrip(d) = "ok"

(***************************************************************************)
(* C25: regions of a sealed datagram                                       *)
(*   header | pre (fields before the authenticator) | ahdr (its type and   *)
(*   length words) | lens (nonce / ciphertext length words) | nonce | npad *)
(*   | ct | cpad | after                                                   *)
(* and the design of the authenticated region: the associated data is      *)
(* everything before the authenticator field; nonce and ciphertext are     *)
(* inputs of the AEAD; the authenticator's own four length words decide    *)
(* which bytes are taken as nonce and ciphertext; paddings and whatever    *)
(* follows are not looked at by the AEAD.                                  *)
(* The harness measures the byte range of every region on each concrete    *)
(* sealed datagram and looks the expectation up here.                      *)
(***************************************************************************)
RegionOrder == <<"header", "pre", "ahdr", "lens", "nonce", "npad", "ct", "cpad", "after">>
Regions == { RegionOrder[i] : i \in 1..9 }
\* what the AEAD is given after a modification in region r: does any of its three inputs differ from sealing time?
InAad(r) == r \in {"header", "pre"}
AeadInputChanged(r) == InAad(r) \/ r \in {"nonce", "ct"}
\* outcome of decoding the tampered datagram with the right key, on the design level:
\*  "none": nothing authenticated / encrypted / no cookie keys (error or unauthenticated packet)
\*  "same": the original authenticated and encrypted content
\*  "none|same": depends on the changed value (a length word may still select the same bytes; never other content,
\*               because any other nonce/ciphertext slice is a changed AEAD input)
Outcome(r) == IF AeadInputChanged(r) THEN "none"
              ELSE IF r \in {"ahdr", "lens"} THEN "none|same"
              ELSE "same"
\* the expectation the replay enforces, per region (C25 as stated)
Expect(r) == IF r \in {"header", "pre", "nonce", "ct"} THEN "none" ELSE "none|same"
Allowed(e) == IF e = "none" THEN {"none"} ELSE {"none", "same"}
C25_Region(r) == /\ (r \in {"header", "pre", "nonce", "ct"} <=> AeadInputChanged(r))
                 /\ (Outcome(r) = "none" \/ Outcome(r) = "same" \/ Outcome(r) = "none|same")
                 /\ (Outcome(r) = "none" => Expect(r) = "none")
                 /\ (Outcome(r) \in {"same", "none|same"} => Expect(r) = "none|same")
=============================================================================
