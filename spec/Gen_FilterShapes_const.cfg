CONSTANTS
  BaseOffsets = {"zero", "jit", "sec"}
  BaseDelays = {"min", "ms", "ms3", "ms7", "ms10", "ms33", "ms100"}
  BaseGaps = {"sec", "long"}
  TailOffsets = {"zero", "jit"}
  TailDelays = {"min", "ms", "ms7", "ms100"}
  TailGaps = {"sec"}
  TailDisps = {"zero"}
  TailLen = 2
  Reps = 4
INIT GenInit
NEXT GenNext
CHECK_DEADLOCK FALSE
