----------------------------- MODULE MC_NtsKe -----------------------------
(***************************************************************************)
(* Bounded configuration of NtsKe.tla part 1 (C29): token configurations,  *)
(* permit pools, the request alphabet, the invariants and the transition   *)
(* printer used to generate implementation tests.                          *)
(***************************************************************************)
EXTENDS NtsKe, Json

CONSTANTS TokenCfgs,   \* subset of {"none", "one", "two"}
          Permits,     \* initial numbers of long-lived slots
          ReqToks,     \* token classes used in requests
          ReqShapes    \* request shapes

Acts == { [t |-> "Req", c |-> c, kind |-> k, tok |-> tk, ka |-> ka, shape |-> sh] :
            c \in 1..NConns, k \in Kinds, tk \in ReqToks, ka \in BOOLEAN, sh \in ReqShapes }
        \cup { [t |-> "Close", c |-> c] : c \in 1..NConns }

Inits == { InitState(tc, p) : tc \in TokenCfgs, p \in Permits }
Init == st \in Inits
Next == \E a \in Acts : Enabled(st, a) /\ st' = Post(st, a)
Spec == Init /\ [][Next]_vars

TypeOK == /\ st.free \in 0..st.permits
          /\ \A c \in 1..NConns : st.conns[c].phase \in {"new", "keptOpen", "closed"} /\ st.conns[c].n \in 0..MaxReq

C29_PoolRequestsNeedToken == (\A a \in Acts : C29_Step(st, a)) /\ C29_Permits(st)

\* ---- test generation: print every explored transition once ----
GenInit == Init /\ PrintT(<<"INIT", ToJson(st)>>) /\ PrintT(<<"CONES", ToJson(ConeTable)>>)
GenNext == \E a \in Acts :
             /\ Enabled(st, a)
             /\ st' = Post(st, a)
             /\ PrintT(<<"EDGE", ToJson([pre |-> st, act |-> a, post |-> st', out |-> Out(st, a),
                                          ck |-> ConeKeyStr(ConeKey(st, a))])>>)
=============================================================================
