CONSTANTS
  W = 4
  Count = 1
  Ignore = {}
  Addr = {1, 2, 3}
  MaxAns = 2
INIT GenInit
NEXT GenNext
CHECK_DEADLOCK FALSE
INVARIANTS TypeOK C36_Standard
