---------------------------- MODULE CookiePlain ----------------------------
(***************************************************************************)
(* What the server's cookie keys accept as the PLAINTEXT of a cookie       *)
(*   ntp-proto/src/keyset.rs  KeySet::decode_cookie (after decryption)     *)
(* A cookie that authenticates under a key the server holds decodes iff    *)
(* its plaintext is a known algorithm id followed by exactly two keys of   *)
(* that algorithm's width; anything else is a decryption error - never a   *)
(* panic (C23: decoding with the server's cookie keys is total, also for   *)
(* "structurally valid encrypted-field layouts").  The cookies are made by *)
(* the harness with the key set's own primary key (or come from an older   *)
(* / foreign software version), so authenticity says nothing about shape.  *)
(* Pure enumeration: TLC evaluates Decodes on alg x length classes, the    *)
(* harness runs each on the real KeySet, alone and inside a sealed request.*)
(***************************************************************************)
EXTENDS Naturals, Sequences, TLC, Json

CONSTANTS Algs, Lens      \* algorithm ids (15 = AES-SIV-CMAC-256, 17 = -512), key payload lengths after the id

KeyWidth(a) == IF a = 15 THEN 32 ELSE IF a = 17 THEN 64 ELSE 0
Known(a) == KeyWidth(a) > 0
Decodes(a, n) == Known(a) /\ n = 2 * KeyWidth(a)

\* plaintexts shorter than the algorithm id: "none" (empty), "one" (a single byte)
ShortPlain == {"none", "one"}

\* C23 on the model: the verdict is a total function (every class has one), and only well-shaped plaintexts decode
C23_PlainTotal == \A a \in Algs, n \in Lens : Decodes(a, n) \in BOOLEAN
C23_OnlyWellShaped == \A a \in Algs, n \in Lens : Decodes(a, n) => (a \in {15, 17} /\ n \in {64, 128})

VARIABLE done
Init == done = FALSE
Next == ~done /\ done' = TRUE
        /\ \A a \in Algs, n \in Lens : PrintT(<<"PCASE", ToJson([alg |-> a, len |-> n, short |-> "", ok |-> Decodes(a, n)])>>)
        /\ \A s \in ShortPlain : PrintT(<<"PCASE", ToJson([alg |-> 0, len |-> 0, short |-> s, ok |-> FALSE])>>)
=============================================================================
