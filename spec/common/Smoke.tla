---- MODULE Smoke ----
EXTENDS Naturals, Json, TLC
VARIABLE x
Init == x = 0
Next == x < 3 /\ x' = x + 1
Inv == x <= 3 /\ ToJson([a |-> x]) # ""
====
