CONSTANTS
  Cutoff = 3
INIT TraceInit
NEXT TraceNext
CHECK_DEADLOCK FALSE
