-------------------------------- MODULE Stash --------------------------------
(***************************************************************************)
(* The NTS cookie jar (ntp-proto/src/cookiestash.rs) with cookie           *)
(* identities: store(c) appends, evicting the oldest when eight are held;  *)
(* get() yields the oldest.  Source.tla uses the same discipline on        *)
(* sequences; here identities are explicit so that "each cookie is yielded *)
(* at most once, oldest first, newest eight kept" are checked directly     *)
(* (C13), and every explored transition is replayed on the real            *)
(* CookieStash.                                                            *)
(***************************************************************************)
EXTENDS Naturals, Sequences, FiniteSets, TLC, Json

CONSTANTS MaxId            \* cookies are numbered 1..MaxId in order of arrival
Cap == 8

VARIABLES st    \* [q: Seq of ids held (oldest first), next: next id to arrive, yielded: set of ids handed out]
vars == <<st>>

KeepNewest(q) == IF Len(q) <= Cap THEN q ELSE SubSeq(q, Len(q) - Cap + 1, Len(q))

Post(s, a) == CASE a.t = "Store" -> [s EXCEPT !.q = KeepNewest(Append(s.q, s.next)), !.next = s.next + 1]
                [] a.t = "Get" -> IF Len(s.q) = 0 THEN s
                                  ELSE [s EXCEPT !.q = Tail(s.q), !.yielded = s.yielded \cup {Head(s.q)}]
Out(s, a) == CASE a.t = "Store" -> [got |-> 0, gap |-> Cap - Len(Post(s, a).q), len |-> Len(Post(s, a).q)]
               [] a.t = "Get" -> [got |-> IF Len(s.q) = 0 THEN 0 ELSE Head(s.q),
                                  gap |-> Cap - Len(Post(s, a).q), len |-> Len(Post(s, a).q)]

Acts == {[t |-> "Store"], [t |-> "Get"]}
Init == st = [q |-> <<>>, next |-> 1, yielded |-> {}]
Next == \E a \in Acts : (a.t = "Store" => st.next <= MaxId) /\ st' = Post(st, a)

\* C13: never more than eight, oldest first (ids strictly increasing), each yielded at most once,
\* what is held are the newest arrivals not yet yielded
C13_StashDiscipline ==
  /\ Len(st.q) <= Cap
  /\ \A i \in 1..Len(st.q) - 1 : st.q[i] < st.q[i + 1]
  /\ \A i \in 1..Len(st.q) : st.q[i] \notin st.yielded
  /\ (Len(st.q) > 0 => st.q[Len(st.q)] = st.next - 1)
  /\ \A i \in 1..Len(st.q) - 1 : st.q[i + 1] = st.q[i] + 1
C13_GetYieldsOldestOnce == \A a \in {[t |-> "Get"]} :
  LET o == Out(st, a) IN (o.got # 0) => (o.got = Head(st.q) /\ o.got \notin st.yielded /\ \A i \in 1..Len(st.q) : o.got <= st.q[i])

GenInit == Init /\ PrintT(<<"INIT", ToJson([q |-> st.q, next |-> st.next])>>)
GenNext == \E a \in Acts : /\ (a.t = "Store" => st.next <= MaxId) /\ st' = Post(st, a)
                           /\ PrintT(<<"EDGE", ToJson([pre |-> [q |-> st.q, next |-> st.next], act |-> a,
                                                        post |-> [q |-> st'.q, next |-> st'.next], out |-> Out(st, a),
                                                        cones |-> [C13 |-> {"q", "out.got", "out.gap", "out.len", "panic"}]])>>)
View == <<st.q, st.next>>
=============================================================================
