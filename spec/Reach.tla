-------------------------------- MODULE Reach --------------------------------
(***************************************************************************)
(* Refinement lemma used by Source.tla: the 8-bit reach shift register of  *)
(* source.rs (shifted left on every poll, lowest bit set on every usable   *)
(* answer) is exactly abstracted by `since` = number of polls since the    *)
(* last usable answer, saturating at 8:                                    *)
(*     is_reachable()      <=>  since <= 7                                 *)
(*     unanswered_polls()   =   since     (trailing zeros, 8 for zero)     *)
(* TLC explores every reachable register value (all 256) with both views   *)
(* updated side by side and checks the correspondence in every state.      *)
(***************************************************************************)
EXTENDS Naturals

VARIABLES reg, since
vars == <<reg, since>>

Init == reg = 0 /\ since = 8
Poll == reg' = (reg * 2) % 256 /\ since' = IF since >= 8 THEN 8 ELSE since + 1
Recv == reg' = (IF reg % 2 = 1 THEN reg ELSE reg + 1) /\ since' = 0
Next == Poll \/ Recv
Spec == Init /\ [][Next]_vars

RECURSIVE TZ(_)
TZ(r) == IF r = 0 THEN 8 ELSE IF r % 2 = 1 THEN 0 ELSE 1 + TZ(r \div 2)

C11_ReachAbstraction == /\ (reg # 0) <=> (since <= 7)
                        /\ TZ(reg) = since
                        /\ reg \in 0..255
=============================================================================
