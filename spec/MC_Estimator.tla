---------------------------- MODULE MC_Estimator ----------------------------
EXTENDS Estimator, Json

VARIABLE st
vars == <<st>>

LinkRecs(s) == s.links
Acts(s) ==
  { [t |-> "AddClock"], [t |-> "AddExt"] }
  \cup { [t |-> "RemoveClock", x |-> x] : x \in Ids } \cup { [t |-> "RemoveExt", x |-> x] : x \in Ids }
  \cup { [t |-> "AddLink", a |-> a, b |-> b, k |-> k] : a \in Ids, b \in Ids, k \in {"tracked", "untracked"} }
  \cup { [t |-> tt, l |-> l] : tt \in {"RemoveLink", "Measure", "Activate", "Back"}, l \in LinkRecs(s) }
  \cup { [t |-> "Steer", x |-> x] : x \in Ids }

\* failing AddLink variants are the same for both link kinds: keep one
Pruned(s, a) == a.t = "AddLink" /\ Res(s, a) # "ok" /\ a.k = "untracked"

Init == st = Init0
Next == \E a \in Acts(st) : Enabled(st, a) /\ ~Pruned(st, a) /\ st' = Post(st, a)
Spec == Init /\ [][Next]_vars

TypeOK == /\ Len(st.kind) <= MaxIds /\ st.kind[1] = "int" /\ Cardinality(Live(st)) <= MaxInt
          /\ Cardinality(st.links) <= MaxLinks /\ \A l \in st.links : Known(st, l.a) /\ Known(st, l.b) /\ l.a < l.b
          /\ st.hot \subseteq Live(st)
C42_UnrelatedEstimatesIntact == \A a \in Acts(st) : Enabled(st, a) => C42_Step(st, a)

GenInit == Init /\ PrintT(<<"INIT", ToJson(st)>>) /\ PrintT(<<"CONES", ToJson(ConeTable)>>)
GenNext == \E a \in Acts(st) :
             /\ Enabled(st, a) /\ ~Pruned(st, a)
             /\ st' = Post(st, a)
             /\ PrintT(<<"EDGE", ToJson([pre |-> st, act |-> a, post |-> st', out |-> Out(st, a), ck |-> ConeKey(st, a)])>>)
=============================================================================
