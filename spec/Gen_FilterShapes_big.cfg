CONSTANTS
  BaseOffsets = {"zero", "sec", "alt", "maxneg", "maxpos"}
  BaseDelays = {"zero", "ms", "big"}
  BaseGaps = {"ms", "sec", "long"}
  TailOffsets = {"zero", "unit", "msneg", "sec", "maxpos", "maxneg"}
  TailDelays = {"neg", "min", "big", "max"}
  TailGaps = {"ms", "sec", "long"}
  TailDisps = {"zero", "max"}
  TailLen = 2
  Reps = 3
INIT GenInit
NEXT GenNext
CHECK_DEADLOCK FALSE
