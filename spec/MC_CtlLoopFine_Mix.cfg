CONSTANTS
  N = 2
  OneWay = {1}
  MaxMeas = 2
  MaxChan = 3
  UsableVals = {TRUE, FALSE}
  Steers = {TRUE}
  Arms = {TRUE}
INIT Init
NEXT Next
CHECK_DEADLOCK FALSE
INVARIANTS C37_StepHoldsFine C37_InvariantFine TodoLive
