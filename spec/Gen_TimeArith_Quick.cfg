CONSTANTS
  W = 8
  Bs = "rep"
INIT GenInit
NEXT GenNext
CHECK_DEADLOCK FALSE
INVARIANTS C32_TimeArithmetic
