----------------------------- MODULE SteerCases -----------------------------
(***************************************************************************)
(* C43, the steering decision of statime-algo's KalmanController on a      *)
(* confidently measured offset (steer_clocks): an offset between 5 sigma   *)
(* and 10 s is removed by a frequency change of offset/8 (plus the         *)
(* estimated frequency error), clamped to the clock's maximum frequency,   *)
(* otherwise by a step; and the controller's own frequency estimate must   *)
(* move by the change that was APPLIED (the clamped one), not by the one   *)
(* it wanted.                                                              *)
(* Case = first measurement of a fresh controller over an untracked link   *)
(* to a trusted external clock: offset o * 10^-5 s (system clock ahead),   *)
(* clock limit m * 10^-6.  All values in units of 10^-9 (ppb) so that the  *)
(* clamp is exact integer arithmetic.                                      *)
(***************************************************************************)
EXTENDS Integers, Json, TLC

Offsets == {10, 50, 500, 5000, 100000, -10, -500}      \* 1e-4 .. 1 s, and negative ones (the code steps those)
Limits  == {10, 100, 500}                               \* 10, 100, 500 ppm

Wanted(o) == -1250 * o                                  \* -(o * 1e-5) / 8 in ppb
Clamp(x, m) == IF x > 1000 * m THEN 1000 * m ELSE IF x < -1000 * m THEN -1000 * m ELSE x
Kind(o, m) == IF o <= 0 THEN "step"                     \* `offset > 5 sigma` has no abs(): negative offsets are stepped
              ELSE IF Clamp(Wanted(o), m) = Wanted(o) THEN "slew" ELSE "saturated"
Case(o, m) == [o |-> o, m |-> m, kind |-> Kind(o, m), applied |-> IF Kind(o, m) = "step" THEN 0 ELSE Clamp(Wanted(o), m)]

\* C43 on the model: what is set on the clock never exceeds its limit, and is the wanted change whenever that fits
C43_SteerWithinLimit == \A o \in Offsets, m \in Limits :
   LET c == Case(o, m) IN /\ c.applied <= 1000 * m /\ c.applied >= -1000 * m
                          /\ (c.kind = "slew" => c.applied = Wanted(o))
                          /\ (c.kind = "saturated" => c.applied \in {1000 * m, -1000 * m})

VARIABLE done
Init == done = FALSE
Next == ~done /\ done' = TRUE /\ \A o \in Offsets, m \in Limits : PrintT(<<"SCASE", ToJson(Case(o, m))>>)
=============================================================================
