------------------------------- MODULE Csptp -------------------------------
(***************************************************************************)
(* Client-server PTP (CSPTP) as implemented by statime-csptp.              *)
(*                                                                         *)
(* SERVER part (statime-csptp/src/server.rs handle_packet, messages.rs     *)
(* CsptpMessage::deserialize / new_response / new_follow_up): one step     *)
(* function SrvOut(state, datagram) -> the datagrams handed to the         *)
(* ServerSocket.  Property C45.                                            *)
(*                                                                         *)
(* CLIENT part (statime-csptp/src/source.rs CsptpSource::run and           *)
(* collect_response): the RequestState machine of one source over          *)
(* successive requests; CliPost / CliOut.  Property C44.                   *)
(*                                                                         *)
(* Numbers that do not fit TLC's integers are value CLASSES; the harness   *)
(* (harness/ext/src/csptp_server.rs, csptp_client.rs) maps them to         *)
(* concrete values and back:                                               *)
(*   timestamps  "zero" = 0 s 0 ns, "max" = 2^48-1 s 999999999 ns, other   *)
(*               names = distinct mid-range values                         *)
(*   corrections "zero", "pos1"/"neg1" = +-1 ns, "max"/"min" = i64::MAX /  *)
(*               i64::MIN scaled nanoseconds (+2^47-1 ns / -2^47 ns)       *)
(***************************************************************************)
EXTENDS Naturals, Integers, Sequences, FiniteSets, TLC

(***************************************************************************)
(*                              SERVER                                     *)
(* Datagram d: parse ("ok" | "garbage" | "truncated" | "badnanos"),        *)
(*   sdo ("csptp" = 0x300 | "other"), major (2 | 1), body (message type),  *)
(*   tlvs: sequence of TLV classes                                         *)
(*     "req"       CsptpRequest with a 4-byte value (flags in byte 0)      *)
(*     "req_empty" CsptpRequest with an empty value (not a valid one)      *)
(*     "resp"      CsptpResponse with its 18-byte value                    *)
(*     "resp_short" CsptpResponse with a 10-byte value (not a valid one)   *)
(*     "status"    CsptpStatus, "pad" a Pad TLV with a 2-byte value        *)
(*   domain, seq (small integers standing for themselves), corr (class),   *)
(*   twostep, wantStatus (bit 0 of the request flags), pad (bytes after    *)
(*   message_length).                                                      *)
(* Server state s: pts, tt, ft (timescale / traceability flags of the      *)
(*   manager's configuration), rt (class of the receive timestamp the      *)
(*   socket reports), ev (what send_event returns: "err" or a timestamp    *)
(*   class).                                                               *)
(***************************************************************************)
Count(seq, S) == Cardinality({ i \in 1..Len(seq) : seq[i] \in S })

\* CsptpMessage::deserialize (messages.rs:57-103)
SrvAccepts(d) ==
  /\ d.parse = "ok" /\ d.sdo = "csptp" /\ d.major = 2
  /\ \/ d.body = "FollowUp"
     \/ /\ d.body = "Sync"
        /\ Count(d.tlvs, {"req", "req_empty"}) + Count(d.tlvs, {"resp", "resp_short"}) = 1
        /\ Count(d.tlvs, {"req_empty"}) = 0 /\ Count(d.tlvs, {"resp_short"}) = 0

\* is_request (messages.rs:105-112): the well-formed CSPTP requests
WellFormedRequest(d) == SrvAccepts(d) /\ d.body = "Sync" /\ Count(d.tlvs, {"req"}) = 1

NoMsg == [kind |-> "none", domain |-> -1, seq |-> -1, twostep |-> FALSE, ingress |-> "", reqcorr |-> "", origin |-> "",
          status |-> FALSE, pts |-> FALSE, tt |-> FALSE, ft |-> FALSE]

\* new_response (messages.rs:141-199) with send_timestamp = None: always a two-step answer
Response(s, d) ==
  [NoMsg EXCEPT !.kind = "response", !.domain = d.domain, !.seq = d.seq, !.twostep = TRUE,
                !.ingress = s.rt, !.reqcorr = d.corr, !.origin = "zero", !.status = d.wantStatus,
                !.pts = s.pts, !.tt = s.tt, !.ft = s.ft]
\* new_follow_up (messages.rs:201-227)
FollowUp(s, d) ==
  [NoMsg EXCEPT !.kind = "followup", !.domain = d.domain, !.seq = d.seq, !.twostep = TRUE, !.origin = s.ev]

\* handle_packet (server.rs:63-127)
SrvOut(s, d) ==
  IF ~WellFormedRequest(d) THEN [nsend |-> 0, ev |-> NoMsg, fu |-> NoMsg]
  ELSE IF s.ev = "err" THEN [nsend |-> 1, ev |-> Response(s, d), fu |-> NoMsg]
  ELSE [nsend |-> 2, ev |-> Response(s, d), fu |-> FollowUp(s, d)]

(***************************************************************************)
(* C45: a datagram is answered iff it is a well-formed CSPTP request; the  *)
(* answer (on the event socket) carries the request's domain and sequence  *)
(* id, the request's reception time and correction field and announces a   *)
(* follow-up; the follow-up (general socket) carries the same ids and the  *)
(* time send_event reported.  Reading taken: when send_event fails there   *)
(* is no send time, hence no follow-up.                                    *)
(***************************************************************************)
C45_Step(s, d) ==
  LET o == SrvOut(s, d) IN
  /\ (o.nsend > 0) <=> WellFormedRequest(d)
  /\ o.nsend > 0 => /\ o.ev.kind = "response" /\ o.ev.domain = d.domain /\ o.ev.seq = d.seq
                    /\ o.ev.ingress = s.rt /\ o.ev.reqcorr = d.corr /\ o.ev.twostep
                    /\ (o.nsend = 2) <=> (s.ev # "err")
  /\ o.nsend = 2 => /\ o.fu.kind = "followup" /\ o.fu.domain = d.domain /\ o.fu.seq = d.seq /\ o.fu.origin = s.ev
SrvCone == {"panic", "nsend", "ev_kind", "ev_domain", "ev_seq", "ev_ingress", "ev_reqcorr", "ev_twostep",
            "fu_kind", "fu_domain", "fu_seq", "fu_origin"}

(***************************************************************************)
(*                              CLIENT                                     *)
(* State: req   index of the request in flight (its sequence id is req-1)  *)
(*        rs    "WaitResp" | "WaitFollowUp" | "HaveFollowUp" (RequestState)*)
(*              | "Idle" (measurement delivered, socket dropped until the  *)
(*              next poll)                                                 *)
(*        keep  what the RequestState variant remembers: for WaitFollowUp  *)
(*              the response's correction / echoed request correction /    *)
(*              tag, for HaveFollowUp the follow-up's origin class,        *)
(*              correction and tag                                         *)
(*        got   number of measurements delivered for this request          *)
(* Datagram p: kind "resp1" (one-step response) | "resp2" (two-step        *)
(*   response) | "followup" | "request" | "otherptp" (CSPTP sdo, other     *)
(*   message type) | "garbage" | "resp_nots" (response received without a  *)
(*   receive timestamp); match "match" | "wrongseq" | "wrongdomain";       *)
(*   t3 origin timestamp class (resp1, followup); corr header correction   *)
(*   class; reqcorr echoed request correction class (responses); status    *)
(*   (a CsptpStatus TLV is attached).                                      *)
(* Actions: [t |-> "Recv", p |-> p], [t |-> "Timeout"] (time passes until  *)
(*   the next request has been sent).                                      *)
(***************************************************************************)
NoKeep == [corr |-> "", reqcorr |-> "", t3 |-> ""]
CliInit == [req |-> 1, rs |-> "WaitResp", keep |-> NoKeep, got |-> 0]

Weight(c) == CASE c = "min" -> -100 [] c = "neg1" -> -1 [] c = "zero" -> 0 [] c = "pos1" -> 1 [] c = "max" -> 99
\* the sign of the weight sum is the sign of the (saturating) sum of the corrections in nanoseconds
RECURSIVE WSum(_)
WSum(cs) == IF cs = <<>> THEN 0 ELSE Weight(Head(cs)) + WSum(Tail(cs))
\* does timestamp class t plus the corrections cs stay inside 0 .. 2^48 s ?
InRange(t, cs) == CASE t = "zero" -> WSum(cs) >= 0 [] t = "max" -> WSum(cs) <= 0 [] OTHER -> TRUE

Relevant(p) == p.kind \in {"resp1", "resp2", "followup"} /\ p.match = "match"

NoMeas == [n |-> 0, t3 |-> "", rcorr |-> <<>>, reqcorr |-> "", inrange |-> TRUE]
Meas(t3, rcorr, reqcorr) == [n |-> 1, t3 |-> t3, rcorr |-> rcorr, reqcorr |-> reqcorr, inrange |-> InRange(t3, rcorr)]

\* collect_response (source.rs:250-425): the measurement completed by datagram p in state s, if any
CliMeas(s, p) ==
  IF s.rs = "Idle" \/ ~Relevant(p) THEN NoMeas
  ELSE CASE p.kind = "resp1" -> Meas(p.t3, <<p.corr>>, p.reqcorr)
         [] p.kind = "resp2" -> IF s.rs = "HaveFollowUp" THEN Meas(s.keep.t3, <<s.keep.corr, p.corr>>, p.reqcorr) ELSE NoMeas
         [] p.kind = "followup" -> IF s.rs = "WaitFollowUp" THEN Meas(p.t3, <<s.keep.corr, p.corr>>, s.keep.reqcorr) ELSE NoMeas

CliPost(s, a) ==
  IF a.t = "Timeout" THEN [req |-> s.req + 1, rs |-> "WaitResp", keep |-> NoKeep, got |-> 0]
  ELSE LET p == a.p  m == CliMeas(s, p) IN
       IF m.n = 1 THEN [s EXCEPT !.rs = "Idle", !.keep = NoKeep, !.got = s.got + 1]
       ELSE IF s.rs = "Idle" \/ ~Relevant(p) THEN s
       ELSE IF s.rs = "WaitResp" /\ p.kind = "resp2"
            THEN [s EXCEPT !.rs = "WaitFollowUp", !.keep = [corr |-> p.corr, reqcorr |-> p.reqcorr, t3 |-> ""]]
       ELSE IF s.rs = "WaitResp" /\ p.kind = "followup"
            THEN [s EXCEPT !.rs = "HaveFollowUp", !.keep = [corr |-> p.corr, reqcorr |-> "", t3 |-> p.t3]]
       ELSE s                                                  \* duplicates

\* observable effect of one action: the measurement handed to the controller, the request sent
CliOut(s, a) ==
  IF a.t = "Timeout" THEN [meas |-> NoMeas, newreq |-> s.req + 1]
  ELSE [meas |-> CliMeas(s, a.p), newreq |-> 0]

(***************************************************************************)
(* C44: a measurement is produced only by a datagram of the current        *)
(* request (matching domain and sequence id) that is a response or a       *)
(* follow-up, completing a response (+ follow-up for two-step, either      *)
(* order), and at most once per request; nothing panics.  Reading taken:   *)
(* "only from" -- the property does not oblige the client to produce a     *)
(* measurement, so the cone holds "a measurement the specification does    *)
(* not allow" (meas_extra), the provenance of a delivered measurement      *)
(* (meas_src) and panics, not a missing measurement (meas_missing).  When  *)
(* the corrected send time leaves the 48-bit seconds range the value of    *)
(* the measurement is unconstrained: only the absence of a panic is        *)
(* required.                                                               *)
(***************************************************************************)
C44_Step(s, a) ==
  LET o == CliOut(s, a) IN
  /\ o.meas.n <= 1
  /\ o.meas.n = 1 => /\ a.t = "Recv" /\ Relevant(a.p) /\ s.rs # "Idle" /\ s.got = 0
                     /\ a.p.kind = "resp1" \/ (a.p.kind = "resp2" /\ s.rs = "HaveFollowUp")
                                           \/ (a.p.kind = "followup" /\ s.rs = "WaitFollowUp")
C44_AtMostOnce(s) == s.got <= 1

CliConeKey(s, a) == IF a.t = "Timeout" THEN "timeout"
                    ELSE IF CliMeas(s, a.p).n = 1 THEN (IF CliMeas(s, a.p).inrange THEN "meas" ELSE "overflow")
                    ELSE "nomeas"
CliConesOf(k) ==
  CASE k = "timeout"  -> [C44 |-> {"panic", "out.meas_extra"}]
    [] k = "nomeas"   -> [C44 |-> {"panic", "out.meas_extra"}]
    [] k = "meas"     -> [C44 |-> {"panic", "out.meas_extra", "out.meas_src"}]
    [] k = "overflow" -> [C44 |-> {"panic", "out.meas_extra"}]
CliConeTable == [k \in {"timeout", "nomeas", "meas", "overflow"} |-> CliConesOf(k)]
=============================================================================
