CONSTANTS
  History = 2
  M = 8
  InitOffset = 6
  InitKeys = 3
  Trunc = TRUE
  MaxGen = 2
  MaxCookies = 1
  MaxFaults = 1
  WithDecode = {"intact"}
  WithStore = FALSE
  WithFaults = TRUE
INIT GenInit
NEXT GenNext
CHECK_DEADLOCK FALSE
INVARIANTS TypeOK C26_CookieWindow C27_CleanRestoreInv C27_CrashAtomicity C27_StartsUsable
