CONSTANTS
  AsCoded = FALSE
  OnlyPath = "any"
  OnlySize40 = FALSE
  OnlyFinite = FALSE
INIT GenInit
NEXT GenNext
CHECK_DEADLOCK FALSE
INVARIANTS C40_Validated

