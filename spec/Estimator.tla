----------------------------- MODULE Estimator -----------------------------
(***************************************************************************)
(* Bookkeeping of the multi-clock estimator of statime-algo as seen        *)
(* through the public KalmanController / KalmanLink API                    *)
(* (statime-algo/src/lib.rs, filter.rs add_* / remove_*, estimator.rs      *)
(* index bookkeeping and splice/extend).  Properties C42 and C43.          *)
(*                                                                         *)
(* Numeric estimates are opaque (DESIGN 5.4): the specification tracks     *)
(* which clocks exist, which links exist and WHICH ESTIMATES AN OPERATION  *)
(* MAY CHANGE; the harness (harness/ext/src/estimator.rs) snapshots the    *)
(* real numbers (f64::to_bits of value and uncertainty of clock_offset and *)
(* clock_frequency of every live clock) before and after every operation   *)
(* and checks the prescribed relation.                                     *)
(*                                                                         *)
(* State: kind  sequence indexed by clock id in allocation order:          *)
(*              "int" (steered clock; id 1 is the system clock), "ext"     *)
(*              (external clock), "gone" (removed)                         *)
(*        links set of [a, b, k, cold, act]: a < b clock ids, k "tracked"  *)
(*              | "untracked", cold = no measurement has been fed yet,     *)
(*              act = the environment has driven this tracked link to      *)
(*              ACTIVE (>= 4 completed round trips while its steered end   *)
(*              points were frequency-steered, plus consensus for links to *)
(*              an external clock: filter.rs measurement), so that its     *)
(*              delay occupies a row of the estimator state in front of    *)
(*              every clock created afterwards.  act is a coverage device  *)
(*              (the real link may lose activity again; the harness        *)
(*              reports the real activity with every AddClock).            *)
(*        hot   clocks that took part in measurements (their estimates     *)
(*              are seeded: distinguishable from every other clock's)      *)
(* Ids above Len(kind) stand for identifiers unknown to the controller.    *)
(***************************************************************************)
EXTENDS Naturals, Sequences, FiniteSets, TLC

CONSTANTS MaxIds,    \* clock identifiers ever allocated (incl. the system clock)
          MaxInt,    \* steered clocks alive at a time
          MaxExt,    \* external clocks alive at a time
          MaxLinks   \* links alive at a time

Ids == 1..(MaxIds + 1)                       \* MaxIds + 1 is never allocated
Init0 == [kind |-> <<"int">>, links |-> {}, hot |-> {}]

Known(s, x) == x <= Len(s.kind) /\ s.kind[x] # "gone"
IsInt(s, x) == x <= Len(s.kind) /\ s.kind[x] = "int"
IsExt(s, x) == x <= Len(s.kind) /\ s.kind[x] = "ext"
Live(s) == { x \in 1..Len(s.kind) : s.kind[x] = "int" }
Uses(l, x) == l.a = x \/ l.b = x
InUse(s, x) == \E l \in s.links : Uses(l, x)
Lo(a, b) == IF a < b THEN a ELSE b
Hi(a, b) == IF a < b THEN b ELSE a
Linked(s, a, b) == \E l \in s.links : l.a = Lo(a, b) /\ l.b = Hi(a, b)

(***************************************************************************)
(* Result of each operation, branch by branch.                             *)
(*  RemoveClock  lib.rs remove_clock: system clock, then not a steered     *)
(*               clock, then filter.rs remove_clock: in use by a link      *)
(*  RemoveExt    estimator.rs ExternalClockList::remove                    *)
(*  AddLink      filter.rs add_tracked_link / add_untracked_link           *)
(*  Back         a measurement while the system clock reads earlier than   *)
(*               the estimator's time: estimator.rs progress_time          *)
(*  Activate     measurements over a tracked link until it is active       *)
(*  Steer        one measurement over a fresh (temporary) tracked link     *)
(*               between the system clock and clock x: such a link has no  *)
(*               delay estimate yet, so filter.rs measurement returns      *)
(*               early and only lib.rs steer_clocks runs                   *)
(***************************************************************************)
Res(s, a) ==
  CASE a.t = "RemoveClock" -> IF a.x = 1 THEN "CannotRemoveSystemClock"
                              ELSE IF ~IsInt(s, a.x) THEN "UnknownClock"
                              ELSE IF InUse(s, a.x) THEN "ClockInUse" ELSE "ok"
    [] a.t = "RemoveExt" -> IF IsExt(s, a.x) THEN "ok" ELSE "UnknownClock"
    [] a.t = "AddLink" -> IF ~Known(s, a.a) \/ ~Known(s, a.b) THEN "UnknownClock"
                          ELSE IF IsExt(s, a.a) /\ IsExt(s, a.b) THEN "BothClocksExternal"
                          ELSE IF a.a = a.b THEN "ClocksEqual" ELSE "ok"
    [] a.t = "Back" -> "NonMonotonicTimeProgression"
    [] OTHER -> "ok"

Enabled(s, a) ==
  CASE a.t = "AddClock" -> Len(s.kind) < MaxIds /\ Cardinality(Live(s)) < MaxInt
    [] a.t = "AddExt" -> Len(s.kind) < MaxIds /\ Cardinality({x \in 1..Len(s.kind) : s.kind[x] = "ext"}) < MaxExt
    [] a.t = "RemoveExt" -> ~(IsExt(s, a.x) /\ InUse(s, a.x))    \* removing an external clock that is in use: not specified
    [] a.t = "AddLink" -> IF Res(s, a) = "ok" THEN Cardinality(s.links) < MaxLinks /\ ~Linked(s, a.a, a.b) ELSE TRUE
    [] a.t \in {"RemoveLink", "Measure", "Back"} -> a.l \in s.links
    [] a.t = "Activate" -> a.l \in s.links /\ a.l.k = "tracked" /\ ~a.l.act
    [] a.t = "Steer" -> a.x # 1 /\ Known(s, a.x)
    [] OTHER -> TRUE

Post(s, a) ==
  IF Res(s, a) # "ok" THEN s
  ELSE CASE a.t = "AddClock" -> [s EXCEPT !.kind = Append(@, "int")]
         [] a.t = "AddExt" -> [s EXCEPT !.kind = Append(@, "ext")]
         [] a.t \in {"RemoveClock", "RemoveExt"} -> [s EXCEPT !.kind[a.x] = "gone", !.hot = @ \ {a.x}]
         [] a.t = "AddLink" -> [s EXCEPT !.links = @ \cup {[a |-> Lo(a.a, a.b), b |-> Hi(a.a, a.b), k |-> a.k, cold |-> TRUE, act |-> FALSE]}]
         [] a.t = "RemoveLink" -> [s EXCEPT !.links = @ \ {a.l}]
         [] a.t = "Measure" -> [s EXCEPT !.links = (@ \ {a.l}) \cup {[a.l EXCEPT !.cold = FALSE]},
                                         !.hot = @ \cup ({a.l.a, a.l.b} \cap Live(s))]
         [] a.t = "Activate" -> [s EXCEPT !.links = (@ \ {a.l}) \cup {[a.l EXCEPT !.cold = FALSE, !.act = TRUE]},
                                          !.hot = @ \cup ({a.l.a, a.l.b} \cap Live(s))]
         [] OTHER -> s                                                 \* Steer

(***************************************************************************)
(* same: the clocks whose reported estimates must be bit-identical before  *)
(* and after the operation.  Measurements and steering may change every    *)
(* estimate (all clocks are correlated); link operations are not required  *)
(* to preserve the estimates of the link's own end points.                 *)
(***************************************************************************)
Target(a) == CASE a.t \in {"RemoveClock", "RemoveExt"} -> {a.x}
               [] a.t = "AddLink" -> {a.a, a.b}
               [] a.t = "RemoveLink" -> {a.l.a, a.l.b}
               [] OTHER -> {}
Same(s, a) ==
  IF Res(s, a) # "ok" THEN Live(s)
  ELSE IF a.t \in {"Measure", "Activate", "Steer"} THEN {}
  ELSE (Live(s) \cap Live(Post(s, a))) \ Target(a)

Out(s, a) == [res |-> Res(s, a), same |-> Same(s, a), live |-> Live(Post(s, a)),
              new |-> IF a.t \in {"AddClock", "AddExt"} THEN Len(s.kind) + 1 ELSE 0]

(***************************************************************************)
(* C42.  Adding / removing a clock or a link leaves every other clock's    *)
(* estimates untouched; operations on unknown / system / in-use / equal    *)
(* identifiers fail and change nothing; time does not move backwards.      *)
(***************************************************************************)
Bookkeeping == {"AddClock", "AddExt", "RemoveClock", "RemoveExt", "AddLink", "RemoveLink"}
C42_Step(s, a) ==
  LET o == Out(s, a) IN
  /\ a.t \in Bookkeeping /\ o.res = "ok" => \A y \in Live(s) \cap Live(Post(s, a)) : y \notin Target(a) => y \in o.same
  /\ a.t \in Bookkeeping /\ (\E x \in Target(a) : ~Known(s, x)) => o.res # "ok"
  /\ a.t = "RemoveClock" /\ (a.x = 1 \/ InUse(s, a.x)) => o.res # "ok"
  /\ a.t = "Back" => o.res # "ok"
  /\ o.res # "ok" => Post(s, a) = s /\ o.same = Live(s)

(***************************************************************************)
(* C43 (bookkeeping part; the numeric relations are evaluated by the       *)
(* harness with the tolerance of the property, 1e-9 relative + 1 ns):      *)
(*  freq0  right after a clock is added its frequency query reports the    *)
(*         frequency estimate (0 +- that clock's max frequency), not the   *)
(*         offset estimate (0 +- 1e18)                                     *)
(*  fmax   every set_frequency on a clock is within its max frequency      *)
(*  dstep / dfreq   on a pure steering step (Steer: the link is fresh, so  *)
(*         the measurement itself does not touch the estimates) the offset *)
(*         (frequency) estimate of every steered clock moves by the step   *)
(*         (frequency change) applied to that clock (+ the deterministic   *)
(*         drift frequency x elapsed time when time has advanced)          *)
(***************************************************************************)
ConeKey(s, a) == IF Res(s, a) # "ok" THEN "fail"
                 ELSE IF a.t \in Bookkeeping THEN (IF a.t = "AddClock" THEN "addclock" ELSE "book")
                 ELSE IF a.t \in {"Measure", "Activate"} THEN "measure" ELSE "steer"
ConesOf(k) ==
  CASE k = "fail"     -> [C42 |-> {"panic", "out.res", "out.same"}, C43 |-> {}]
    [] k = "book"     -> [C42 |-> {"panic", "out.same"}, C43 |-> {}]
    [] k = "addclock" -> [C42 |-> {"panic", "out.same"}, C43 |-> {"out.freq0"}]
    [] k = "measure"  -> [C42 |-> {}, C43 |-> {"out.fmax"}]
    [] k = "steer"    -> [C42 |-> {}, C43 |-> {"out.fmax", "out.dstep", "out.dfreq"}]
ConeTable == [k \in {"fail", "book", "addclock", "measure", "steer"} |-> ConesOf(k)]
=============================================================================
