CONSTANTS
  W = 8
  T1s = {0, 1, 5, 64, 127, 128, 129, 200, 250, 254, 255}
  DiffAbs = {0, 1, 2, 3, 4, 5, 6, 7, 8, 31, 40}
INIT GenInit
NEXT GenNext
CHECK_DEADLOCK FALSE
INVARIANTS C05_OnWireFormulas AllRepresentable
