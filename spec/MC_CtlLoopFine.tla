-------------------------- MODULE MC_CtlLoopFine --------------------------
(***************************************************************************)
(* Model-level companion of MC_CtlLoop (no replay): the loop's walk split  *)
(* one level further.  CtlLoop.tla makes "release the handle held, skip    *)
(* the dead handles, upgrade the next live one, enter its handle_message"  *)
(* ONE step, because the harness cannot stop the real loop between the     *)
(* release and the next Weak::upgrade.  Here the release (Rel) and the     *)
(* upgrade (Enter) are separate actions, the loop also rests between two   *)
(* handles (pc = "ow"/"tw", cur = 0) and right after a broadcast has been  *)
(* decided, and every operation of the source tasks is interleaved there   *)
(* too.  TLC checks the same step property and the same state invariant,   *)
(* which substantiates the granularity argument in CtlLoop.tla.            *)
(***************************************************************************)
EXTENDS CtlLoop

CONSTANTS MaxChan, UsableVals, Steers, Arms

VARIABLE st
vars == <<st>>

Acts == { [t |-> "Add", i |-> i] : i \in Slots }
        \cup { [t |-> "Meas", i |-> i] : i \in Slots }
        \cup { [t |-> "Usable", i |-> i, b |-> b] : i \in Slots, b \in UsableVals }
        \cup { [t |-> "Drop", i |-> i] : i \in Slots }
        \cup { [t |-> "Recv", steer |-> x, arm |-> y] : x \in Steers \cup {FALSE}, y \in Arms \cup {FALSE} }
        \cup { [t |-> "Rel"], [t |-> "Enter"] }

FEnabled(s, a) ==
  CASE a.t = "Rel"   -> s.cur # 0
    [] a.t = "Enter" -> s.pc # "idle" /\ s.cur = 0
    [] OTHER         -> Enabled(s, a)       \* Add: the walked list stays locked between two of its handles

\* a decided broadcast: the loop rests before the first upgrade
FStart(s, o) == << StartBc(s), o >>

FSO(s, a) ==
  CASE a.t = "Rel"   -> << [s EXCEPT !.cur = 0], NoOut >>
    [] a.t = "Enter" -> LET s1 == Upg(s)
                        IN IF s1.pc = "idle" /\ s1.arm THEN FStart([s1 EXCEPT !.arm = FALSE], [NoOut EXCEPT !.tu = TRUE])
                           ELSE << s1, NoOut >>
    [] a.t = "Recv"  -> LET m == Head(s.chan)
                        IN IF m.k = "M" /\ s.src[m.i].reg
                             THEN LET s2 == [s EXCEPT !.chan = Tail(@), !.src[m.i].proc = m.n]
                                      o == [NoOut EXCEPT !.calls = << Call("sm", m.i, m.n, FALSE) >>]
                                  IN IF a.steer THEN FStart([s2 EXCEPT !.arm = a.arm], o)
                                     ELSE IF a.arm THEN FStart(s2, [o EXCEPT !.tu = TRUE])
                                     ELSE << s2, o >>
                             ELSE SO(s, a)
    [] OTHER         -> SO(s, a)

Init == st = InitState
Next == \E a \in Acts : FEnabled(st, a) /\ LET p == FSO(st, a)[1] IN Len(p.chan) <= MaxChan /\ st' = p

C37_StepHoldsFine ==
  \A a \in Acts : FEnabled(st, a) =>
     LET so == FSO(st, a)
     IN IF a.t \in {"Rel", "Enter"} THEN so[1].chan = st.chan /\ Ctl(so[1]) = Ctl(st) /\ so[2].calls = <<>>
        ELSE C37_StepOn(st, a, so[1], so[2])
C37_InvariantFine == C37_Inv(st)
\* a handle the loop is about to visit belongs to a source that still holds its wrapper
TodoLive == \A k \in 1..Len(st.todo) : st.src[st.todo[k]].alive
=============================================================================
