CONSTANTS
  W = 4
  Count = 3
  Ignore = {4}
  Addr = {1, 2, 3, 4}
  MaxAns = 3
  AsCoded = FALSE
  DistinctAnswers = FALSE
INIT GenInit
NEXT GenNext
VIEW PoolView
CHECK_DEADLOCK FALSE
INVARIANTS TypeOK C35_PoolSafe

