---------------------------- MODULE Sim_ClockCtl ----------------------------
(***************************************************************************)
(* Random behaviours of the ClockCtl model beyond the exhaustive bound      *)
(* (three source slots, wider offsets, all leap values, queue of four).     *)
(* TLC -simulate chooses the behaviours; the variable `last` carries the    *)
(* action just taken with the specification's output and cone key, and an   *)
(* "invariant" prints it for every state TLC moves into, so each simulated  *)
(* behaviour becomes one walk that the harness replays on the real          *)
(* TimeSyncControllerWrapper (the same replay as for the bounded model).    *)
(***************************************************************************)
EXTENDS MC_ClockCtl

VARIABLE last
svars == <<st, last>>

SimInit == Init /\ last = [t |-> "init"]
SimNext == \E a \in Acts :
             /\ Enabled(st, a)
             /\ LET so == SO(st, a)
                IN /\ InBounds(so[1])
                   /\ st' = so[1]
                   /\ last' = [t |-> "step", pre |-> st, act |-> a, out |-> so[2], ck |-> ConeKeyStr(ConeKey(st, a))]
SimPrint == IF last.t = "init" THEN PrintT(<<"SINIT", ToJson(st)>>)
            ELSE PrintT(<<"STEP", ToJson([pre |-> last.pre, act |-> last.act, post |-> st, out |-> last.out, ck |-> last.ck])>>)
SimCones == PrintT(<<"CONES", ToJson(ConeTable)>>)
=============================================================================
