---------------------------- MODULE FilterShapes ----------------------------
(***************************************************************************)
(* C06 (exploration level).  The floating-point Kalman filter of           *)
(* kalman/source.rs is not modelled.  What this module contributes:        *)
(*  (1) an enumeration of adversarial measurement-history SHAPES over      *)
(*      value classes: a base class repeated for the 8 samples of the      *)
(*      initial phase (so that the source enters the Kalman phase),        *)
(*      followed by every tail of up to TailLen classes; the harness       *)
(*      (harness/ntp_proto/kalman.rs, mode "filter") concretises each      *)
(*      class, replays the history on the real KalmanSourceController +    *)
(*      KalmanClockController with steering fed back, and logs the CLASS   *)
(*      of every number it can observe;                                    *)
(*  (2) the property as a predicate on those logged classes, evaluated by  *)
(*      TLC on the recorded results (trace mode).                          *)
(*                                                                         *)
(* Value classes (concretisation in the harness):                          *)
(*  offset  "zero" 0 | "unit" +2^-32 s | "msneg" -1 ms | "sec" +1 s        *)
(*          | "maxpos" +(2^31-2) s | "maxneg" -(2^31-2) s                  *)
(*  delay   "neg" -1 s | "zero" 0 | "min" 2^-18 s | "ms" 1 ms | "big" 16 s *)
(*          | "max" 2^31-2 s                                               *)
(*  gap     "ms" 1 ms | "sec" 1 s | "long" 2^17 s    (local time spacing)  *)
(*  disp    "zero" | "max" (root dispersion 0 or 2^31-2 s)                 *)
(***************************************************************************)
EXTENDS Naturals, Sequences, FiniteSets, TLC, Json, IOUtils

CONSTANTS BaseOffsets, BaseDelays, BaseGaps,     \* classes of the 8 initial samples ("alt" offset = alternating +-1 s)
          TailOffsets, TailDelays, TailGaps, TailDisps,
          TailLen,
          Reps          \* every tail class is measured Reps times in a row

VARIABLES st
vars == <<st>>

Bases == { [off |-> o, delay |-> d, gap |-> g] : o \in BaseOffsets, d \in BaseDelays, g \in BaseGaps }
Steps == { [off |-> o, delay |-> d, gap |-> g, disp |-> r] : o \in TailOffsets, d \in TailDelays, g \in TailGaps, r \in TailDisps }
Tails(n) == UNION { [1..k -> Steps] : k \in 0..n }

(***************************************************************************)
(* The property on one replayed history.  `cls` maps every observed number *)
(* (per-source estimate: offset, variance, frequency, frequency variance,  *)
(* delay; observe(): offset, uncertainty, delay; clock calls: frequency,   *)
(* step, error estimate, maximum error; published snapshot: root variance  *)
(* coefficients, root dispersion, root delay) to the worst class seen      *)
(* along the history:                                                      *)
(*    "ok"  finite (and >= 0 where an uncertainty / variance / delay)      *)
(*    "neg" finite but negative where non-negative is required             *)
(*    "nan" | "inf"                                                        *)
(* `nanpanic` is TRUE when the code's own debug assertion caught a NaN or  *)
(* infinity on its way into a duration (NtpDuration::from_seconds).        *)
(***************************************************************************)
C06_FilterOutputFinite(r) == /\ \A f \in DOMAIN r.cls : r.cls[f] = "ok"
                     /\ ~r.nanpanic

\* ---- (1) shape generation: the state partitions the space by base class ----
GenInit == st \in Bases
GenNext == /\ UNCHANGED st
           /\ \A t \in Tails(TailLen) : PrintT(<<"EDGE", ToJson([base |-> st, tail |-> t, reps |-> Reps])>>)

\* ---- (2) evaluation of the property on the recorded results ----
Rec == ndJsonDeserialize(IOEnv.TRACE)
TraceInit == st = 0
TraceNext ==
  \/ /\ st < Len(Rec) /\ st' = st + 1
     /\ C06_FilterOutputFinite(Rec[st']) \/ PrintT(<<"MISMATCH", ToJson([line |-> st', id |-> Rec[st'].id, cls |-> Rec[st'].cls,
                                                                 nanpanic |-> Rec[st'].nanpanic])>>)
  \/ /\ st = Len(Rec) /\ st' = Len(Rec) + 1
     /\ PrintT(<<"DONE", ToJson([consumed |-> Len(Rec)])>>)
=============================================================================
