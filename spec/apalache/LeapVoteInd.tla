---------------------------- MODULE LeapVoteInd ----------------------------
(***************************************************************************)
(* C04, unbounded: the leap indicator follows a STRICT majority of the     *)
(* selected sources whose leap status is known.  ClockSel.tla checks the   *)
(* vote on every multiset of up to six indicators with TLC; this module    *)
(* lets Apalache discharge, for arbitrary natural vote counts, the two     *)
(* facts the property rests on:                                            *)
(*   Unique   at most one indicator can have a strict majority, so the     *)
(*            order in which the code tests them is immaterial;            *)
(*   Keeps    when none has, the previous indicator is kept;               *)
(* as an inductive invariant of a system in which selected sources join,   *)
(* leave and change their indicator one at a time (so the counts range     *)
(* over all naturals).                                                     *)
(***************************************************************************)
EXTENDS Integers

VARIABLES
  \* @type: Int;
  none,
  \* @type: Int;
  l59,
  \* @type: Int;
  l61,
  \* @type: Int;
  unknown,
  \* @type: Str;
  leap

Known == none + l59 + l61
Maj(v) == 2 * v > Known
Vote(prev) == IF Maj(none) THEN "none" ELSE IF Maj(l59) THEN "59" ELSE IF Maj(l61) THEN "61" ELSE prev
\* the same vote with the tests in another order
VoteRev(prev) == IF Maj(l61) THEN "61" ELSE IF Maj(l59) THEN "59" ELSE IF Maj(none) THEN "none" ELSE prev

Init == none = 0 /\ l59 = 0 /\ l61 = 0 /\ unknown = 0 /\ leap = "unknown"

Bump(d0, d59, d61, du) ==
  /\ none' = none + d0 /\ l59' = l59 + d59 /\ l61' = l61 + d61 /\ unknown' = unknown + du
  /\ none' >= 0 /\ l59' >= 0 /\ l61' >= 0 /\ unknown' >= 0
  /\ LET known == none' + l59' + l61' IN
     leap' = IF 2 * none' > known THEN "none" ELSE IF 2 * l59' > known THEN "59" ELSE IF 2 * l61' > known THEN "61" ELSE leap

Next == \E d0, d59, d61, du \in {-1, 0, 1} : Bump(d0, d59, d61, du)

TypeOK == none >= 0 /\ l59 >= 0 /\ l61 >= 0 /\ unknown >= 0 /\ leap \in {"none", "59", "61", "unknown"}
C04_Unique == ~(Maj(none) /\ Maj(l59)) /\ ~(Maj(none) /\ Maj(l61)) /\ ~(Maj(l59) /\ Maj(l61))
C04_OrderImmaterial == \A prev \in {"none", "59", "61", "unknown"} : Vote(prev) = VoteRev(prev)
C04_FollowsMajority == /\ (Maj(none) => leap = "none") /\ (Maj(l59) => leap = "59") /\ (Maj(l61) => leap = "61")
IndInv == TypeOK /\ C04_Unique /\ C04_OrderImmaterial /\ C04_FollowsMajority
\* for the inductive step: any state satisfying the invariant
IndInit == /\ none \in Nat /\ l59 \in Nat /\ l61 \in Nat /\ unknown \in Nat
           /\ leap \in {"none", "59", "61", "unknown"} /\ C04_FollowsMajority
=============================================================================
