---------------------------- MODULE MC_TimeArith ----------------------------
(***************************************************************************)
(* Enumeration of operand pairs (one TLC state per operation instance) and *)
(* of the boundary classes of the float / wire-format clauses of C32.      *)
(***************************************************************************)
EXTENDS TimeArith, Json

CONSTANTS Bs       \* second operands ("all" = every word; quick tier: boundary representatives)
VARIABLE st
vars == <<st>>

Rep == {0, 1, 2, 3, 7, 8, 9, 31, 32, 33, 62, 63, 64, 65, 100, 126, 127}
BD == IF Bs = "all" THEN Durs ELSE (Rep \cup {-x : x \in Rep} \cup {-128, -127, -126})
BW == IF Bs = "all" THEN Words ELSE {ToUnsigned(x) : x \in BD}

Ops(g) ==   \* group g = first operand (as a word); its instances
  LET d == ToSigned(g) IN
  {[op |-> o, a |-> g, b |-> b] : o \in {"TsSub"}, b \in BW}
  \cup {[op |-> o, a |-> g, b |-> b] : o \in {"TsAddDur", "TsSubDur"}, b \in BD}
  \cup {[op |-> o, a |-> d, b |-> b] : o \in {"DurAdd", "DurSub", "DurMul", "PollInc", "PollDec"}, b \in BD}
  \cup {[op |-> o, a |-> d, b |-> 0] : o \in {"DurNeg", "DurAbs", "PollForceInc"}}

\* float / wire clauses: TLC only enumerates the boundary classes; the inequality needs 64-bit and floating-point
\* arithmetic and is evaluated by the harness (exploration level)
Exps == 0..63
FloatClasses ==
  {[op |-> "RoundTrip", e |-> e, delta |-> dl, neg |-> n] : e \in Exps, dl \in {-1, 0, 1}, n \in BOOLEAN}      \* +-(2^e + delta) units
  \cup {[op |-> "FromSeconds", e |-> e, delta |-> dl, neg |-> n] : e \in -40..70, dl \in {-1, 0, 1}, n \in BOOLEAN} \* +-2^e s, one ulp around
  \cup {[op |-> "FromSeconds", e |-> e, delta |-> 0, neg |-> n] : e \in {-1074, -1022, -300, 300, 1023}, n \in BOOLEAN}
  \* wire formats: around every power of two up to the top of the format's range (2^48 resp. 2^36 units), one unit
  \* and half a wire unit (2^15 resp. 2^3) to either side -- where rounding instead of truncating would carry
  \cup {[op |-> "Short", e |-> e, delta |-> dl, neg |-> FALSE] : e \in 0..48, dl \in {-1, 0, 1, -32769, -32768, -32767, 32767, 32768}}
  \cup {[op |-> "Time32", e |-> e, delta |-> dl, neg |-> FALSE] : e \in 0..36, dl \in {-1, 0, 1, -9, -8, -7, 7, 8}}

Idle == [kind |-> "idle"]
Init == st = Idle
ToGroup == st = Idle /\ \E g \in Words \cup {-1} : st' = [kind |-> "group", g |-> g]
CasesOf(g) == IF g = -1 THEN FloatClasses ELSE Ops(g)
Next == ToGroup \/ (st.kind = "group" /\ \E o \in CasesOf(st.g) : st' = [kind |-> "case", o |-> o])
Spec == Init /\ [][Next]_vars

C32_TimeArithmetic == st.kind = "case" => C32_Law(st.o)

IsFloat(o) == o.op \in {"RoundTrip", "FromSeconds", "Short", "Time32"}
GenInit == Init
GenNext == \/ ToGroup
           \/ /\ st.kind = "group"
              /\ \E o \in CasesOf(st.g) :
                   /\ st' = [kind |-> "case", o |-> o]
                   /\ PrintT(<<"EDGE", ToJson([act |-> o, out |-> IF IsFloat(o) THEN [v |-> 0, sat |-> "n/a"] ELSE Out(o)])>>)
=============================================================================
