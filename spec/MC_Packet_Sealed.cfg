CONSTANTS
  BodyLens = {0}
  Tails = {0}
  Contexts = {"none"}
  Derived = FALSE
  Sealed = TRUE
INIT Init
NEXT Next
CHECK_DEADLOCK FALSE
INVARIANTS C24_RoundTrip C23_Total C25_Regions
