CONSTANTS
  AsCoded = TRUE
  OnlyPath = "task"
  OnlySize40 = FALSE
  OnlyFinite = TRUE
INIT Init
NEXT Next
CHECK_DEADLOCK FALSE
INVARIANTS C40_Holds
ALIAS Alias
