---------------------------- MODULE MC_SockSample ----------------------------
(***************************************************************************)
(* Class enumeration for SockSample.tla: one step per (path, class).       *)
(* AsCoded = FALSE: C40_Rule is an invariant of the intended decoder; the  *)
(* generator prints every class with the intended verdict and whether the  *)
(* decoder as coded differs (`dev`).  AsCoded = TRUE: C40_Holds is         *)
(* expected to be VIOLATED; the counterexample class is printed via ALIAS. *)
(***************************************************************************)
EXTENDS SockSample, Json

CONSTANTS AsCoded, OnlyPath, OnlySize40, OnlyFinite

VARIABLE st   \* the class examined last ("none" initially)
vars == <<st>>

Acts == { [path |-> p, c |-> c] : p \in (IF OnlyPath = "any" THEN Paths ELSE {OnlyPath}),
                                  c \in { x \in Classes : (OnlySize40 => x.size = SampleSize) /\ (OnlyFinite => Finite(x.off)) } }
S == ~AsCoded

Init == st = [path |-> "none"]
Next == \E a \in Acts : st' = a
Spec == Init /\ [][Next]_vars

C40_Validated == \A a \in Acts : C40_Rule(S, a.path, a.c)
C40_Holds == st.path # "none" => C40_Rule(S, st.path, st.c)
Alias == [json |-> ToJson(st)]

GenInit == Init /\ PrintT(<<"INIT", ToJson(st)>>) /\ PrintT(<<"CONES", ToJson(ConeTable)>>)
GenNext == \E a \in Acts :
             /\ st' = a /\ st.path = "none"
             /\ LET dev == Out(TRUE, a.path, a.c) # Out(FALSE, a.path, a.c)
                IN PrintT(<<"EDGE", ToJson([pre |-> [path |-> "none"], act |-> a, post |-> [path |-> "none"], out |-> Out(S, a.path, a.c),
                                             ck |-> a.path, dev |-> dev,
                                             coded |-> IF dev THEN Out(FALSE, a.path, a.c) ELSE <<>>])>>)
=============================================================================
