CONSTANTS
  N = 1
  MinAgree = 1
  StepThresh = 0
  SFwd2 = 9999
  SBwd2 = 6
  Fwd2 = 4
  Bwd2 = 5
  Acc2 = 7
  TrackFreq = FALSE
  F0 = 0
  F0Neg = FALSE
  MaxSteer = 495
  SlewMax = 200
  MaxSamples = 1
  Ghosts = FALSE
  Readd = TRUE
  OffPos = {1, 2, 3}
  OffNeg = {1, 2}
  LeapVals = {"unknown", "none"}
  Wides = {FALSE}
  MaxChan = 1
  Bound = 6
  UsableVals = {TRUE}
INIT Init
NEXT Next
CHECK_DEADLOCK FALSE
INVARIANTS TypeOK C01_StepsWithinThresholds C02_FrequencyBounds C03_MajorityConsensus C04_LeapMajority C37_OnlyRegisteredUsable
