-------------------------- MODULE ConfigThresholds --------------------------
(***************************************************************************)
(* Step-threshold settings of the daemon configuration, property C39.      *)
(*   ntp-proto/src/config.rs   StepThreshold / ThresholdPart deserialisers *)
(*                             and the accumulated-threshold helper        *)
(*   ntp-proto/src/time_types.rs:322-338  NtpDuration deserialiser         *)
(*   ntpd/src/daemon/config/mod.rs        Config (toml) and Config::check  *)
(*                                                                         *)
(* A document class is  [key, form, val]:                                  *)
(*   key   which setting of [synchronization] carries the value            *)
(*   form  "number"  key = <val>                                           *)
(*         "fwd"     key = { forward = <val> }                             *)
(*         "bwd"     key = { backward = <val> }                            *)
(*         "both"    key = { forward = <val>, backward = 1.5 }             *)
(*         "both2"   key = { forward = 2.5, backward = <val> }             *)
(*   val   value class (TOML: floats incl. nan/inf/-inf/-0.0, integers,    *)
(*         the string "inf", another string, a boolean)                    *)
(* Two paths: "proto" feeds the value straight into the serde visitors of  *)
(* ntp-proto; "daemon" loads a TOML document with toml::from_str::<Config> *)
(* and runs Config::check.                                                 *)
(*                                                                         *)
(* Load(strict, a): verdict and, if accepted, the class of the forward and *)
(* backward limit.  strict = TRUE is the INTENDED loader (the per-direction*)
(* parts and the accumulated threshold are validated like the single       *)
(* number); strict = FALSE is the loader AS CODED (finding F-9).           *)
(***************************************************************************)
EXTENDS Naturals, Integers, Sequences, FiniteSets, TLC

Keys  == {"single-step-panic-threshold", "startup-step-panic-threshold", "accumulated-step-panic-threshold"}
Forms == {"number", "fwd", "bwd", "both", "both2"}
Vals  == {"neg", "negint", "negzero", "zero", "pos", "posint", "pinf", "ninf", "nan", "infstr", "otherstr", "bool"}
Paths == {"proto", "daemon"}
Classes == [key : Keys, form : Forms, val : Vals]

Negative(v)  == v \in {"neg", "negint", "ninf"}
NonFinite(v) == v \in {"pinf", "ninf", "nan"}
NumOk(v)     == v \in {"negzero", "zero", "pos", "posint"}           \* a finite number that is not negative
Cls(v) == IF v \in {"negzero", "zero"} THEN "zero" ELSE IF v \in {"pos", "posint"} THEN "pos" ELSE "neg"

Err == [verdict |-> "err", fwd |-> "-", bwd |-> "-"]
Panic == [verdict |-> "panic", fwd |-> "-", bwd |-> "-"]
Ok(f, b) == [verdict |-> "ok", fwd |-> f, bwd |-> b]

\* StepThresholdVisitor::visit_f64/i64/u64/str, config.rs:158-201
StepNumber(v) ==
  IF NumOk(v) THEN Ok(Cls(v), Cls(v))
  ELSE IF v = "infstr" THEN Ok("none", "none")
  ELSE Err                                    \* nan, +-inf, negative: "a positive number"; other strings; booleans

\* ThresholdPartVisitor, config.rs:87-140: "err" | "panic" | class of the limit
Part(strict, v) ==
  IF v = "infstr" THEN "none"
  ELSE IF NumOk(v) THEN Cls(v)
  ELSE IF v \in {"neg", "negint"} THEN (IF strict THEN "err" ELSE "neg")           \* as coded: from_seconds(v) accepted
  ELSE IF NonFinite(v) THEN (IF strict THEN "err" ELSE "panic")                    \* as coded: from_seconds trips its debug
                                                                                   \* assertion (release: nan -> 0, inf saturates)
  ELSE "err"                                                                       \* other string, boolean

\* StepThresholdVisitor::visit_map, config.rs:203-240 (a direction that is not given has no limit)
StepMap(strict, form, v) ==
  LET f == CASE form = "fwd" -> Part(strict, v) [] form = "bwd" -> "none" [] form = "both" -> Part(strict, v) [] form = "both2" -> "pos"
      b == CASE form = "fwd" -> "none" [] form = "bwd" -> Part(strict, v) [] form = "both" -> "pos" [] form = "both2" -> Part(strict, v)
  IN IF f = "err" \/ b = "err" THEN Err ELSE IF f = "panic" \/ b = "panic" THEN Panic ELSE Ok(f, b)

\* deserialize_option_accumulated_step_panic_threshold (config.rs:10-22) over NtpDuration::deserialize
\* (time_types.rs:322-338): a number, NaN and infinities rejected, zero means "no limit"; reported as fwd = bwd
Accumulated(strict, form, v) ==
  IF form # "number" THEN Err
  ELSE IF NumOk(v) THEN (IF Cls(v) = "zero" THEN Ok("none", "none") ELSE Ok("pos", "pos"))
  ELSE IF v \in {"neg", "negint"} THEN (IF strict THEN Err ELSE Ok("neg", "neg"))   \* as coded: negative accepted
  ELSE Err

Load(strict, a) ==
  IF a.key = "accumulated-step-panic-threshold" THEN Accumulated(strict, a.form, a.val)
  ELSE IF a.form = "number" THEN StepNumber(a.val)
  ELSE StepMap(strict, a.form, a.val)

\* C39, declaratively: loading never panics; an accepted threshold is never negative; a document giving a negative number
\* or NaN as (part of) a step threshold is not accepted.  (The weaker reading of "never negative or NaN": nothing is
\* required for +inf written as a float, which the intended loader rejects like the single-number form does.)
C39_Rule(strict, a) ==
  LET o == Load(strict, a) IN
  /\ o.verdict \in {"ok", "err"}
  /\ o.verdict = "ok" => o.fwd \in {"none", "zero", "pos"} /\ o.bwd \in {"none", "zero", "pos"}
  /\ (Negative(a.val) \/ a.val = "nan") => o.verdict = "err"

(***************************************************************************)
(* Structural classes: any other numeric setting of the configuration set  *)
(* to any value class, plus malformed documents.  No verdict is modelled   *)
(* for them; the rule is only "either an error or a configuration, never a *)
(* panic" (loading and Config::check).                                     *)
(***************************************************************************)
Fields == {"synchronization.minimum-agreeing-sources", "synchronization.local-stratum", "synchronization.reference-id",
           "synchronization.warn-on-jump",
           "synchronization.algorithm.precision-low-probability", "synchronization.algorithm.precision-hysteresis",
           "synchronization.algorithm.poll-interval-step-threshold", "synchronization.algorithm.delay-outlier-threshold",
           "synchronization.algorithm.initial-wander", "synchronization.algorithm.step-threshold",
           "synchronization.algorithm.slew-maximum-frequency-offset", "synchronization.algorithm.slew-minimum-duration",
           "synchronization.algorithm.maximum-frequency-steer", "synchronization.algorithm.meddling-threshold",
           "source-defaults.initial-poll-interval", "source-defaults.poll-interval-limits.min", "source-defaults.poll-interval-limits.max",
           "observability.observation-permissions", "observability.metrics-exporter-listen",
           "keyset.stale-key-count", "keyset.key-rotation-interval",
           "source.pool.count", "source.sock.precision", "source.sock.accuracy", "source.sock.measurement_noise_estimate",
           "source.csptp.poll_interval", "source.csptp.response_interval", "source.csptp.domain",
           "source.pps.precision", "source.pps.accuracy", "source.pps.period", "source.pps.measurement_noise_estimate",
           "nts-ke-server.key-exchange-timeout-ms", "nts-ke-server.concurrent-connections",
           "nts-ke-server.longlived-connections", "nts-ke-server.ntp-port",
           "server.rate-limiting-cache-size", "server.rate-limiting-cutoff-ms"}
\* "hugefloat" 1e30, "durmax" 1.9e19 (just above what a std Duration holds), "tiny" 1e-320 (subnormal)
StructVals == Vals \cup {"hugeint", "table", "array", "hugefloat", "durmax", "tiny"}
Malformed == {"empty", "garbage", "unknown-key", "unknown-table", "duplicate-key", "duplicate-table", "table-as-number",
              "array-as-table", "unterminated-string", "nested-threshold-unknown-key", "threshold-duplicate-direction",
              "threshold-empty-map", "threshold-array"}

ConeTable == [proto  |-> [C39 |-> {"out.verdict", "out.fwd", "out.bwd", "panic"}],
              daemon |-> [C39 |-> {"out.verdict", "out.fwd", "out.bwd", "out.check", "panic"}],
              struct |-> [C39 |-> {"out.verdict", "out.check", "panic"}]]
=============================================================================
