CONSTANTS
  N = 3
  OneWay = {1}
  MaxMeas = 1
  MaxChan = 2
  UsableVals = {TRUE}
  Steers = {TRUE}
  Arms = {TRUE}
INIT Init
NEXT Next
CHECK_DEADLOCK FALSE
INVARIANTS C37_StepHoldsFine C37_InvariantFine TodoLive
