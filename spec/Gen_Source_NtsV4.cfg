CONSTANTS
  Mode = "NtsV4"
  MinPoll = 4
  MaxPoll = 5
  Desired = {4, 5}
  ReqPolls = {4}
  Strata = {2}
  CLen = 100
  Batches = {0, 1, 2}
  InitCookies = 8
  RefLocals = {FALSE}
  SrcLocal = FALSE
  LocalStratum = 16
INIT GenInit
NEXT GenNext
CHECK_DEADLOCK FALSE
INVARIANTS TypeOK C07_UnauthenticatedHasNoEffect C08_OnlyFreshAnswers C09_KissCodes C10_PollBounds C11_Reachability C12_VersionNegotiation C13_CookieDiscipline C14_RequestFits C33_UsableFlag
