CONSTANTS
  N = 2
  OneWay = {1}
  MaxMeas = 2
  MaxChan = 3
  UsableVals = {TRUE, FALSE}
  Steers = {TRUE}
  Arms = {TRUE}
INIT GenInit
NEXT GenNext
CHECK_DEADLOCK FALSE
INVARIANTS TypeOK C37_StepHolds C37_Invariant
