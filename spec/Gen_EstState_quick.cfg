CONSTANTS
  Slots = 3
  MaxLinks = 2
INIT GenInit
NEXT GenNext
CHECK_DEADLOCK FALSE
INVARIANTS TypeOK C42_UnrelatedEstimatesIntact
