CONSTANTS
  FullLen = 1
  CoreLen = 2
  ExactLen = 2
  SeqTails = {"eom", "endless"}
  MutTails = {"eom", "straddle"}
INIT GenInit
NEXT GenNext
CHECK_DEADLOCK FALSE
INVARIANTS C30_ModelBounded
