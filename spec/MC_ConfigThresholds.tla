------------------------- MODULE MC_ConfigThresholds -------------------------
(***************************************************************************)
(* Class enumeration for ConfigThresholds.tla: one step per class.         *)
(* AsCoded = FALSE: C39_Thresholds is an invariant of the intended loader; *)
(* the generator prints every class with the intended outcome and whether  *)
(* the loader as coded differs.  AsCoded = TRUE: C39_Holds is expected to  *)
(* be VIOLATED; the counterexample class is printed through ALIAS.         *)
(***************************************************************************)
EXTENDS ConfigThresholds, Json

CONSTANTS AsCoded, Restrict    \* Restrict: "any" | "negative" | "nan"  (which value classes the counterexample search uses)

VARIABLE st
vars == <<st>>
S == ~AsCoded

Pick(v) == CASE Restrict = "any" -> TRUE [] Restrict = "negative" -> v \in {"neg", "negint"} [] Restrict = "nan" -> v = "nan"
ThresholdActs == { [kind |-> "threshold", path |-> p, c |-> c] : p \in Paths, c \in { x \in Classes : Pick(x.val) } }
StructActs == { [kind |-> "struct", path |-> "daemon", c |-> [field |-> f, val |-> v]] : f \in Fields, v \in StructVals }
              \cup { [kind |-> "struct", path |-> "daemon", c |-> [field |-> "malformed", val |-> m]] : m \in Malformed }
Acts == ThresholdActs \cup StructActs

Init == st = [kind |-> "none"]
Next == \E a \in Acts : st' = a
Spec == Init /\ [][Next]_vars

C39_Thresholds == \A a \in ThresholdActs : C39_Rule(S, a.c)
C39_Holds == st.kind = "threshold" => C39_Rule(S, st.c)
Alias == [json |-> ToJson(st)]

OutOf(strict, a) == IF a.kind = "threshold" THEN Load(strict, a.c) @@ [check |-> "no-panic"]
                    ELSE [verdict |-> "ok-or-err", check |-> "no-panic"]

GenInit == Init /\ PrintT(<<"INIT", ToJson(st)>>) /\ PrintT(<<"CONES", ToJson(ConeTable)>>)
GenNext == \E a \in Acts :
             /\ st' = a /\ st.kind = "none"
             /\ LET dev == a.kind = "threshold" /\ Load(TRUE, a.c) # Load(FALSE, a.c)
                IN PrintT(<<"EDGE", ToJson([pre |-> [kind |-> "none"], act |-> a, post |-> [kind |-> "none"], out |-> OutOf(S, a),
                                             ck |-> IF a.kind = "struct" THEN "struct" ELSE a.path, dev |-> dev,
                                             coded |-> IF dev THEN Load(FALSE, a.c) ELSE <<>>])>>)
=============================================================================
