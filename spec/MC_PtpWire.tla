---------------------------- MODULE MC_PtpWire ----------------------------
(***************************************************************************)
(* Bounded input-class space for PtpWire.tla (C41): TLC enumerates every   *)
(* message class (serialise direction) and datagram class (parse           *)
(* direction), checks the round-trip laws on the specification's encoder / *)
(* decoder and prints each class with the expected observables; the        *)
(* harness concretises every class on the real statime_wire::Message.      *)
(***************************************************************************)
EXTENDS PtpWire, Json

CONSTANTS MaxTlvs,     \* TLVs per message
          SerLens,     \* TLV value lengths, serialise direction
          ParseLens,   \* TLV value lengths, parse direction (includes odd ones)
          Kinds,       \* TLV type classes ("m" Management 0x0001, "z" type 0x0000)
          Pads         \* trailing padding byte counts

VARIABLE st
vars == <<st>>

SeqsUpTo(S, n) == UNION { [1..k -> S] : k \in 0..n }

SerItems == [k : Kinds, l : SerLens]
ParseItems == [k : {"m"}, l : ParseLens] \cup [k : Kinds \ {"m"}, l : {0}]

\* header / body value classes: full product without TLVs, the diagonal with TLVs
Diag == {<<"zero", "zero">>, <<"ones", "max">>, <<"mix", "mix">>}
Full == {"zero", "ones", "mix"} \X {"zero", "max", "mix"}

Msgs == { [ty |-> ty, hc |-> hb[1], bc |-> hb[2], tlvs |-> t] :
            ty \in TypeSet, t \in SeqsUpTo(SerItems, MaxTlvs), hb \in Full } 
MsgOk(m) == m.tlvs = <<>> \/ <<m.hc, m.bc>> \in Diag
SerMsgs == { m \in Msgs : MsgOk(m) }

Dg(ty, bc, items, short, junk, ml, pad, cut) ==
  [ty |-> ty, hc |-> "mix", bc |-> bc, items |-> items, short |-> short, junk |-> junk, ml |-> ml, pad |-> pad, cut |-> cut]

LastLen(items) == IF items = <<>> THEN 0 ELSE items[Len(items)].l

\* well-formed suffix region or one deviation at its end, any padding
TlvDatagrams ==
  UNION { { Dg(ty, "mix", t, 0, 0, "exact", p, "none") : p \in Pads }
          \cup { Dg(ty, "mix", t, s, 0, "exact", 0, "none") : s \in {x \in {1, 2} : x <= LastLen(t)} }
          \cup { Dg(ty, "mix", t, 0, j, "exact", p, "none") : j \in {1, 2, 3}, p \in {0, 5} \cap Pads }
          : ty \in TypeSet, t \in SeqsUpTo(ParseItems, MaxTlvs) }

\* header-level deviations (no TLVs)
HdrDatagrams ==
  { Dg(ty, bc, <<>>, 0, 0, ml, p, cut) :
      ty \in TypeSet \cup BadTypes, bc \in {"zero", "max", "mix", "badnanos"},
      ml \in {"exact", "zero", "lt34", "hdronly", "cutbody", "beyond"}, p \in Pads, cut \in {"none", "h0", "h1", "h33"} }

Datagrams == TlvDatagrams \cup HdrDatagrams

SerActs == { [dir |-> "ser", m |-> m, buf |-> b] : m \in SerMsgs, b \in {"big", "exact"} }
ParseActs == { [dir |-> "parse", d |-> d] : d \in Datagrams }
Acts == SerActs \cup ParseActs

(***************************************************************************)
(* Expected observables of one case and the observables C41 constrains.    *)
(*  ser:   ser (serialise succeeded), size, parse (result class of parsing *)
(*         the output), equal (parsed = original), iter (TLVs enumerated   *)
(*         by the parsed message = the TLVs put in), reser (re-serialised  *)
(*         bytes = first output).                                          *)
(*  parse: res, used (= message_length), ntlv, equal (parsed message =     *)
(*         the message built from the same field values), reser (the       *)
(*         datagram was rejected, or the parsed message re-serialises to   *)
(*         the first message_length bytes of the input: always TRUE).      *)
(* `res` of a datagram that is not a serialisation (plus padding) of some  *)
(* message is outside C41's cone: C41 does not say which byte strings are  *)
(* to be rejected, only that accepted ones re-serialise to their prefix.   *)
(***************************************************************************)
Out(a) ==
  IF a.dir = "ser"
  THEN LET p == Parse(Ser(a.m)) IN
       [ser |-> "ok", size |-> SerSize(a.m), parse |-> p.res, equal |-> (p.msg = a.m), iter |-> (p.msg.tlvs = a.m.tlvs),
        reser |-> TRUE]
  ELSE LET p == Parse(a.d) IN
       [res |-> p.res, used |-> p.used, ntlv |-> Len(p.msg.tlvs), equal |-> (p.res = "ok"), iter |-> (p.res = "ok"),
        reser |-> TRUE]

Cone(a) ==
  IF a.dir = "ser" THEN {"panic", "ser", "size", "parse", "equal", "iter", "reser"}
  ELSE IF Canonical(a.d) THEN {"panic", "res", "used", "ntlv", "equal", "iter", "reser"}
  ELSE {"panic", "reser"}

Init == st = 0
Next == \E a \in Acts : st' = st
Spec == Init /\ [][Next]_vars

C41_PtpRoundTrip == /\ \A m \in SerMsgs : C41_RoundTrip(m)
                    /\ \A d \in Datagrams : C41_Reserialise(d) /\ C41_Total(d)
\* the class space is not vacuous: accepted, rejected and F-13-shaped inputs all occur
NonVacuous == /\ \E d \in Datagrams : Parse(d).res = "ok" /\ d.pad > 0
              /\ \E d \in Datagrams : Parse(d).res = "invalid"
              /\ \E d \in Datagrams : Parse(d).res = "short"
              /\ \E m \in SerMsgs : CodeParse(Ser(m)).res # Parse(Ser(m)).res

GenInit == Init
GenNext == \E a \in Acts :
             /\ st' = st
             /\ PrintT(<<"CASE", ToJson([act |-> a, out |-> Out(a), cone |-> Cone(a)])>>)
=============================================================================
