------------------------------ MODULE MC_Framing ------------------------------
EXTENDS Framing, Json

CONSTANTS ShapeSample   \* "all" | "small": which shapes the generator prints

VARIABLE st
vars == <<st>>

ShapeSet == IF ShapeSample = "all" THEN Shapes
            ELSE { s \in Shapes : /\ (s.nsrc \in {0, 2} \/ (s.nsrc = 3 /\ s.dur = "max") \/ (s.nsrc = 1 /\ s.nts = "eight"))
                                  /\ (s.nsrv \in {0, 2} \/ s.ctr = "u64max")
                                  /\ (s.thr \/ s.ts = "mid") }
Acts == { [kind |-> "frame", c |-> c] : c \in StreamClasses } \cup { [kind |-> "shape", c |-> s] : s \in ShapeSet }

Init == st = [kind |-> "none"]
Next == \E a \in Acts : st' = a
Spec == Init /\ [][Next]_vars

C38_FramingRule == \A c \in StreamClasses : C38_Framing(c)

OutOf(a) == IF a.kind = "frame" THEN ReadJson(a.c) @@ [order |-> "prefix-first"] ELSE [equal |-> TRUE, nontrivial |-> NonTrivial(a.c)]

GenInit == Init /\ PrintT(<<"INIT", ToJson(st)>>) /\ PrintT(<<"CONES", ToJson(ConeTable)>>)
GenNext == \E a \in Acts :
             /\ st' = a /\ st.kind = "none"
             /\ PrintT(<<"EDGE", ToJson([pre |-> [kind |-> "none"], act |-> a, post |-> [kind |-> "none"], out |-> OutOf(a), ck |-> a.kind])>>)
=============================================================================
