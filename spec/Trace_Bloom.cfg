CONSTANTS
  NBits = 2
INIT TraceInit
NEXT TraceNext
CHECK_DEADLOCK FALSE
