CONSTANTS
  Slice = "Policy"
  Deep = FALSE
  Cutoff = 3
  Prop = "all"
INIT Init
NEXT Next
CHECK_DEADLOCK FALSE
INVARIANTS TypeOK C15_AccessPolicy C16_NoAmplification C17_RequestSizedBufferSuffices C18_EchoOnly C19_NtsAnswers C20_RateLimit C21_Statistics C22_Total
