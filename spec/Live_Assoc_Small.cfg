CONSTANTS
  Mode = "NtsV4"
  MinPoll = 4
  MaxPoll = 4
  LocalStratum = 16
  SrcLocal = FALSE
  History = 0
  MaxGen = 1
  MaxNet = 1
  CLen = 104
  Desired = {4}
SPECIFICATION LiveSpec
CHECK_DEADLOCK FALSE
PROPERTIES ELive_MeasuresAgain
