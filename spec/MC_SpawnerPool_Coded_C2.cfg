CONSTANTS
  W = 4
  Count = 2
  Ignore = {4}
  Addr = {1, 2, 3, 4}
  MaxAns = 3
  AsCoded = TRUE
  DistinctAnswers = FALSE
INIT Init
NEXT Next
VIEW PoolView
CHECK_DEADLOCK FALSE
INVARIANTS TypeOK C35_BoundedInv C35_NoIgnoredInv C35_BookkeepingInv

