---------------------------- MODULE MC_KeRecords ----------------------------
(***************************************************************************)
(* Enumeration of record / message input classes for C30 and the verdicts  *)
(* of the transcribed parsers.  Single state; one transition per case.     *)
(*   rec: one record, then end of stream or endless ignorable records      *)
(*   msg: short sequences over the full / core / exact alphabets, and      *)
(*        every single-symbol replacement / insertion in four valid base   *)
(*        messages (fixed-key request, support request, key-exchange       *)
(*        request, key-exchange response), each with the tails.            *)
(***************************************************************************)
EXTENDS KeRecords, Json

CONSTANTS FullLen,    \* sequences up to this length over the full alphabet
          CoreLen,    \* ... over canonical-critical-bit {empty, exact, long}
          ExactLen,   \* ... over canonical exact records
          SeqTails,   \* tails applied to the core / exact sequences (the full alphabet gets all tails)
          MutTails    \* tails applied to mutated base messages

SeqsUpTo(S, n) == UNION { [1..k -> S] : k \in 0..n }
Core  == CanonSyms({"empty", "exact", "long"})
Exact == CanonSyms({"exact"})
X(t) == [t |-> t, crit |-> CanonCrit(t), cls |-> "exact"]

Bases == { <<X(14), X(12), X(1), X(4), X(8)>>,                 \* fixed-key request
           <<X(14), X(9), X(10), X(8)>>,                       \* support request
           <<X(1), X(4), X(13), X(13)>>,                       \* key-exchange request
           <<X(1), X(4), X(5), X(5), X(6), X(7), X(8)>> }      \* key-exchange response

Replace(b, i, x) == [b EXCEPT ![i] = x]
Insert(b, i, x)  == SubSeq(b, 1, i - 1) \o <<x>> \o SubSeq(b, i, Len(b))     \* i in 1..Len(b)+1
Remove(b, i)     == SubSeq(b, 1, i - 1) \o SubSeq(b, i + 1, Len(b))
Mutants == UNION { { Replace(b, i, x) : i \in 1..Len(b), x \in Syms }
                   \cup { Insert(b, i, x) : i \in 1..(Len(b) + 1), x \in CanonSyms(Classes) }
                   \cup { Remove(b, i) : i \in 1..Len(b) } \cup {b} : b \in Bases }

Families == << [seqs |-> SeqsUpTo(Syms, FullLen), tails |-> Tails],
              [seqs |-> SeqsUpTo(Core, CoreLen) \cup SeqsUpTo(Exact, ExactLen), tails |-> SeqTails],
              [seqs |-> Mutants, tails |-> MutTails] >>
RecCases == { [r |-> r, after |-> a] : r \in Syms, a \in {"eof", "endless"} } \ { [r |-> r, after |-> "endless"] : r \in {x \in Syms : x.cls = "short"} }

VARIABLE st
Init == st = "ke"
Next == UNCHANGED st

C30_ModelBounded == \A k \in 1..Len(Families) : \A recs \in Families[k].seqs : C30_Bounded(recs)

GenInit == Init /\ PrintT(<<"INIT", ToJson([rec |-> Cardinality(RecCases)])>>)
GenNext ==
  \/ \E k \in 1..Len(Families) : \E recs \in Families[k].seqs :
        /\ UNCHANGED st
        /\ ValidTails(recs, Families[k].tails) # {}
        /\ PrintT(<<"CASE", ToJson([f |-> "msg", recs |-> recs, v |-> Verdicts(recs, ValidTails(recs, Families[k].tails))])>>)
  \/ \E c \in RecCases : /\ UNCHANGED st
                         /\ PrintT(<<"CASE", ToJson([f |-> "rec", recs |-> <<c.r>>, tail |-> c.after,
                                                     rec |-> IF RecOk(c.r) THEN "ok" ELSE "err"])>>)
=============================================================================
