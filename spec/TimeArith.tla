------------------------------ MODULE TimeArith ------------------------------
(***************************************************************************)
(* W-bit model of the time arithmetic of ntpd-rs                           *)
(*   ntp-proto/src/time_types.rs  NtpTimestamp (u64, wrapping),            *)
(*                                NtpDuration (i64, saturating),           *)
(*                                PollInterval (i8)                        *)
(*   statime-base/src/time_types.rs  Timestamp (u128), Duration (i128)     *)
(* Timestamps are W-bit unsigned words 0..2^W-1, durations W-bit two's     *)
(* complement numbers -2^(W-1)..2^(W-1)-1.  The operators are transcribed  *)
(* from the machine operations the code uses (wrapping_sub + cast,         *)
(* saturating_add ...); the C32 laws state what they must amount to.       *)
(* x |-> x * 2^(64-W) is a ring homomorphism Z/2^W -> Z/2^64 preserving    *)
(* sign and order, so every wrap / saturation case of the model has an     *)
(* exact 64-bit (and 128-bit) image; the harness evaluates the real        *)
(* operation on the image (DESIGN.md 5.1).                                 *)
(* Property anchored here: C32.                                            *)
(***************************************************************************)
EXTENDS Naturals, Integers, TLC

CONSTANT W
M == 2 ^ W
H == 2 ^ (W - 1)
MAXD == H - 1
MIND == -H
Words == 0..(M - 1)
Durs == MIND..MAXD

ToSigned(u) == IF u >= H THEN u - M ELSE u          \* `as i64` of a u64
ToUnsigned(x) == x % M                              \* `as u64` of an i64
Wrap(v) == ToSigned(v % M)                          \* two's complement result of an i64 operation
Abs(x) == IF x < 0 THEN -x ELSE x
Clamp(v) == IF v > MAXD THEN MAXD ELSE IF v < MIND THEN MIND ELSE v
SatFlag(v) == IF v > MAXD THEN "max" ELSE IF v < MIND THEN "min" ELSE "no"

\* ---- timestamps (wrapping) ----
TsSub(a, b) == ToSigned((a - b) % M)                \* Sub for NtpTimestamp: wrapping_sub as i64
TsAddDur(t, d) == (t + ToUnsigned(d)) % M           \* Add<NtpDuration>: wrapping_add(d as u64)
TsSubDur(t, d) == (t - ToUnsigned(d)) % M           \* Sub<NtpDuration>: wrapping_sub(d as u64)

\* ---- durations (saturating), as the hardware does it: wrapped result, overflow by sign rule ----
SatAdd(x, y) == LET w == Wrap(x + y)
                IN  IF (x >= 0) = (y >= 0) /\ (w >= 0) # (x >= 0) THEN (IF x >= 0 THEN MAXD ELSE MIND) ELSE w
SatSub(x, y) == LET w == Wrap(x - y)
                IN  IF (x >= 0) # (y >= 0) /\ (w >= 0) # (x >= 0) THEN (IF x >= 0 THEN MAXD ELSE MIND) ELSE w
SatMul(x, k) == IF x * k \in Durs THEN x * k ELSE IF (x < 0) # (k < 0) THEN MIND ELSE MAXD
\* negation and absolute value as the property demands them (saturating); the code uses plain `-` and `abs()`
DurNeg(x) == IF x = MIND THEN MAXD ELSE -x
DurAbs(x) == IF x = MIND THEN MAXD ELSE Abs(x)

\* ---- poll interval exponents (i8, W = 8): inc / dec stay within the limits, force_inc saturates ----
PollInc(p, max) == LET q == Clamp(p + 1) IN IF q < max THEN q ELSE max
PollDec(p, min) == LET q == Clamp(p - 1) IN IF q > min THEN q ELSE min
PollForceInc(p) == Clamp(p + 1)

\* value and saturation flag of an operation [op, a, b]
Exact(o) == CASE o.op = "DurAdd" -> o.a + o.b [] o.op = "DurSub" -> o.a - o.b [] o.op = "DurMul" -> o.a * o.b
              [] o.op = "DurNeg" -> -o.a [] o.op = "DurAbs" -> Abs(o.a) [] OTHER -> 0
Value(o) == CASE o.op = "TsSub" -> TsSub(o.a, o.b) [] o.op = "TsAddDur" -> TsAddDur(o.a, o.b) [] o.op = "TsSubDur" -> TsSubDur(o.a, o.b)
              [] o.op = "DurAdd" -> SatAdd(o.a, o.b) [] o.op = "DurSub" -> SatSub(o.a, o.b) [] o.op = "DurMul" -> SatMul(o.a, o.b)
              [] o.op = "DurNeg" -> DurNeg(o.a) [] o.op = "DurAbs" -> DurAbs(o.a)
              [] o.op = "PollInc" -> PollInc(o.a, o.b) [] o.op = "PollDec" -> PollDec(o.a, o.b) [] o.op = "PollForceInc" -> PollForceInc(o.a)
Out(o) == [v |-> Value(o), sat |-> SatFlag(Exact(o))]

(***************************************************************************)
(* C32, declaratively                                                      *)
(***************************************************************************)
\* the difference is the shortest signed one across the era boundary, and adding it back restores the timestamp
C32_ShortestDifference(a, b) ==
  LET r == TsSub(a, b) IN
  /\ r \in Durs /\ (b + r) % M = a
  /\ Abs(r) <= Abs(r + M) /\ Abs(r) <= Abs(r - M)
C32_AddBack(a, b) == TsAddDur(b, TsSub(a, b)) = a /\ TsSubDur(a, TsSub(a, b)) = b
C32_TsAddSub(t, d) == TsSubDur(TsAddDur(t, d), d) = t /\ (d # MIND => TsSub(TsAddDur(t, d), t) = d)
\* duration operations saturate instead of wrapping
C32_Saturating(x, y) ==
  /\ SatAdd(x, y) = Clamp(x + y) /\ SatSub(x, y) = Clamp(x - y) /\ SatMul(x, y) = Clamp(x * y)
  /\ DurNeg(x) = Clamp(-x) /\ DurAbs(x) = Clamp(Abs(x)) /\ DurAbs(x) >= 0
C32_Poll(p, l) == /\ PollInc(p, l) <= l /\ (p < l => PollInc(p, l) = p + 1)
                  /\ PollDec(p, l) >= l /\ (p > l => PollDec(p, l) = p - 1)
                  /\ PollForceInc(p) >= p
C32_Law(o) ==
  CASE o.op \in {"TsSub"} -> C32_ShortestDifference(o.a, o.b) /\ C32_AddBack(o.a, o.b)
    [] o.op \in {"TsAddDur", "TsSubDur"} -> C32_TsAddSub(o.a, o.b)
    [] o.op \in {"DurAdd", "DurSub", "DurMul"} -> C32_Saturating(o.a, o.b)
    [] o.op \in {"DurNeg", "DurAbs"} -> C32_Saturating(o.a, 0)
    [] o.op \in {"PollInc", "PollDec", "PollForceInc"} -> C32_Poll(o.a, o.b)
    [] OTHER -> TRUE
=============================================================================
