CONSTANTS
  What = "leap"
  NFull = 0
  EndFull = 0
  WFull = 0
  NOk = 0
  EndOk = 0
  WOk = 0
  MinAgrees = {1}
  NLeap = 6
INIT Init
NEXT Next
CHECK_DEADLOCK FALSE
INVARIANTS C04_LeapMajority
