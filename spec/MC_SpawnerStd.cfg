CONSTANTS
  W = 4
  Count = 1
  Ignore = {}
  Addr = {1, 2, 3}
  MaxAns = 2
INIT Init
NEXT Next
CHECK_DEADLOCK FALSE
INVARIANTS TypeOK C36_Standard
