CONSTANTS
  ShapeSample = "all"
INIT GenInit
NEXT GenNext
CHECK_DEADLOCK FALSE
INVARIANTS C38_FramingRule
