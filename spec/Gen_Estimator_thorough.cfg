CONSTANTS
  MaxIds = 4
  MaxInt = 3
  MaxExt = 2
  MaxLinks = 2
INIT GenInit
NEXT GenNext
CHECK_DEADLOCK FALSE
INVARIANTS TypeOK C42_UnrelatedEstimatesIntact
