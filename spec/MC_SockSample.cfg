CONSTANTS
  AsCoded = FALSE
  OnlyPath = "any"
  OnlySize40 = FALSE
  OnlyFinite = FALSE
INIT Init
NEXT Next
CHECK_DEADLOCK FALSE
INVARIANTS C40_Validated

