------------------------------ MODULE MC_Bloom ------------------------------
(***************************************************************************)
(* Bounded configurations of Bloom.tla: the action alphabet per part, the  *)
(* invariants (C34) and the transition printer for implementation replay.  *)
(***************************************************************************)
EXTENDS Bloom, Json

CONSTANTS Part,        \* "transfer" | "serve" | "ids"
          N,           \* transfer: number of chunks (512 / chunk size)
          Offs, Lens   \* serve: boundary classes of request offset / payload length

VARIABLE st
vars == <<st>>

TransferActs == {[t |-> "Request"]}
                \cup {[t |-> "Response", id |-> i, len |-> l, content |-> c] :
                        i \in {"cur", "old", "other"}, l \in LenClasses, c \in -1..(N - 1)}
\* ReferenceIdRequest::new adds two u16 without overflow check; the client only calls it with values <= 512
ServeActs == {a \in {[t |-> "Serve", via |-> v, off |-> o, len |-> l] : v \in {"new", "decode"}, o \in Offs, l \in Lens} :
                a.via = "new" => a.off + a.len <= 65535}
IdsActs == {[t |-> "AddId", f |-> f, i |-> i] : f \in {"a", "b"}, i \in 1..NIds}
           \cup {[t |-> "Merge", f |-> f] : f \in {"a", "b"}} \cup {[t |-> "Collect"]}

Acts == CASE Part = "transfer" -> TransferActs [] Part = "serve" -> ServeActs [] Part = "ids" -> IdsActs

Init == st = InitState(N)
Next == \E a \in Acts : Enabled(st, a) /\ st' = Post(st, a)
Spec == Init /\ [][Next]_vars

TypeOK == /\ st.n = N /\ st.next \in 0..(N - 1) /\ st.awaiting \in -1..(N - 1) /\ st.reqs \in 0..2
          /\ st.filled \in BOOLEAN /\ \A c \in 1..N : st.local[c] \in -1..N

C34_BloomTransfer ==
  /\ C34_FilledIsServerCopy(st) /\ C34_Progress(st)
  /\ \A a \in Acts : C34_Step(st, a) /\ C34_Serve(a) /\ C34_Collect(st, a)
  /\ C34_NoFalseNegatives(st)

\* ---- test generation: print every explored transition once ----
GenInit == Init /\ PrintT(<<"INIT", ToJson(st)>>) /\ PrintT(<<"CONES", ToJson(ConeTable)>>)
GenNext == \E a \in Acts :
             /\ Enabled(st, a)
             /\ st' = Post(st, a)
             /\ PrintT(<<"EDGE", ToJson([pre |-> st, act |-> a, post |-> st', out |-> Out(st, a),
                                          ck |-> ConeKey(st, a)])>>)
=============================================================================
