---------------------------- MODULE Trace_KeySet ----------------------------
(***************************************************************************)
(* Trace validation for KeySet.tla.  Two kinds of recorded behaviours:     *)
(*  - sessions of the real KeySetProvider + key file driven by             *)
(*    harness/ntp_proto/keyset.rs (all actions, real 32-bit wrap-around    *)
(*    projected modulo M, longer histories);                               *)
(*  - runs of the REAL provider task of the daemon                         *)
(*    (harness/ntpd/nts_key_provider.rs), observed at file level with the  *)
(*    macro steps  Start = Restart; Open; Write*; Close  and               *)
(*                 Cycle = Rotate;  Open; Write*; Close.                   *)
(* A "reset" event starts a behaviour from the observed initial file; each *)
(* "step" is re-executed with Post/Out and every logged observable is      *)
(* compared.  A disagreement is printed with the cones of the step; the    *)
(* rest of that behaviour is skipped.                                      *)
(***************************************************************************)
EXTENDS KeySet, Json, IOUtils

Rec == ndJsonDeserialize(IOEnv.TRACE)

VARIABLES l, skip, nb, fin
tvars == <<st, l, skip, nb, fin>>

RECURSIVE WriteAll(_)
WriteAll(s) == IF s.fd \in 1..NTok(s) THEN WriteAll(PostWrite(s)) ELSE s
StorePath(s) == PostClose(WriteAll(PostOpen(s)))

PostT(s, a) == CASE a.t = "Start" -> StorePath(PostRestart(s))
                 [] a.t = "Cycle" -> StorePath(PostRotate(s))
                 [] OTHER -> Post(s, a)
OutT(s, a) == CASE a.t = "Start" -> [Out(s, [t |-> "Restart"]) EXCEPT !.load = "same"]
                [] a.t = "Cycle" -> [NoOut EXCEPT !.load = "same"]
                [] OTHER -> Out(s, a)
ConesT(s, a) == IF a.t \in {"Start", "Cycle"}
                THEN [C26 |-> IF a.t = "Cycle" THEN {"disk", "usable"} ELSE {},
                      C27 |-> IF a.t = "Start" THEN {"disk", "out.res", "out.load", "usable", "panic"}
                              ELSE {"out.load", "usable", "panic"}]   \* Cycle: the file is the published set (content: C26)
                ELSE Cones(s, a)

DiskEq(e, o) == /\ e.exists = o.exists
                /\ (e.exists => e.mode = o.mode)
                /\ Len(e.toks) = Len(o.toks)
                /\ \A i \in 1..Len(e.toks) : e.toks[i].part = o.toks[i].part /\ (e.toks[i].part \/ e.toks[i].v = o.toks[i].v)

Diff(exp, eo, ev) ==
  IF ev.panic # "" THEN {"panic"}
  ELSE (IF exp.up # ev.st.up THEN {"up"} ELSE {})
       \cup (IF ev.st.memobs /\ exp.up THEN { f \in {"keys", "offset", "primary"} : exp[f] # ev.st[f] } ELSE {})
       \cup (IF exp.up /\ ~ev.st.usable THEN {"usable"} ELSE {})
       \cup (IF ~DiskEq(exp.disk, ev.st.disk) THEN {"disk"} ELSE {})
       \cup (IF eo.res # ev.out.res THEN {"out.res"} ELSE {})
       \cup (IF eo.load # ev.out.load THEN {"out.load"} ELSE {})
       \cup (IF ev.out.w # -1000 /\ eo.w # ev.out.w THEN {"out.w"} ELSE {})
       \cup (IF ev.out.k # -1000 /\ eo.k # ev.out.k THEN {"out.k"} ELSE {})

TraceInit == l = 1 /\ skip = FALSE /\ nb = 0 /\ fin = FALSE /\ st = InitState

Reset(ev) == /\ st' = [InitState EXCEPT !.disk = ev.st.disk]
             /\ skip' = FALSE /\ nb' = nb + 1

Step(ev) ==
  IF skip THEN UNCHANGED <<st, skip, nb>>
  ELSE LET a   == ev.act
           exp == PostT(st, a)
           eo  == OutT(st, a)
           d   == Diff(exp, eo, ev)
       IN /\ nb' = nb
          /\ IF d = {} THEN st' = exp /\ skip' = FALSE
             ELSE /\ UNCHANGED st /\ skip' = TRUE
                  /\ PrintT(<<"MISMATCH", ToJson([line |-> l, act |-> a, fields |-> d, cones |-> ConesT(st, a),
                                                   pre |-> st, expected |-> [st |-> exp, out |-> eo],
                                                   observed |-> [st |-> ev.st, out |-> ev.out], panic |-> ev.panic])>>)

TraceNext ==
  \/ /\ l <= Len(Rec) /\ l' = l + 1 /\ UNCHANGED fin
     /\ IF Rec[l].ev = "reset" THEN Reset(Rec[l]) ELSE Step(Rec[l])
  \/ /\ l = Len(Rec) + 1 /\ ~fin /\ fin' = TRUE /\ UNCHANGED <<st, l, skip, nb>>
     /\ PrintT(<<"DONE", ToJson([consumed |-> Len(Rec), behaviours |-> nb])>>)

TraceSpec == TraceInit /\ [][TraceNext]_tvars
=============================================================================
