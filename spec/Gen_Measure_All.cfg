CONSTANTS
  W = 8
  T1s = {0, 1, 2, 3, 5, 8, 31, 40, 41, 63, 64, 65, 100, 120, 126, 127, 128, 129, 130, 136, 160, 168, 191, 192, 193, 200, 215, 216, 224, 225, 247, 248, 250, 253, 254, 255}
  DiffAbs = {0, 1, 2, 3, 4, 5, 6, 7, 8, 31, 40}
INIT GenInit
NEXT GenNext
CHECK_DEADLOCK FALSE
INVARIANTS C05_OnWireFormulas AllRepresentable
