---------------------------- MODULE MC_ClockSel ----------------------------
(***************************************************************************)
(* Pure-function enumerations for ClockSel.tla.                            *)
(*  What = "select": every candidate LIST (order matters) of 0..NFull      *)
(*    candidates of every kind and of NFull+1..NOk candidates of kind      *)
(*    "ok", with integer interval ends, for every minAgree in MinAgrees.   *)
(*  What = "leap": every multiset of up to NLeap leap indicators.          *)
(* The state only partitions the case space (so that TLC's workers share   *)
(* the enumeration); every case is printed as an EDGE line and replayed on *)
(* the real select() / combine() by harness/ntp_proto/kalman.rs.           *)
(***************************************************************************)
EXTENDS ClockSel, Json

CONSTANTS What,
          NFull, EndFull, WFull,   \* family 1: 0..NFull candidates of every kind, ends in 0..EndFull, maxW = WFull
          NOk, EndOk, WOk,         \* family 2: NFull+1..NOk candidates of kind "ok", ends in 0..EndOk, maxW = WOk
          MinAgrees, NLeap

VARIABLE st
vars == <<st>>

Cand(full, e) == { [lo |-> l, hi |-> h, kind |-> k] : l \in 0..e, h \in 0..e,
                     k \in (IF full THEN {"ok", "periodic", "unsync"} ELSE {"ok"}) } \ { c \in [lo : 0..e, hi : 0..e, kind : {"ok", "periodic", "unsync"}] : c.lo > c.hi }

\* partitions: (n, minAgree, first candidate)
SelShapes == { [n |-> 0, full |-> TRUE, e |-> EndFull, w |-> WFull, m |-> m, first |-> [lo |-> 0, hi |-> 0, kind |-> "ok"]] : m \in MinAgrees }
             \cup { [n |-> n, full |-> TRUE, e |-> EndFull, w |-> WFull, m |-> m, first |-> c] :
                       n \in 1..NFull, m \in MinAgrees, c \in Cand(TRUE, EndFull) }
             \cup { [n |-> n, full |-> FALSE, e |-> EndOk, w |-> WOk, m |-> m, first |-> c] :
                       n \in (NFull + 1)..NOk, m \in MinAgrees, c \in Cand(FALSE, EndOk) }
SelCases(sh) == IF sh.n = 0 THEN { <<>> }
                ELSE { <<sh.first>> \o tl : tl \in [1..(sh.n - 1) -> Cand(sh.full, sh.e)] }

\* leap votes depend on the multiset only: counts of none/59/61/unknown, in a canonical order
\* (the harness presents each multiset in several orders)
Rep(x, n) == [i \in 1..n |-> x]
LeapShapes == { [a |-> a] : a \in 0..NLeap }
LeapCases(sh) == { Rep("none", sh.a) \o Rep("59", b) \o Rep("61", c) \o Rep("unknown", u) :
                     b \in 0..NLeap, c \in 0..NLeap, u \in 0..NLeap } 

Init == st \in (IF What = "select" THEN SelShapes ELSE LeapShapes)
Next == UNCHANGED st

C03_MajorityConsensus ==
  What = "select" => \A cs \in SelCases(st) : C03_Sel(cs, st.m, st.w) /\ SweepConsistent(cs, st.w)
C04_LeapMajority ==
  What = "leap" => \A ls \in { x \in LeapCases(st) : Len(x) <= NLeap } : C04_Vote(ls)

\* ---- test generation ----
SetToSeq(S) == LET n == Cardinality(S) IN [i \in 1..n |-> CHOOSE x \in S : Cardinality({y \in S : y < x}) = i - 1]

GenInit == Init
GenNext ==
  /\ UNCHANGED st
  /\ IF What = "select"
       THEN \A cs \in SelCases(st) :
              PrintT(<<"EDGE", ToJson([m |-> st.m, w |-> st.w, c |-> cs, sel |-> SetToSeq(Select(cs, st.m, st.w))])>>)
       ELSE \A ls \in { x \in LeapCases(st) : Len(x) <= NLeap } :
              PrintT(<<"EDGE", ToJson([l |-> ls, vote |-> VoteLeap(ls)])>>)
=============================================================================
