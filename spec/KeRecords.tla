----------------------------- MODULE KeRecords -----------------------------
(***************************************************************************)
(* Wire grammar of NTS-KE records and messages (ntp-proto/src/nts/         *)
(* record.rs, messages.rs) as input classes, and the parsers transcribed   *)
(* as verdict functions over these classes (C30).                          *)
(*                                                                         *)
(* A record class is [t, crit, cls]:                                       *)
(*   t    wire type 0..14 (11 is unassigned) or 99 (some large unknown id) *)
(*   crit critical bit                                                     *)
(*   cls  declared length versus body:                                     *)
(*        "empty"   declared 0                                             *)
(*        "exact"   the canonical body of that type (one list element,     *)
(*                  2-byte code, 16-byte cookie, 64 key bytes, text)       *)
(*        "long"    canonical body plus one more element / 2 more bytes    *)
(*        "odd"     declared 3, three bytes present                        *)
(*        "short"   declared 4, the stream ends after 2 body bytes         *)
(*        "big"     declared 5000, all present (larger than a message)     *)
(*        "badutf8" (text-bodied types) bytes that are not UTF-8           *)
(* A message case is [recs, tail]: the records, then                       *)
(*   "eom"      an end-of-message record                                   *)
(*   "eof"      the stream ends                                            *)
(*   "endless"  ignorable records for ever (no end-of-message)             *)
(*   "fill"     ignorable padding in front so that the end-of-message      *)
(*              record ends exactly at byte 4096                           *)
(*   "straddle" padding in front so that the end-of-message record begins  *)
(*              at byte 4094 and the stream goes on for ever               *)
(***************************************************************************)
EXTENDS Naturals, Integers, Sequences, FiniteSets, TLC

Types     == (0..14) \cup {99}
Unknown   == {11, 99}
TextTypes == {6, 13, 14}
ListTypes == {1, 4, 9, 10}
CodeTypes == {2, 3, 7}
\* "utf8": (text-bodied types) valid UTF-8 text with multi-byte characters (byte length # character count)
Classes   == {"empty", "exact", "long", "odd", "short", "big", "badutf8", "utf8"}

\* record.rs record_type(): the critical bit the serialiser writes
CanonCrit(t) == t \in {0, 1, 2, 3, 4, 6, 7, 9, 10, 12}

ValidSym(r) == r.cls \in {"badutf8", "utf8"} => r.t \in TextTypes
Syms == { r \in [t : Types, crit : BOOLEAN, cls : Classes] : ValidSym(r) }
CanonSyms(C) == { r \in Syms : r.cls \in C /\ r.crit = CanonCrit(r.t) }

\* ---- NtsRecord::parse (record.rs:64-256): does a record of this class parse (all declared bytes available)? ----
RecOk(r) ==
  CASE r.cls = "short"   -> FALSE                                   \* body ends early: UnexpectedEof everywhere
    [] r.cls = "badutf8" -> FALSE                                   \* read_to_string: InvalidData (:159-167, :236-256)
    [] r.t \in CodeTypes -> r.cls = "exact"                         \* :121-137, :169-176: exactly two bytes
    [] r.t \in ListTypes -> r.cls # "odd"                           \* :109-119 ...: whole u16s (type 10: whole pairs; 3 bytes fail too)
    [] r.t = 12          -> r.cls # "odd"                           \* :218-234: two halves, nothing left over
    [] OTHER             -> TRUE                                    \* 0, 8: body ignored; 5, text, unknown: any length

\* number of list elements of a list-typed record
Count(r) == CASE r.cls = "empty" -> 0 [] r.cls = "exact" -> 1 [] r.cls = "long" -> 2 [] OTHER -> 3

\* ---- Request::parse (messages.rs:42-183) ----
ReqAcc0 == [fin |-> "", protos |-> -1, algs |-> -1, keys |-> "none", auth |-> FALSE, wp |-> FALSE, wa |-> FALSE]

ReqRec(acc, r) ==
  IF acc.fin # "" THEN acc
  ELSE IF r.cls = "big" \/ ~RecOk(r) THEN [acc EXCEPT !.fin = "err:IO"]       \* beyond 4096 / record error (:55)
  ELSE CASE r.t = 0  -> [acc EXCEPT !.fin = "end"]
         [] r.t = 1  -> IF acc.protos # -1 THEN [acc EXCEPT !.fin = "err:Invalid"] ELSE [acc EXCEPT !.protos = Count(r)]
         [] r.t = 4  -> IF acc.algs # -1 THEN [acc EXCEPT !.fin = "err:Invalid"] ELSE [acc EXCEPT !.algs = Count(r)]
         [] r.t = 12 -> IF acc.keys # "none" THEN [acc EXCEPT !.fin = "err:Invalid"]
                        ELSE [acc EXCEPT !.keys = IF r.cls = "exact" THEN "good" ELSE "bad"]
         [] r.t = 10 -> IF acc.wa THEN [acc EXCEPT !.fin = "err:Invalid"] ELSE [acc EXCEPT !.wa = TRUE]
         [] r.t = 9  -> IF acc.wp THEN [acc EXCEPT !.fin = "err:Invalid"] ELSE [acc EXCEPT !.wp = TRUE]
         [] r.t = 14 -> IF acc.auth THEN [acc EXCEPT !.fin = "err:Invalid"] ELSE [acc EXCEPT !.auth = TRUE]
         [] r.t \in Unknown -> IF r.crit THEN [acc EXCEPT !.fin = "err:UnrecognizedCriticalRecord"] ELSE acc
         [] r.t \in {2, 3, 5} -> [acc EXCEPT !.fin = "err:Invalid"]
         [] OTHER -> acc                                                        \* 13 (collected), 8, 6, 7

ReqEnd(acc) ==                                                                  \* :118-182
  IF acc.wa \/ acc.wp THEN
     (IF acc.auth /\ acc.keys = "none" /\ acc.protos = -1 /\ acc.algs = -1 THEN "ok:Support" ELSE "err:Invalid")
  ELSE IF acc.keys # "none" THEN
     (IF acc.auth /\ acc.protos # -1 /\ acc.algs # -1
        THEN (IF acc.protos # 1 \/ acc.algs # 1 THEN "err:Invalid"
              ELSE IF acc.keys = "good" THEN "ok:FixedKey" ELSE "err:IncorrectSizedKey")
        ELSE "err:Invalid")
  ELSE IF acc.protos # -1 /\ acc.algs # -1 THEN "ok:KeyExchange" ELSE "err:Invalid"

\* ---- KeyExchangeResponse::parse (messages.rs:297-386) ----
RespAcc0 == [fin |-> "", proto |-> FALSE, alg |-> FALSE, server |-> FALSE, port |-> FALSE]

RespRec(acc, r) ==
  IF acc.fin # "" THEN acc
  ELSE IF r.cls = "big" \/ ~RecOk(r) THEN [acc EXCEPT !.fin = "err:IO"]
  ELSE CASE r.t = 0  -> [acc EXCEPT !.fin = "end"]
         [] r.t = 1  -> IF acc.proto THEN [acc EXCEPT !.fin = "err:Invalid"]
                        ELSE IF Count(r) = 0 THEN [acc EXCEPT !.fin = "err:NoOverlappingProtocol"]
                        ELSE IF Count(r) = 1 THEN [acc EXCEPT !.proto = TRUE] ELSE [acc EXCEPT !.fin = "err:Invalid"]
         [] r.t = 4  -> IF acc.alg THEN [acc EXCEPT !.fin = "err:Invalid"]
                        ELSE IF Count(r) = 0 THEN [acc EXCEPT !.fin = "err:NoOverlappingAlgorithm"]
                        ELSE IF Count(r) = 1 THEN [acc EXCEPT !.alg = TRUE] ELSE [acc EXCEPT !.fin = "err:Invalid"]
         [] r.t = 6  -> IF acc.server THEN [acc EXCEPT !.fin = "err:Invalid"] ELSE [acc EXCEPT !.server = TRUE]
         [] r.t = 7  -> IF acc.port THEN [acc EXCEPT !.fin = "err:Invalid"] ELSE [acc EXCEPT !.port = TRUE]
         [] r.t = 2  -> [acc EXCEPT !.fin = "err:Error"]
         [] r.t = 3  -> [acc EXCEPT !.fin = "err:UnknownWarning"]
         [] r.t \in Unknown -> IF r.crit THEN [acc EXCEPT !.fin = "err:UnrecognizedCriticalRecord"] ELSE acc
         [] r.t \in {13, 12, 10, 9} -> [acc EXCEPT !.fin = "err:Invalid"]
         [] OTHER -> acc                                                        \* 5 (cookie), 8, 14

RespEnd(acc) == IF acc.proto /\ acc.alg THEN "ok" ELSE "err:Invalid"

RECURSIVE Fold(_, _, _, _)
Fold(F(_, _), acc, recs, i) == IF i > Len(recs) THEN acc ELSE Fold(F, F(acc, recs[i]), recs, i + 1)

\* end of stream: an end-of-message record that can be read completes the message; everything else is an I/O error
Fin(E(_), acc, tail) ==
  IF acc.fin = "end" THEN E(acc)
  ELSE IF acc.fin # "" THEN acc.fin
  ELSE IF tail \in {"eom", "fill"} THEN E(acc) ELSE "err:IO"

ReqVerdict(c)  == Fin(ReqEnd, Fold(ReqRec, ReqAcc0, c.recs, 1), c.tail)
RespVerdict(c) == Fin(RespEnd, Fold(RespRec, RespAcc0, c.recs, 1), c.tail)

\* the verdicts of one record sequence under a set of tails (one fold per parser)
Verdicts(recs, tails) ==
  LET ra == Fold(ReqRec, ReqAcc0, recs, 1)
      pa == Fold(RespRec, RespAcc0, recs, 1)
  IN [t \in tails |-> [req |-> Fin(ReqEnd, ra, t), resp |-> Fin(RespEnd, pa, t)]]

Tails == {"eom", "eof", "endless", "fill", "straddle"}
\* well-formed cases: a truncated record can only be the last thing of a stream that ends; records larger than a
\* message cannot be combined with exact padding
ValidCase(c) ==
  /\ \A i \in 1..Len(c.recs) : c.recs[i].cls = "short" => (i = Len(c.recs) /\ c.tail = "eof")
  /\ (\E i \in 1..Len(c.recs) : c.recs[i].cls = "big") => c.tail \in {"eom", "endless"}

\* ---- C30 on the model: the transcribed parsers are total functions of the case (every case has exactly one
\* verdict, by construction of the fold) and a message is decided by what lies within its first 4096 bytes: the verdict
\* of a case that does not fit does not depend on anything behind the limit (tails "straddle" and "endless" are
\* indistinguishable from "eof"), and without an end-of-message record inside the limit nothing is accepted.
ValidTails(recs, tails) == { t \in tails : ValidCase([recs |-> recs, tail |-> t]) }
C30_Bounded(recs) ==
  LET v == Verdicts(recs, {"eof", "straddle", "endless"})
  IN /\ v["straddle"] = v["eof"] /\ v["endless"] = v["eof"]
     /\ (\A i \in 1..Len(recs) : recs[i].t # 0) =>
           (v["eof"].req \notin {"ok:KeyExchange", "ok:FixedKey", "ok:Support"} /\ v["eof"].resp # "ok")
=============================================================================
