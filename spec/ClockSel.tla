------------------------------ MODULE ClockSel ------------------------------
(***************************************************************************)
(* Pure decision functions of the clock controller of ntpd-rs, transcribed *)
(* branch by branch (constant-free, so that they can be enumerated on      *)
(* their own and used by the controller model ClockCtl.tla):               *)
(*                                                                         *)
(*   Select    ntp-proto/src/algorithm/kalman/select.rs   select()         *)
(*   VoteLeap  ntp-proto/src/algorithm/kalman/combiner.rs vote_leap()      *)
(*                                                                         *)
(* A candidate is a record [lo, hi, kind]: the confidence interval         *)
(* [offset - radius, offset + radius] with integer ends, and               *)
(*   kind = "ok"        synchronised, non-periodic                         *)
(*          "periodic"  synchronised, has a wrap-around period             *)
(*          "unsync"    leap indicator Unsynchronized                      *)
(* "too uncertain" is radius > maximum_source_uncertainty, i.e.            *)
(* hi - lo > maxW (maxW = twice the maximum radius).                       *)
(* Candidates are given as a SEQUENCE: the order is the iteration order of *)
(* the controller's hash map and it matters, see the note at Sorted.       *)
(*                                                                         *)
(* Properties stated here: C03 (C03_Sel), C04 (C04_Vote).                  *)
(***************************************************************************)
EXTENDS Naturals, Integers, Sequences, FiniteSets, TLC

TooWide(c, maxW) == c.hi - c.lo > maxW

\* select.rs:27-43  which candidates contribute a pair of bounds to the sweep
Voter(c, maxW) == c.kind = "ok" /\ ~TooWide(c, maxW)

\* select.rs:25-43  bounds in candidate order: (lo, Start), (hi, End) per voter
Bounds(cands, maxW) ==
  LET B[k \in 0..Len(cands)] ==
        IF k = 0 THEN <<>>
        ELSE B[k - 1] \o (IF Voter(cands[k], maxW)
                            THEN << [v |-> cands[k].lo, s |-> TRUE], [v |-> cands[k].hi, s |-> FALSE] >>
                            ELSE <<>>)
  IN B[Len(cands)]

\* select.rs:45  `sort_by(total_cmp)` is a STABLE sort on the value only: a Start and an End with the
\* same value keep their insertion order.  Hence for touching intervals ([0,2] and [2,4]) the sweep
\* counts 2 overlapping sources when the right-hand interval was inserted first and 1 otherwise.
\* Both answers satisfy C03 (closed intervals do share the point 2; answering 1 is merely conservative);
\* the specification models what the code does.
Sorted(b) ==
  LET vs == { b[k].v : k \in 1..Len(b) }
      n  == Cardinality(vs)
      vseq == [k \in 1..n |-> CHOOSE x \in vs : Cardinality({ y \in vs : y < x }) = k - 1]
      F[k \in 0..n] == IF k = 0 THEN <<>> ELSE F[k - 1] \o SelectSeq(b, LAMBDA e : e.v = vseq[k])
  IN F[n]

\* select.rs:50-73  the sweep
Sweep(sb) ==
  LET n == Len(sb)
      f[i \in 0..n] ==
        IF i = 0 THEN [cur |-> 0, ml |-> 0, mh |-> 0, tl |-> 0, th |-> 0]
        ELSE LET p == f[i - 1]
                 e == sb[i]
             IN IF e.s
                  THEN IF p.cur + 1 > p.ml THEN [p EXCEPT !.cur = p.cur + 1, !.ml = p.cur + 1, !.tl = e.v]
                                            ELSE [p EXCEPT !.cur = p.cur + 1]
                  ELSE IF p.cur > p.mh THEN [p EXCEPT !.mh = p.cur, !.th = e.v, !.cur = p.cur - 1]
                                       ELSE [p EXCEPT !.cur = p.cur - 1]
  IN f[n]

\* select.rs:78  assert_eq!(maxlow, maxhigh) never fires
SweepConsistent(cands, maxW) == LET w == Sweep(Sorted(Bounds(cands, maxW))) IN w.ml = w.mh

\* select.rs:81-96  result: indices (positions in cands) of the selected candidates
Select(cands, minAgree, maxW) ==
  LET sb == Sorted(Bounds(cands, maxW))
      w  == Sweep(sb)
  IN IF w.ml >= minAgree /\ w.ml * 4 > Len(sb)
       THEN { k \in 1..Len(cands) : /\ ~TooWide(cands[k], maxW)
                                    /\ cands[k].lo <= w.th /\ cands[k].hi >= w.tl
                                    /\ cands[k].kind # "unsync" }
       ELSE {}

(***************************************************************************)
(* C03 (selection part), stated declaratively and no stronger than the     *)
(* property text: a non-empty selection (= the controller goes on to       *)
(* steer) implies that some point is contained in the intervals of at      *)
(* least minAgree eligible sources and of a strict majority of all         *)
(* eligible sources (eligible = synchronised, non-periodic, acceptable     *)
(* uncertainty; usability is the caller's filter); and no unsynchronised   *)
(* or too uncertain source is ever part of the selection.                  *)
(* Note (modelled, not forbidden by C03): the final filter keeps every     *)
(* acceptable source whose interval meets the maximal-overlap region, so   *)
(* the selection may contain periodic sources and sources that merely      *)
(* touch the region at one of its ends.                                    *)
(***************************************************************************)
C03_Sel(cands, minAgree, maxW) ==
  LET sel  == Select(cands, minAgree, maxW)
      Elig == { k \in 1..Len(cands) : Voter(cands[k], maxW) }
      Pts  == { cands[k].lo : k \in Elig } \cup { cands[k].hi : k \in Elig }
      Agree(x) == { k \in Elig : cands[k].lo <= x /\ x <= cands[k].hi }
  IN /\ sel # {} => \E x \in Pts : /\ Cardinality(Agree(x)) >= minAgree
                                   /\ 2 * Cardinality(Agree(x)) > Cardinality(Elig)
     /\ \A k \in sel : cands[k].kind # "unsync" /\ ~TooWide(cands[k], maxW)

(***************************************************************************)
(* Leap vote.  Indicators: "none" (NoWarning) "59" "61" "unknown".         *)
(* Result "keep" = None = the previous indicator stays.                    *)
(* ("unsync" sources cannot be selected; vote_leap panics on them.)        *)
(***************************************************************************)
Count(leaps, x) == Cardinality({ k \in 1..Len(leaps) : leaps[k] = x })

\* combiner.rs:12-37
VoteLeap(leaps) ==
  LET known == Len(leaps) - Count(leaps, "unknown")
  IN IF Count(leaps, "none") * 2 > known THEN "none"
     ELSE IF Count(leaps, "59") * 2 > known THEN "59"
     ELSE IF Count(leaps, "61") * 2 > known THEN "61"
     ELSE "keep"

\* C04: the announced indicator is one that a strict majority of the selected sources with a known leap
\* status report; without such a majority the previous one is kept.
C04_Vote(leaps) ==
  LET r == VoteLeap(leaps)
      known == Len(leaps) - Count(leaps, "unknown")
      Maj(v) == 2 * Count(leaps, v) > known
  IN /\ r \in {"none", "59", "61"} => Maj(r)
     /\ r = "keep" => \A v \in {"none", "59", "61"} : ~Maj(v)
=============================================================================
