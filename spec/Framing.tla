------------------------------- MODULE Framing -------------------------------
(***************************************************************************)
(* The observation socket protocol (ntpd/src/daemon/sockets.rs:8-42):      *)
(* one message = 8-byte big-endian length, then that many bytes of JSON.   *)
(* Property C38.                                                           *)
(*                                                                         *)
(* Part 1, framing.  read_json as a state machine over a byte stream:      *)
(*   ReadLen          read_u64 (8 bytes, possibly in several reads)        *)
(*   Reject           announced length > 2^20: error, nothing else read    *)
(*   ReadPayload(n)   read_exact of n bytes                                *)
(*   Parse            serde_json::from_slice                               *)
(* A stream class is [len, prefix, avail, json, chunk]:                    *)
(*   len     announced length token (TLC integers are 32 bit, so lengths   *)
(*           are tokens; Max = 2^20)                                       *)
(*   prefix  "full" | "cut7" | "cut0": how much of the 8-byte prefix the   *)
(*           stream contains                                               *)
(*   avail   payload bytes present: "exact" (= len), "short" (len - 1),    *)
(*           "extra" (len + 5 bytes of a following message), "none",       *)
(*           "some" (16 bytes; for lengths that cannot be materialised)    *)
(*   json    payload is "valid" | "invalid" JSON                           *)
(*   chunk   bytes the stream hands out per read call: 1 | 3 | 0 (= all)   *)
(* The outcome is the result class and how many prefix / payload bytes     *)
(* were taken from the stream (counted by the in-memory stream of the      *)
(* harness).                                                               *)
(***************************************************************************)
EXTENDS Naturals, Integers, Sequences, FiniteSets, TLC

Lens == {"0", "1", "Max-1", "Max", "Max+1", "2^32", "2^64-1"}
TooLarge(l) == l \in {"Max+1", "2^32", "2^64-1"}          \* sockets.rs:27  msg_size > MAX_JSON_MESSAGE_SIZE
Materialisable(l) == l \in {"0", "1", "Max-1", "Max", "Max+1"}

StreamClasses ==
  { c \in [len : Lens, prefix : {"full", "cut7", "cut0"}, avail : {"exact", "short", "extra", "none", "some"},
           json : {"valid", "invalid"}, chunk : {0, 1, 3}] :
      /\ (c.prefix # "full" => c.avail = "none" /\ c.json = "valid")                 \* nothing follows a cut prefix
      /\ (c.avail \in {"exact", "short", "extra"} => Materialisable(c.len))
      /\ (c.avail = "short" => c.len \notin {"0", "1"})                                 \* "short" leaves at least one payload byte
      /\ (c.avail = "some" => TooLarge(c.len))
      /\ (c.avail = "none" => c.len # "0" \/ c.prefix # "full")                      \* len 0 with no payload is "exact"
      /\ (c.len = "0" => c.json = "invalid")                                         \* the empty text is not JSON
      /\ (TooLarge(c.len) \/ c.avail \in {"short", "none"} => c.json = "valid")      \* payload content irrelevant: one class
      /\ (c.chunk = 1 => c.len \notin {"Max-1", "Max", "Max+1"} \/ c.avail \in {"none"}) }

\* phases of read_json
ReadLen(c) == IF c.prefix = "full" THEN "got-len" ELSE "eof"                           \* sockets.rs:26 read_u64
Decide(c)  == IF TooLarge(c.len) THEN "Reject" ELSE "ReadPayload"                      \* sockets.rs:27-38
ReadPayload(c) == IF c.avail \in {"short", "none"} THEN "eof" ELSE "got-payload"      \* sockets.rs:39-40 resize + read_exact
Parse(c) == IF c.json = "valid" THEN "value" ELSE "bad-json"                           \* sockets.rs:41-42

ReadJson(c) ==
  IF ReadLen(c) = "eof"
    THEN [result |-> "eof", prefix |-> IF c.prefix = "cut7" THEN 7 ELSE 0, payload |-> "none"]
  ELSE IF Decide(c) = "Reject"
    THEN [result |-> "too-large", prefix |-> 8, payload |-> "none"]
  ELSE IF ReadPayload(c) = "eof"
    THEN [result |-> "eof", prefix |-> 8, payload |-> IF c.avail = "none" THEN "none" ELSE "all-available"]
  ELSE [result |-> Parse(c), prefix |-> 8, payload |-> IF c.len = "0" THEN "none" ELSE "len"]

\* C38 (framing clause): "messages announcing more than 1 MiB are rejected before any payload is read"; in addition the
\* reader never takes bytes beyond the announced message (needed for "reads exactly what the daemon publishes")
C38_Framing(c) ==
  LET o == ReadJson(c) IN
  /\ (c.prefix = "full" /\ TooLarge(c.len)) => (o.result = "too-large" /\ o.payload = "none" /\ o.prefix = 8)
  /\ o.payload \in {"none", "len", "all-available"}
  /\ (o.payload = "all-available" => c.avail = "short")
  /\ (o.result = "value" => o.payload = "len" /\ ~TooLarge(c.len))

(***************************************************************************)
(* Part 2, value fidelity (exploration).  Shapes of ObservableState:       *)
(*   nsrc 0..3 sources, nts cookie count none / 0 / 8, duration class of   *)
(*   the source and system durations (zero, small, negative, large, the    *)
(*   NtpDuration::MAX placeholder of unsynchronised sources), nsrv 0..2    *)
(*   servers with counter class (0, 1, large, u64 max), class of the raw   *)
(*   floats (zero, tiny subnormal, ordinary, huge, negative), timestamp    *)
(*   class (zero, mid, max), optional accumulated threshold.               *)
(* Expectation for write_json; read_json: integers, strings, enums, raw    *)
(* floats, timestamps equal; durations within 1e-9 relative + 2^-32 s.     *)
(***************************************************************************)
Shapes == [nsrc : 0..3, nts : {"none", "zero", "eight"}, dur : {"zero", "small", "neg", "large", "max"},
           nsrv : 0..2, ctr : {"zero", "one", "large", "u64max"}, flt : {"zero", "subnormal", "ordinary", "huge", "neg"},
           ts : {"zero", "mid", "max"}, thr : BOOLEAN]
NonTrivial(s) == s.nsrc > 0 \/ s.nsrv > 0 \/ s.dur # "zero" \/ s.flt # "zero"

ConeTable == [frame |-> [C38 |-> {"out.result", "out.prefix", "out.payload", "out.order", "panic"}],
              shape |-> [C38 |-> {"out.equal", "panic"}]]
=============================================================================
