CONSTANTS
  N = 3
  MinAgree = 2
  StepThresh = 0
  SFwd2 = 9999
  SBwd2 = 9999
  Fwd2 = 9999
  Bwd2 = 9999
  Acc2 = 9999
  TrackFreq = FALSE
  F0 = 0
  F0Neg = FALSE
  MaxSteer = 495
  SlewMax = 200
  MaxSamples = 1
  Ghosts = FALSE
  Readd = FALSE
  OffPos = {0, 3}
  OffNeg = {}
  LeapVals = {"none", "61"}
  Wides = {FALSE}
  MaxChan = 1
  Bound = 3
  UsableVals = {TRUE}
INIT Init
NEXT Next
CHECK_DEADLOCK FALSE
INVARIANTS TypeOK C01_StepsWithinThresholds C02_FrequencyBounds C03_MajorityConsensus C04_LeapMajority C37_OnlyRegisteredUsable
