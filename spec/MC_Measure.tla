----------------------------- MODULE MC_Measure -----------------------------
EXTENDS Measure, Json
CONSTANTS T1s,    \* representatives of T1 (around every wrap position)
          DiffAbs \* magnitudes of the true differences (both signs are taken)
VARIABLE st
Diffs == DiffAbs \cup {-x : x \in DiffAbs}
vars == <<st>>

Idle == [kind |-> "idle"]
Init == st = Idle
ToGroup == st = Idle /\ \E t \in T1s : \E a \in Diffs : st' = [kind |-> "group", t1 |-> t, a |-> a]
TwoWay(g) == {[t |-> "twoway", t1 |-> g.t1, a |-> g.a, b |-> b, c |-> c] : b \in Diffs, c \in Diffs}
OneWays(g) == {[t |-> "oneway", t1 |-> g.t1, a |-> g.a]}
CasesOf(g) == TwoWay(g) \cup OneWays(g)
Next == ToGroup \/ (st.kind = "group" /\ \E e \in CasesOf(st) : st' = [kind |-> "case", e |-> e])
Spec == Init /\ [][Next]_vars

C05_OnWireFormulas ==
  st.kind = "case" => IF st.e.t = "twoway" THEN C05_Formula(st.e) ELSE C05_OneWay(st.e)
\* every generated exchange is in the representable region (nothing ambiguous is generated)
AllRepresentable == st.kind = "case" /\ st.e.t = "twoway" => Representable(st.e)

GenInit == Init
GenNext == \/ ToGroup
           \/ /\ st.kind = "group"
              /\ \E e \in CasesOf(st) :
                   /\ st' = [kind |-> "case", e |-> e]
                   /\ PrintT(<<"EDGE", ToJson([act |-> e, out |-> IF e.t = "twoway" THEN OutTwoWay(e) ELSE OutOneWay(e)])>>)
=============================================================================
