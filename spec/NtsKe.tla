------------------------------- MODULE NtsKe -------------------------------
(***************************************************************************)
(* NTS key exchange of ntpd-rs (ntp-proto/src/nts/mod.rs, messages.rs).    *)
(*                                                                         *)
(* Part 1 (C29): the server side of a key-exchange connection as a state   *)
(* machine.  A connection is `new` (first request is handled by            *)
(* KeyExchangeServer::handle_connection), `keptOpen` (further requests are *)
(* handled by KeyExchangeServer::handle_longterm) or `closed`.  Requests   *)
(* are abstracted to [kind, tok, ka, shape]; the long-lived-connection     *)
(* permits are a counter `free` (ntpd: a tokio Semaphore, released when    *)
(* the long-lived handler returns).                                        *)
(*                                                                         *)
(* Part 2 (C28): negotiation as pure functions over offer lists            *)
(* (ServerChoice / ClientAdopt), enumerated by MC_NtsKeNeg.                *)
(*                                                                         *)
(* Post(s, a) / Out(s, a) are transcribed branch by branch from the code;  *)
(* the properties are stated declaratively over them (C29_Step, C28_Server). *)
(***************************************************************************)
EXTENDS Naturals, Integers, Sequences, FiniteSets, TLC

(***************************************************************************)
(* Part 1: connection state machine                                        *)
(***************************************************************************)
CONSTANTS NConns,    \* number of concurrently modelled connections
          MaxReq     \* requests per connection

\* NtsServerConfig::pool_authentication_tokens for the three modelled configurations
TokensOf(cfg) == CASE cfg = "none" -> {} [] cfg = "one" -> {"t1"} [] cfg = "two" -> {"t1", "t2"}

\* Request classes.  tok: the Authentication record ("absent": no such record; "prefix": a proper prefix
\* of a configured token; "empty": an Authentication record with empty body).  ka: KeepAlive record present.
\* shape "unkcrit": an unknown critical record precedes everything else.
Kinds  == {"ke", "fixed", "support"}
Toks   == {"absent", "t1", "t2", "prefix", "empty"}
Shapes == {"ok", "unkcrit"}

\* messages.rs Request::parse (lines 42-183) on these classes
Parsed(r) == IF r.shape = "unkcrit" THEN "UnrecognizedCritical"     \* :106
             ELSE IF r.kind = "support" THEN (IF r.tok = "absent" THEN "Invalid" ELSE "Support")   \* :118-132
             ELSE IF r.kind = "fixed" THEN (IF r.tok = "absent" THEN "Invalid" ELSE "FixedKey")    \* :133-171
             ELSE "KeyExchange"                                      \* :174 (token and keep-alive ignored)

Conn0 == [phase |-> "new", n |-> 0]
InitState(tokens, permits) == [tokens |-> tokens, permits |-> permits, free |-> permits,
                               conns |-> [c \in 1..NConns |-> Conn0]]

Enabled(s, a) ==
  /\ a.c \in 1..NConns
  /\ \A d \in 1..(a.c - 1) : s.conns[d].n > 0            \* connections are used in order (symmetry)
  /\ IF a.t = "Req" THEN s.conns[a.c].phase \in {"new", "keptOpen"} /\ s.conns[a.c].n < MaxReq
     ELSE s.conns[a.c].phase = "keptOpen"                 \* Close: the client hangs up a kept-open connection

\* what the server does with one request: answer, whether the connection stays open, what the handler returned
Err(code, srv) == [resp |-> "error", code |-> code, cookies |-> 0, ka |-> FALSE, keep |-> FALSE, srv |-> srv,
                   asked |-> FALSE, took |-> FALSE]
Served(resp, ka, keep, srv, asked, took) ==
  [resp |-> resp, code |-> -1, cookies |-> IF resp = "keys" THEN 8 ELSE 0, ka |-> ka, keep |-> keep, srv |-> srv,
   asked |-> asked, took |-> took]

Handle(s, a) ==
  LET p      == Parsed(a)
      authed == a.tok \in TokensOf(s.tokens)
  IN IF s.conns[a.c].phase = "new" THEN                                      \* mod.rs handle_connection :619-838
       CASE p = "Invalid"              -> Err(1, "hc:err:Invalid")              \* :629-637
         [] p = "UnrecognizedCritical" -> Err(0, "hc:err:Invalid")              \* :647-655
         [] p = "KeyExchange"          -> Served("keys", FALSE, FALSE, "hc:none", FALSE, FALSE)   \* :660-739
         [] p \in {"FixedKey", "Support"} ->
              IF authed THEN                                                  \* :747-750, :792-795
                LET permit == a.ka /\ s.free > 0                              \* :764-768, :800-804
                IN Served(IF p = "FixedKey" THEN "keys" ELSE "supports", permit, permit,
                          IF permit THEN "hc:some" ELSE "hc:none", a.ka, permit)
              ELSE Err(1, "hc:err:NotPermitted")                              \* :828-836
     ELSE                                                                     \* handle_longterm :480-615
       CASE p = "Invalid"              -> Err(1, "lt:err:Invalid")              \* :494-502
         [] p = "UnrecognizedCritical" -> Err(0, "lt:err:Invalid")              \* :512-520
         [] p = "KeyExchange"          -> Err(1, "lt:err:Invalid")              \* :599-608
         [] p = "FixedKey"             -> Served("keys", a.ka, a.ka, IF a.ka THEN "" ELSE "lt:ok", FALSE, FALSE)  \* :526-566
         [] p = "Support"              -> Served("supports", FALSE, a.ka, IF a.ka THEN "" ELSE "lt:ok", FALSE, FALSE) \* :568-598 (keep_alive: false, sic)

Post(s, a) ==
  IF ~Enabled(s, a) THEN s
  ELSE IF a.t = "Close" THEN
    [s EXCEPT !.conns[a.c].phase = "closed", !.free = s.free + 1]
  ELSE
    LET h   == Handle(s, a)
        was == s.conns[a.c].phase = "keptOpen"
    IN [s EXCEPT !.conns[a.c] = [phase |-> IF h.keep THEN "keptOpen" ELSE "closed", n |-> s.conns[a.c].n + 1],
                 !.free = s.free - (IF h.took THEN 1 ELSE 0) + (IF was /\ ~h.keep THEN 1 ELSE 0)]

NoOut == [resp |-> "none", code |-> -1, cookies |-> 0, ka |-> FALSE, open |-> FALSE, handle |-> "n/a", srv |-> "",
          asked |-> FALSE, keysok |-> TRUE]

Out(s, a) ==
  IF ~Enabled(s, a) THEN NoOut
  ELSE IF a.t = "Close" THEN [NoOut EXCEPT !.srv = "lt:ok"]                    \* :490-493 (EOF => Ok)
  ELSE LET h == Handle(s, a)
       IN [resp |-> h.resp, code |-> h.code, cookies |-> h.cookies, ka |-> h.ka, open |-> h.keep,
           handle |-> IF s.conns[a.c].phase = "new" THEN (IF h.keep THEN "some" ELSE "none") ELSE "n/a",
           srv |-> h.srv, asked |-> h.asked, keysok |-> TRUE]

\* ---- cones: which observables C29 constrains on a step ----
\* Reading of the statement (weaker one where it is silent): C29 speaks about (a) pool requests on a NEW connection
\* (token check, answer, cookies, whether it stays open and why) and (b) a plain key exchange on a KEPT-OPEN
\* connection, and (c) that a kept-open connection is closed after a served pool request without KeepAlive.  What else
\* a kept-open connection does with further pool requests, and plain key exchanges on new connections (C28), are
\* modelled and compared but are not attributed to C29.
\* "PoolNoKa": a served pool request on a kept-open connection that does not ask to keep it open any longer
ConeKey(s, a) == IF a.t = "Close" THEN <<"keptOpen", "Close">>
                 ELSE IF s.conns[a.c].phase = "keptOpen" /\ Parsed(a) \in {"FixedKey", "Support"} /\ ~a.ka
                   THEN <<"keptOpen", "PoolNoKa">>
                 ELSE <<s.conns[a.c].phase, Parsed(a)>>
ConeKeys == ({"new", "keptOpen"} \X {"Invalid", "UnrecognizedCritical", "KeyExchange", "FixedKey", "Support"})
            \cup {<<"keptOpen", "Close">>, <<"keptOpen", "PoolNoKa">>}
ConeKeyStr(k) == k[1] \o ":" \o k[2]
ConesOf(k) ==
  [C29 |-> IF k[1] = "new" /\ k[2] \in {"FixedKey", "Support", "Invalid"}
             THEN {"phase", "free", "out.resp", "out.code", "out.cookies", "out.ka", "out.open", "out.handle", "panic"}
           ELSE IF k[1] = "keptOpen" /\ k[2] = "KeyExchange"
             THEN {"phase", "out.resp", "out.code", "out.cookies", "out.open", "panic"}
           \* "kept open for further requests only if the client asked for it": read per request - a kept-open
           \* connection does not outlive a served request that no longer asks for it
           ELSE IF k[1] = "keptOpen" /\ k[2] = "PoolNoKa"
             THEN {"phase", "free", "out.open", "panic"}
           ELSE {}]
Cones(s, a) == ConesOf(ConeKey(s, a))
ConeTable == [k \in {ConeKeyStr(x) : x \in ConeKeys} |-> ConesOf(CHOOSE x \in ConeKeys : ConeKeyStr(x) = k)]

VARIABLE st
vars == <<st>>

\* ---- C29, declaratively ----
KeptOpen(s) == Cardinality({c \in 1..NConns : s.conns[c].phase = "keptOpen"})

C29_Step(s, a) ==
  (a.t = "Req" /\ Enabled(s, a) /\ a.shape = "ok") =>
    LET c    == s.conns[a.c]
        o    == Out(s, a)
        q    == Post(s, a).conns[a.c]
        pool == a.kind \in {"fixed", "support"}
        good == a.tok \in TokensOf(s.tokens)
        refused == o.resp = "error" /\ o.code = 1 /\ o.cookies = 0 /\ ~o.open /\ q.phase = "closed"
    IN /\ (c.phase = "new" /\ pool /\ ~good) => (refused /\ o.handle = "none" /\ Post(s, a).free = s.free)
       /\ (c.phase = "new" /\ pool /\ good) =>
            /\ o.resp = (IF a.kind = "fixed" THEN "keys" ELSE "supports")
            /\ (q.phase = "keptOpen") <=> (a.ka /\ s.free > 0)
            /\ o.open = (q.phase = "keptOpen") /\ o.ka = o.open /\ (o.handle = "some") = o.open
            /\ Post(s, a).free = s.free - (IF o.open THEN 1 ELSE 0)
       /\ (c.phase = "keptOpen" /\ a.kind = "ke") => refused
       /\ (c.phase = "keptOpen" /\ pool /\ ~a.ka) => (q.phase = "closed" /\ ~o.open /\ Post(s, a).free = s.free + 1)

\* a long-lived slot is held exactly by the kept-open connections
C29_Permits(s) == s.free >= 0 /\ s.free + KeptOpen(s) = s.permits

(***************************************************************************)
(* Part 2: negotiation (C28)                                               *)
(***************************************************************************)
\* symbols: protocols "v4" (0), "v5" (0x8001), "pu" (unknown id); algorithms "a256" (15), "a512" (17), "au" (unknown)
Protos == {"v4", "v5", "pu"}
Algs   == {"a256", "a512", "au"}

FirstIn(seq, S) == LET I == {i \in 1..Len(seq) : seq[i] \in S}
                   IN IF I = {} THEN "none" ELSE seq[CHOOSE i \in I : \A j \in I : i <= j]
Range(seq) == {seq[i] : i \in 1..Len(seq)}

\* handle_connection, Request::KeyExchange arm (mod.rs:660-739).  accepted: subset of {"v4", "v5"}
ServerChoice(protos, algs, accepted) ==
  LET p == FirstIn(protos, accepted)                 \* :665-668
      g == FirstIn(algs, {"a256", "a512"})           \* :669-672 (first that is not Unknown)
  IN IF p = "none" THEN [resp |-> "noproto", proto |-> "none", alg |-> "none", cookies |-> 0, srv |-> "err:NoOverlappingProtocol"]
     ELSE IF g = "none" THEN [resp |-> "noalg", proto |-> p, alg |-> "none", cookies |-> 0, srv |-> "err:NoOverlappingAlgorithm"]
     ELSE [resp |-> "keys", proto |-> p, alg |-> g, cookies |-> 8, srv |-> "ok"]

\* Intended client behaviour on a well-formed answer [proto, alg, cookies] (exchange_keys, mod.rs:363-422, with the
\* membership checks the property demands): adopt only what was offered.
ClientAdopt(offP, offA, r) ==
  IF r.proto \in Range(offP) /\ r.alg \in Range(offA) /\ r.proto \in {"v4", "v5"} /\ r.alg \in {"a256", "a512"}
     /\ r.cookies >= 1
  THEN [ok |-> TRUE, proto |-> r.proto, alg |-> r.alg, cookies |-> IF r.cookies > 8 THEN 8 ELSE r.cookies]
  ELSE [ok |-> FALSE, proto |-> "none", alg |-> "none", cookies |-> 0]

\* what the client makes of the honest server's reaction
ClientOnHonest(offP, offA, accepted) ==
  LET s == ServerChoice(offP, offA, accepted)
  IN IF s.resp = "keys" THEN ClientAdopt(offP, offA, s) ELSE [ok |-> FALSE, proto |-> "none", alg |-> "none", cookies |-> 0]

C28_Server(protos, algs, accepted) ==
  LET s == ServerChoice(protos, algs, accepted)
  IN /\ (s.resp = "keys") <=> (Range(protos) \cap accepted # {} /\ Range(algs) \cap {"a256", "a512"} # {})
     /\ s.resp = "keys" =>
          /\ s.cookies = 8
          /\ \E i \in 1..Len(protos) : protos[i] = s.proto /\ s.proto \in accepted
                                       /\ \A j \in 1..(i - 1) : protos[j] \notin accepted
          /\ \E i \in 1..Len(algs) : algs[i] = s.alg /\ s.alg \in {"a256", "a512"}
                                     /\ \A j \in 1..(i - 1) : algs[j] \notin {"a256", "a512"}
     /\ s.resp # "keys" => s.cookies = 0

C28_Client(offP, offA, r) ==
  LET c == ClientAdopt(offP, offA, r)
  IN c.ok => (c.proto \in Range(offP) /\ c.alg \in Range(offA) /\ c.proto = r.proto /\ c.alg = r.alg)
=============================================================================
