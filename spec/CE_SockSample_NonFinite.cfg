CONSTANTS
  AsCoded = TRUE
  OnlyPath = "direct"
  OnlySize40 = FALSE
  OnlyFinite = FALSE
INIT Init
NEXT Next
CHECK_DEADLOCK FALSE
INVARIANTS C40_Holds
ALIAS Alias
