// C41 harness (spec/PtpWire.tla): concretises the message / datagram classes enumerated by TLC on the real
// statime_wire::Message (public API only) and compares with the specification's expectation for every class.
//   mode "replay": input ndjson of {id, s, act, out} -> output ndjson of failing cases + one summary line
//   mode "fuzz":   seeded byte-level mutations of concretised datagrams, oracle: no panic + round trip of accepted ones
use crate::util::{self, Rng};
use serde_json::{json, Value};
use statime_wire::*;

#[derive(Clone, Debug)]
struct Fields {
    ty: String,
    // header
    sdo: u16,
    major: u8,
    minor: u8,
    domain: u8,
    flags6: [bool; 5],  // alternate_master, two_step, unicast, profile1, profile2
    flags7: [bool; 7],  // leap61, leap59, utc_valid, ptp_timescale, time_traceable, freq_traceable, sync_uncertain
    corr: i64,
    spi: [u8; 10],
    seq: u16,
    logint: i8,
    // body
    secs: u64,
    nanos: u32,
    pid: [u8; 10],
    utc: i16,
    p1: u8,
    class: u8,
    acc: u8,
    var: u16,
    p2: u8,
    gmid: [u8; 8],
    steps: u16,
    tsrc: u8,
    start_hops: u8,
    hops: u8,
    action: u8,
    // suffix: (type code, declared length, value bytes actually present)
    tlvs: Vec<(u16, u16, Vec<u8>)>,
}

fn type_nibble(ty: &str) -> u8 {
    match ty {
        "Sync" => 0x0,
        "DelayReq" => 0x1,
        "PDelayReq" => 0x2,
        "PDelayResp" => 0x3,
        "FollowUp" => 0x8,
        "DelayResp" => 0x9,
        "PDelayRespFollowUp" => 0xa,
        "Announce" => 0xb,
        "Signaling" => 0xc,
        "Management" => 0xd,
        "T4" => 0x4,
        "T7" => 0x7,
        "Te" => 0xe,
        "Tf" => 0xf,
        _ => panic!("unknown type {ty}"),
    }
}

fn body_size(ty: &str) -> usize {
    match ty {
        "Sync" | "DelayReq" | "FollowUp" | "Signaling" => 10,
        "Management" => 14,
        "Announce" => 30,
        "PDelayReq" | "PDelayResp" | "DelayResp" | "PDelayRespFollowUp" => 20,
        _ => 10, // invalid type nibbles: laid out like Sync (spec: Natural)
    }
}

// canonical clock accuracy bytes: decode(encode) is the identity on them
fn canonical_acc(b: u8) -> bool {
    !((0x01..=0x16).contains(&b) || (0x32..=0x7f).contains(&b) || b == 0xff)
}

fn gen_fields(ty: &str, hc: &str, bc: &str, rng: &mut Rng) -> Fields {
    let mut f = Fields {
        ty: ty.to_string(),
        sdo: 0, major: 2, minor: 0, domain: 0, flags6: [false; 5], flags7: [false; 7], corr: 0, spi: [0; 10], seq: 0, logint: 0,
        secs: 0, nanos: 0, pid: [0; 10], utc: 0, p1: 0, class: 0, acc: 0, var: 0, p2: 0, gmid: [0; 8], steps: 0, tsrc: 0,
        start_hops: 0, hops: 0, action: 0, tlvs: vec![],
    };
    match hc {
        "zero" => {}
        "ones" => {
            f.sdo = 0xfff; f.major = 15; f.minor = 15; f.domain = 255; f.flags6 = [true; 5]; f.flags7 = [true; 7];
            f.corr = -1; f.spi = [0xff; 10]; f.seq = 0xffff; f.logint = -1;
        }
        "mix" => {
            f.sdo = (rng.next() & 0xfff) as u16; f.major = (rng.next() & 15) as u8; f.minor = (rng.next() & 15) as u8;
            f.domain = rng.next() as u8;
            for x in f.flags6.iter_mut() { *x = rng.chance(1, 2); }
            for x in f.flags7.iter_mut() { *x = rng.chance(1, 2); }
            f.corr = rng.next() as i64;
            for x in f.spi.iter_mut() { *x = rng.next() as u8; }
            f.seq = rng.next() as u16; f.logint = rng.next() as i8;
        }
        _ => panic!("header class {hc}"),
    }
    match bc {
        "zero" => {}
        "max" => {
            f.secs = (1u64 << 48) - 1; f.nanos = 999_999_999; f.pid = [0xff; 10]; f.utc = -1; f.p1 = 255; f.class = 255;
            f.acc = 0xfe; f.var = 0xffff; f.p2 = 255; f.gmid = [0xff; 8]; f.steps = 0xffff; f.tsrc = 0xff;
            f.start_hops = 255; f.hops = 255; f.action = 5;
        }
        "mix" | "badnanos" => {
            f.secs = rng.next() & ((1u64 << 48) - 1); f.nanos = (rng.next() % 1_000_000_000) as u32;
            for x in f.pid.iter_mut() { *x = rng.next() as u8; }
            f.utc = rng.next() as i16; f.p1 = rng.next() as u8; f.class = rng.next() as u8;
            f.acc = loop { let b = rng.next() as u8; if canonical_acc(b) { break b; } };
            f.var = rng.next() as u16; f.p2 = rng.next() as u8;
            for x in f.gmid.iter_mut() { *x = rng.next() as u8; }
            f.steps = rng.next() as u16; f.tsrc = rng.next() as u8;
            f.start_hops = rng.next() as u8; f.hops = rng.next() as u8; f.action = (rng.next() % 6) as u8;
            if bc == "badnanos" { f.nanos = 1_000_000_001; }
        }
        _ => panic!("body class {bc}"),
    }
    f
}

fn gen_tlvs(items: &Value, short: usize, rng: &mut Rng) -> Vec<(u16, u16, Vec<u8>)> {
    let items = items.as_array().unwrap();
    let n = items.len();
    items.iter().enumerate().map(|(i, it)| {
        let k = util::s(it, "k");
        let l = util::i(it, "l") as usize;
        let code = match k.as_str() { "m" => 0x0001u16, "z" => 0x0000, _ => panic!("tlv kind") };
        let present = if i + 1 == n { l - short } else { l };
        let val = if k == "z" { vec![0u8; present] } else { rng.bytes(present) };
        (code, l as u16, val)
    }).collect()
}

// ---- independent byte writer (layout of IEEE 1588-2019 clause 13, as read by header.rs / messages/*.rs) ----
fn write_bytes(f: &Fields, mlen: u16, junk: usize, pad: usize) -> Vec<u8> {
    let mut b = vec![0u8; 34];
    b[0] = (((f.sdo >> 8) as u8) << 4) | type_nibble(&f.ty);
    b[1] = (f.minor << 4) | f.major;
    b[2..4].copy_from_slice(&mlen.to_be_bytes());
    b[4] = f.domain;
    b[5] = (f.sdo & 0xff) as u8;
    let bits6 = [0u8, 1, 2, 5, 6];
    for (i, on) in f.flags6.iter().enumerate() { if *on { b[6] |= 1 << bits6[i]; } }
    for (i, on) in f.flags7.iter().enumerate() { if *on { b[7] |= 1 << i; } }
    b[8..16].copy_from_slice(&f.corr.to_be_bytes());
    b[20..30].copy_from_slice(&f.spi);
    b[30..32].copy_from_slice(&f.seq.to_be_bytes());
    b[33] = f.logint as u8;
    let mut body = vec![0u8; body_size(&f.ty)];
    let ts = |o: &mut [u8]| { o[0..6].copy_from_slice(&f.secs.to_be_bytes()[2..8]); o[6..10].copy_from_slice(&f.nanos.to_be_bytes()); };
    match f.ty.as_str() {
        "Signaling" => body[0..10].copy_from_slice(&f.pid),
        "Management" => { body[0..10].copy_from_slice(&f.pid); body[11] = f.start_hops; body[12] = f.hops; body[13] = f.action; }
        "Announce" => {
            ts(&mut body[0..10]);
            body[10..12].copy_from_slice(&f.utc.to_be_bytes());
            body[13] = f.p1; body[14] = f.class; body[15] = f.acc; body[16..18].copy_from_slice(&f.var.to_be_bytes());
            body[18] = f.p2; body[19..27].copy_from_slice(&f.gmid); body[27..29].copy_from_slice(&f.steps.to_be_bytes());
            body[29] = f.tsrc;
        }
        "PDelayResp" | "DelayResp" | "PDelayRespFollowUp" => { ts(&mut body[0..10]); body[10..20].copy_from_slice(&f.pid); }
        _ => ts(&mut body[0..10]), // Sync DelayReq FollowUp PDelayReq (10 reserved zero bytes) and invalid types
    }
    b.extend_from_slice(&body);
    for (code, l, val) in &f.tlvs {
        b.extend_from_slice(&code.to_be_bytes());
        b.extend_from_slice(&l.to_be_bytes());
        b.extend_from_slice(val);
    }
    b.extend(std::iter::repeat(0xA5u8).take(junk));
    b.extend(std::iter::repeat(0u8).take(pad));
    b
}

// ---- construction through the public API ----
fn port_identity(p: &[u8; 10]) -> PortIdentity {
    PortIdentity { clock_identity: ClockIdentity(p[0..8].try_into().unwrap()), port_number: u16::from_be_bytes([p[8], p[9]]) }
}

fn build_header(f: &Fields) -> Header {
    Header {
        sdo_id: SdoId::try_from(f.sdo).unwrap(),
        version: PtpVersion::new(f.major, f.minor).unwrap(),
        domain_number: f.domain,
        alternate_master_flag: f.flags6[0], two_step_flag: f.flags6[1], unicast_flag: f.flags6[2],
        ptp_profile_specific_1: f.flags6[3], ptp_profile_specific_2: f.flags6[4],
        leap61: f.flags7[0], leap59: f.flags7[1], current_utc_offset_valid: f.flags7[2], ptp_timescale: f.flags7[3],
        time_tracable: f.flags7[4], frequency_tracable: f.flags7[5], synchronization_uncertain: f.flags7[6],
        correction_field: TimeInterval(f.corr),
        source_port_identity: port_identity(&f.spi),
        sequence_id: f.seq,
        log_message_interval: f.logint,
    }
}

fn build_body(f: &Fields) -> MessageBody {
    let ts = Timestamp::new(f.secs, f.nanos).unwrap();
    let pid = port_identity(&f.pid);
    match f.ty.as_str() {
        "Sync" => MessageBody::Sync(SyncMessage { origin_timestamp: ts }),
        "DelayReq" => MessageBody::DelayReq(DelayReqMessage { origin_timestamp: ts }),
        "PDelayReq" => MessageBody::PDelayReq(PDelayReqMessage { origin_timestamp: ts }),
        "PDelayResp" => MessageBody::PDelayResp(PDelayRespMessage { request_receive_timestamp: ts, requesting_port_identity: pid }),
        "FollowUp" => MessageBody::FollowUp(FollowUpMessage { precise_origin_timestamp: ts }),
        "DelayResp" => MessageBody::DelayResp(DelayRespMessage { receive_timestamp: ts, requesting_port_identity: pid }),
        "PDelayRespFollowUp" => MessageBody::PDelayRespFollowUp(PDelayRespFollowUpMessage { response_origin_timestamp: ts, requesting_port_identity: pid }),
        "Announce" => MessageBody::Announce(AnnounceMessage {
            origin_timestamp: ts, current_utc_offset: f.utc, grandmaster_priority_1: f.p1,
            grandmaster_clock_quality: ClockQuality { clock_class: f.class, clock_accuracy: ClockAccuracy::from_primitive(f.acc), offset_scaled_log_variance: f.var },
            grandmaster_priority_2: f.p2, grandmaster_identity: ClockIdentity(f.gmid), steps_removed: f.steps,
            time_source: TimeSource::from_primitive(f.tsrc),
        }),
        "Signaling" => MessageBody::Signaling(SignalingMessage { target_port_identity: pid }),
        "Management" => MessageBody::Management(ManagementMessage {
            target_port_identity: pid, starting_boundary_hops: f.start_hops, boundary_hops: f.hops,
            action: match f.action { 0 => ManagementAction::GET, 1 => ManagementAction::SET, 2 => ManagementAction::RESPONSE,
                                     3 => ManagementAction::COMMAND, 4 => ManagementAction::ACKNOWLEDGE, _ => ManagementAction::Reserved },
        }),
        t => panic!("no body for {t}"),
    }
}

fn tlv_type(code: u16) -> TlvType {
    match code { 0x0001 => TlvType::Management, 0x0000 => TlvType::Reserved(0), c => panic!("tlv code {c}") }
}

fn build_tlv_list(f: &Fields) -> Vec<Tlv<'static>> {
    f.tlvs.iter().map(|(code, _, val)| Tlv { tlv_type: tlv_type(*code), value: val.clone().into() }).collect()
}

fn err_class(e: &Error) -> &'static str {
    match e { Error::BufferTooShort => "short", Error::Invalid => "invalid" }
}

fn set(o: &mut serde_json::Map<String, Value>, k: &str, v: Value) { o.insert(k.to_string(), v); }

/// Serialise direction. Returns (observed, panic message).
fn run_ser(act: &Value, seed: u64) -> (Value, Option<String>) {
    let m = &act["m"];
    let mut rng = Rng::new(seed);
    let mut f = gen_fields(&util::s(m, "ty"), &util::s(m, "hc"), &util::s(m, "bc"), &mut rng);
    f.tlvs = gen_tlvs(&m["tlvs"], 0, &mut rng);
    let expect_size = 34 + body_size(&f.ty) + f.tlvs.iter().map(|t| 4 + t.2.len()).sum::<usize>();
    let list = build_tlv_list(&f);
    let mut backing = vec![0u8; 256];
    let mut o = serde_json::Map::new();
    let mut panic = None;
    let built = util::catch(|| {
        let mut builder = TlvSetBuilder::new(&mut backing);
        for t in &list { builder.add(t).unwrap(); }
        Message { header: build_header(&f), body: build_body(&f), suffix: builder.build() }
    });
    let msg = match built {
        Ok(m) => m,
        Err(p) => { set(&mut o, "ser", json!("panic")); return (Value::Object(o), Some(format!("build: {p}"))); }
    };
    let big = util::s(act, "buf") == "big";
    let mut buf = vec![0u8; if big { 4096 } else { expect_size }];
    let r = util::catch(|| msg.serialize(&mut buf));
    let n = match r {
        Ok(Ok(n)) => { set(&mut o, "ser", json!("ok")); set(&mut o, "size", json!(n)); n }
        Ok(Err(e)) => { set(&mut o, "ser", json!(err_class(&e))); return (Value::Object(o), None); }
        Err(p) => { set(&mut o, "ser", json!("panic")); return (Value::Object(o), Some(format!("serialize: {p}"))); }
    };
    let n = n.min(buf.len());
    let bytes = buf[..n].to_vec();
    set(&mut o, "layout", json!(bytes == write_bytes(&f, expect_size as u16, 0, 0)));
    let mut equal = false;
    let mut iter = false;
    let mut reser = false;
    match util::catch(|| Message::deserialize(&bytes)) {
        Ok(Ok(p)) => {
            set(&mut o, "parse", json!("ok"));
            equal = p == msg;
            match util::catch(|| p.suffix.tlvs().collect::<Vec<_>>()) {
                Ok(v) => iter = v == list,
                Err(pm) => panic = Some(format!("tlvs: {pm}")),
            }
            let mut buf2 = vec![0u8; 4096];
            match util::catch(|| p.serialize(&mut buf2)) {
                Ok(Ok(n2)) => reser = buf2[..n2.min(4096)] == bytes[..],
                Ok(Err(_)) => {}
                Err(pm) => panic = Some(format!("reserialize: {pm}")),
            }
        }
        Ok(Err(e)) => set(&mut o, "parse", json!(err_class(&e))),
        Err(pm) => { set(&mut o, "parse", json!("panic")); panic = Some(format!("deserialize: {pm}")); }
    }
    // the same message serialised over a buffer that held other data before (all ones, then the complement of the
    // clean serialisation): what parses back must still be the message - nothing of the old content may survive
    for round in 0..2 {
        let mut dirty: Vec<u8> = if round == 0 { vec![0xFFu8; buf.len()] } else { buf.iter().map(|b| !b).collect() };
        match util::catch(|| msg.serialize(&mut dirty)) {
            Ok(Ok(nd)) => match util::catch(|| Message::deserialize(&dirty[..nd.min(dirty.len())])) {
                Ok(Ok(p)) => equal = equal && p == msg,
                Ok(Err(_)) => equal = false,
                Err(pm) => panic = Some(format!("deserialize (dirty buffer): {pm}")),
            },
            Ok(Err(_)) => equal = false,
            Err(pm) => panic = Some(format!("serialize (dirty buffer): {pm}")),
        }
    }
    set(&mut o, "equal", json!(equal));
    set(&mut o, "iter", json!(iter));
    set(&mut o, "reser", json!(reser));
    (Value::Object(o), panic)
}

fn concretise(d: &Value, seed: u64) -> (Fields, Vec<u8>, usize) {
    let mut rng = Rng::new(seed);
    let ty = util::s(d, "ty");
    let mut f = gen_fields(&ty, &util::s(d, "hc"), &util::s(d, "bc"), &mut rng);
    let short = util::i(d, "short") as usize;
    let junk = util::i(d, "junk") as usize;
    let pad = util::i(d, "pad") as usize;
    f.tlvs = gen_tlvs(&d["items"], short, &mut rng);
    let natural = 34 + body_size(&ty) + f.tlvs.iter().map(|t| 4 + t.2.len()).sum::<usize>() + junk;
    let mlen = match util::s(d, "ml").as_str() {
        "exact" => natural, "zero" => 0, "lt34" => 33, "hdronly" => 34, "cutbody" => natural - 1, "beyond" => natural + pad + 1,
        x => panic!("ml class {x}"),
    };
    let mut bytes = write_bytes(&f, mlen as u16, junk, pad);
    match util::s(d, "cut").as_str() { "none" => {} "h0" => bytes.truncate(0), "h1" => bytes.truncate(1), "h33" => bytes.truncate(33), x => panic!("cut {x}") }
    (f, bytes, mlen)
}

/// Parse direction.
fn run_parse(act: &Value, seed: u64, canonical: bool) -> (Value, Option<String>) {
    let d = &act["d"];
    let (f, bytes, mlen) = concretise(d, seed);
    let mut o = serde_json::Map::new();
    let mut panic = None;
    let (mut used, mut ntlv, mut equal, mut iter, mut reser) = (0usize, 0usize, false, false, true);
    match util::catch(|| Message::deserialize(&bytes)) {
        Ok(Ok(p)) => {
            set(&mut o, "res", json!("ok"));
            match util::catch(|| p.wire_size()) { Ok(n) => used = n, Err(pm) => panic = Some(format!("wire_size: {pm}")) }
            let tl = util::catch(|| p.suffix.tlvs().collect::<Vec<_>>());
            match &tl { Ok(v) => ntlv = v.len(), Err(pm) => panic = Some(format!("tlvs: {pm}")) }
            if canonical {
                // the message built through the API from the very same field values
                let list = build_tlv_list(&f);
                let mut backing = vec![0u8; 256];
                let mut builder = TlvSetBuilder::new(&mut backing);
                for t in &list { builder.add(t).unwrap(); }
                let msg = Message { header: build_header(&f), body: build_body(&f), suffix: builder.build() };
                equal = p == msg;
                if let Ok(v) = &tl { iter = *v == list; }
            } else {
                equal = true;
                iter = true;
            }
            let mut buf2 = vec![0u8; 4096];
            match util::catch(|| p.serialize(&mut buf2)) {
                Ok(Ok(n2)) => reser = n2 == mlen && mlen <= bytes.len() && buf2[..n2] == bytes[..mlen],
                Ok(Err(_)) => reser = false,
                Err(pm) => { reser = false; panic = Some(format!("reserialize: {pm}")); }
            }
        }
        Ok(Err(e)) => set(&mut o, "res", json!(err_class(&e))),
        Err(pm) => { set(&mut o, "res", json!("panic")); panic = Some(format!("deserialize: {pm}")); }
    }
    set(&mut o, "used", json!(used));
    set(&mut o, "ntlv", json!(ntlv));
    set(&mut o, "equal", json!(equal));
    set(&mut o, "iter", json!(iter));
    set(&mut o, "reser", json!(reser));
    set(&mut o, "hex", json!(hex(&bytes[..bytes.len().min(120)])));
    (Value::Object(o), panic)
}

fn hex(b: &[u8]) -> String { b.iter().map(|x| format!("{x:02x}")).collect() }

fn replay(job: &Value) {
    let cases = util::read_ndjson(&util::s(job, "input"));
    let mut out = util::NdjsonOut::create(&util::s(job, "output"));
    let (mut n, mut nfail, mut accepted, mut rejected) = (0u64, 0u64, 0u64, 0u64);
    for c in &cases {
        let act = &c["act"];
        let exp = &c["out"];
        let seed = c["s"].as_u64().unwrap();
        let canonical = c["cone"].as_array().unwrap().iter().any(|x| x == "equal");
        let dir = util::s(act, "dir");
        let (obs, panic) = if dir == "ser" { run_ser(act, seed) } else { run_parse(act, seed, canonical) };
        n += 1;
        let okres = obs.get(if dir == "ser" { "parse" } else { "res" }).map(|x| x == "ok").unwrap_or(false);
        if okres { accepted += 1 } else { rejected += 1 }
        let mut fields = vec![];
        for (k, ev) in exp.as_object().unwrap() {
            let ov = obs.get(k);
            if ov != Some(ev) {
                // which error a rejected input gets is not part of C41: reported under its own name
                let both_err = |a: &Value, b: Option<&Value>| [a.as_str(), b.and_then(|x| x.as_str())].iter().all(|x| matches!(x, Some("invalid") | Some("short")));
                if (k == "res" || k == "parse") && both_err(ev, ov) { fields.push("errkind".into()); } else { fields.push(k.clone()); }
            }
        }
        if obs.get("layout") == Some(&json!(false)) { fields.push("layout".into()); }
        if panic.is_some() { fields.push("panic".into()); }
        if !fields.is_empty() {
            nfail += 1;
            out.put(&json!({"id": c["id"], "fields": fields, "observed": obs, "panic": panic}));
        }
    }
    out.put(&json!({"summary": {"cases": n, "failing": nfail, "accepted": accepted, "rejected": rejected}}));
    out.finish();
}

/// Properties of one arbitrary byte string: Some(description) on a defect.
fn probe(bytes: &[u8]) -> (bool, Option<(String, String)>) {
    let r = util::catch(|| {
        match Message::deserialize(bytes) {
            Err(_) => Ok(false),
            Ok(m) => {
                let n = m.wire_size();
                if n > bytes.len() { return Err(format!("wire_size {n} exceeds input length {}", bytes.len())); }
                let total: usize = m.suffix.tlvs().map(|t| 4 + t.value.len()).sum();
                let mut b1 = vec![0u8; 4096 + 64];
                let n1 = m.serialize(&mut b1).map_err(|e| format!("accepted message does not serialise: {e:?}"))?;
                if n1 != n { return Err(format!("serialize returned {n1}, wire_size {n}")); }
                let m2 = Message::deserialize(&b1[..n1]).map_err(|e| format!("serialised form of an accepted message does not parse back: {e:?}"))?;
                if m2 != m { return Err("serialised form of an accepted message parses back to a different message".to_string()); }
                let total2: usize = m2.suffix.tlvs().map(|t| 4 + t.value.len()).sum();
                if total != total2 { return Err("TLV enumeration differs after round trip".to_string()); }
                Ok(true)
            }
        }
    });
    match r {
        Ok(Ok(acc)) => (acc, None),
        Ok(Err(msg)) => (true, Some(("roundtrip".to_string(), msg))),
        Err(p) => (false, Some(("panic".to_string(), p))),
    }
}

fn fuzz(job: &Value) {
    let cases = util::read_ndjson(&util::s(job, "input"));
    let mut out = util::NdjsonOut::create(&util::s(job, "output"));
    let n = util::i(job, "n") as u64;
    let mut rng = Rng::new(util::i(job, "seed") as u64 ^ 0xF00D);
    let seeds: Vec<Vec<u8>> = cases.iter().map(|c| concretise(&c["act"]["d"], c["s"].as_u64().unwrap()).1).collect();
    let (mut accepted, mut failing) = (0u64, 0u64);
    let mut shapes = std::collections::BTreeSet::new();
    for i in 0..n {
        let strat = rng.below(5);
        let mut b: Vec<u8> = if strat == 0 || seeds.is_empty() {
            let len = match rng.below(4) { 0 => rng.below(80) as usize, 1 => 4096, 2 => 34 + rng.below(64) as usize, _ => rng.below(4097) as usize };
            rng.bytes(len)
        } else {
            seeds[(i as usize) % seeds.len()].clone()
        };
        match strat {
            1 => { for _ in 0..1 + rng.below(4) { if !b.is_empty() { let p = rng.below(b.len() as u64) as usize; b[p] = rng.next() as u8; } } }
            2 => { if b.len() >= 4 { let l = rng.below(b.len() as u64 + 8) as u16; b[2..4].copy_from_slice(&l.to_be_bytes()); } }
            3 => { if b.len() > 48 { let p = 44 + rng.below((b.len() - 46) as u64) as usize; let l = rng.below(12) as u16; b[p..p + 2].copy_from_slice(&l.to_be_bytes()); } }
            4 => {
                // valid-looking header in front of random content of any size up to 4096
                let len = 34 + rng.below(4063) as usize;
                let mut x = rng.bytes(len);
                let tys = [0u8, 1, 2, 3, 8, 9, 10, 11, 12, 13];
                x[0] = (x[0] & 0xf0) | *rng.pick(&tys);
                let ml = if rng.chance(1, 2) { len } else { 34 + rng.below((len - 33) as u64) as usize };
                x[2..4].copy_from_slice(&(ml as u16).to_be_bytes());
                // make the nanoseconds field valid in half of the cases so that bodies get through
                if rng.chance(1, 2) && len >= 44 { x[40] &= 0x3f; }
                // and the tail a chain of even-length TLVs in a quarter of them
                if rng.chance(1, 4) { let mut p = 34 + 30; while p + 4 <= ml { let l = (rng.below(6) * 2) as usize; x[p + 2] = 0; x[p + 3] = l as u8; p += 4 + l; } }
                b = x;
            }
            _ => {}
        }
        b.truncate(4096);
        let (acc, bad) = probe(&b);
        if acc { accepted += 1; shapes.insert((b[0] & 0x0f, b.len().min(200) / 8)); }
        if let Some((kind, msg)) = bad {
            failing += 1;
            if failing <= 20 { out.put(&json!({"kind": kind, "msg": msg, "len": b.len(), "hex": hex(&b[..b.len().min(160)])})); }
        }
    }
    out.put(&json!({"summary": {"evaluations": n, "accepted": accepted, "failing": failing, "distinct_accepted_shapes": shapes.len()}}));
    out.finish();
}

#[test]
fn verif_ptpwire() {
    let job = util::job();
    match util::s(&job, "mode").as_str() {
        "replay" => replay(&job),
        "fuzz" => fuzz(&job),
        m => panic!("unknown mode {m}"),
    }
}
