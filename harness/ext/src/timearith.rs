// Harness for spec/TimeArith.tla (C32, PTP clause): statime_base Timestamp (u128, wrapping) and Duration (i128, saturating)
// evaluated through the public API on the images of the W = 8 model operands:
//   "hi":  x |-> x * 2^120  (Timestamp::from_seconds_nanos_since_unix_epoch(x << 56, 0), Duration::from_seconds_nanos(x << 56, 0))
//   "sec": x |-> x * 2^64   (x whole seconds; compared when the model did not wrap or saturate)
// Results are compared by equality with constructed expected values (saturated: from_f64_seconds(+-f64::MAX)).
// Wire into harness/ext/src/lib.rs with:  #[cfg(test)] mod timearith;
#![allow(clippy::all, dead_code)]

use crate::util;
use serde_json::{Value, json};
use statime_base::{Duration, Timestamp, UTC};

fn i(v: &Value, k: &str) -> i64 {
    v[k].as_i64().unwrap()
}
fn ts_hi(x: i64) -> Timestamp<UTC> {
    Timestamp::from_seconds_nanos_since_unix_epoch((x as u64) << 56, 0)
}
fn du_hi(x: i64) -> Duration {
    Duration::from_seconds_nanos(x << 56, 0)
}
fn du_sec(x: i64) -> Duration {
    Duration::from_seconds_nanos(x, 0)
}
fn img(v: i64, sat: &str) -> Duration {
    match sat {
        "max" => Duration::from_f64_seconds(f64::MAX),
        "min" => Duration::from_f64_seconds(f64::MIN),
        _ => du_hi(v),
    }
}

fn replay(job: &Value) {
    let mut out = util::NdjsonOut::create(job["output"].as_str().unwrap());
    use std::io::BufRead;
    let file = std::fs::File::open(job["input"].as_str().unwrap()).expect("input");
    let mut evals = 0u64;
    // sanity of the constructed saturation images (otherwise the comparison below would be meaningless)
    assert!(img(0, "max") > du_hi(127) && img(0, "min") == du_hi(-128) && img(0, "max") + du_sec(1) == img(0, "max"));
    for line in std::io::BufReader::new(file).lines() {
        let line = line.unwrap();
        if line.trim().is_empty() {
            continue;
        }
        let c: Value = serde_json::from_str(&line).unwrap();
        let act = &c["act"];
        let Some(op) = act["op"].as_str() else { continue };
        if act.get("a").is_none() {
            continue;
        }
        let (a, b) = (i(act, "a"), i(act, "b"));
        let o = &c["out"];
        let v = i(o, "v");
        let sat = o["sat"].as_str().unwrap().to_string();
        let mut fails: Vec<(&str, String)> = vec![];
        let mut chk = |emb: &'static str, what: &str, r: Result<bool, String>, fails: &mut Vec<(&'static str, String)>| {
            evals += 1;
            match r {
                Err(p) => fails.push(("panic", format!("{emb}: {what}: {p}"))),
                Ok(false) => fails.push(("v", format!("{emb}: {what}"))),
                Ok(true) => {}
            }
        };
        match op {
            "TsSub" => {
                chk("hi", "a - b", util::catch(|| ts_hi(a) - ts_hi(b) == du_hi(v)), &mut fails);
                chk("hi", "b + (a - b)", util::catch(|| ts_hi(b) + (ts_hi(a) - ts_hi(b)) == ts_hi(a)), &mut fails);
                chk("hi", "a - (a - b)", util::catch(|| ts_hi(a) - (ts_hi(a) - ts_hi(b)) == ts_hi(b)), &mut fails);
            }
            "TsAddDur" => {
                chk("hi", "t + d", util::catch(|| ts_hi(a) + du_hi(b) == ts_hi(v)), &mut fails);
                chk("hi", "t += d", util::catch(|| { let mut t = ts_hi(a); t += du_hi(b); t == ts_hi(v) }), &mut fails);
            }
            "TsSubDur" => {
                chk("hi", "t - d", util::catch(|| ts_hi(a) - du_hi(b) == ts_hi(v)), &mut fails);
                chk("hi", "t -= d", util::catch(|| { let mut t = ts_hi(a); t -= du_hi(b); t == ts_hi(v) }), &mut fails);
            }
            "DurAdd" => {
                chk("hi", "x + y", util::catch(|| du_hi(a) + du_hi(b) == img(v, &sat)), &mut fails);
                chk("hi", "x += y", util::catch(|| { let mut x = du_hi(a); x += du_hi(b); x == img(v, &sat) }), &mut fails);
                if sat == "no" {
                    chk("sec", "x + y", util::catch(|| du_sec(a) + du_sec(b) == du_sec(v)), &mut fails);
                }
            }
            "DurSub" => {
                chk("hi", "x - y", util::catch(|| du_hi(a) - du_hi(b) == img(v, &sat)), &mut fails);
                chk("hi", "x -= y", util::catch(|| { let mut x = du_hi(a); x -= du_hi(b); x == img(v, &sat) }), &mut fails);
                if sat == "no" {
                    chk("sec", "x - y", util::catch(|| du_sec(a) - du_sec(b) == du_sec(v)), &mut fails);
                }
            }
            "DurMul" => {
                chk("hi", "x * k(i64)", util::catch(|| du_hi(a) * b == img(v, &sat)), &mut fails);
                chk("hi", "k(i8) * x", util::catch(|| (b as i8) * du_hi(a) == img(v, &sat)), &mut fails);
                chk("hi", "x *= k(i32)", util::catch(|| { let mut x = du_hi(a); x *= b as i32; x == img(v, &sat) }), &mut fails);
                if b >= 0 {
                    chk("hi", "x * k(u64)", util::catch(|| du_hi(a) * (b as u64) == img(v, &sat)), &mut fails);
                }
                if sat == "no" {
                    chk("sec", "x * k", util::catch(|| du_sec(a) * b == du_sec(v)), &mut fails);
                }
            }
            _ => {}
        }
        for (field, detail) in fails {
            out.put(&json!({"id": c["id"], "act": act, "out": o, "emb": detail.split(':').next().unwrap_or(""), "field": field, "detail": detail}));
        }
    }
    out.put(&json!({"summary": true, "evaluations": evals}));
    out.finish();
}

#[test]
fn verif_timearith() {
    let job = util::job();
    match job["mode"].as_str().unwrap() {
        "replay" => replay(&job),
        other => panic!("unknown mode {other}"),
    }
}
