// C45 harness (spec/Csptp.tla, server part): runs the real statime_csptp::serve with a recording ServerSocket on
// every (server state, datagram class) pair enumerated by TLC and compares the datagrams handed to the socket
// with the specification's expectation.  Datagrams are written and decoded by this file's own byte code.
use crate::csptp_wire::*;
use crate::util::{self, Rng};
use serde_json::{json, Map, Value};
use statime_csptp::{CsptpConfig, CsptpManager, InternalState, ServerRecvResult, ServerSocket, serve};
use statime_wire::{ClockAccuracy, ClockIdentity, ClockQuality, Timestamp};
use std::cell::{Cell, RefCell};
use std::collections::VecDeque;
use std::rc::Rc;
use std::task::Poll;

type Addr = (u8, u16);

struct Sent {
    chan: &'static str,
    idx: usize,
    bytes: Vec<u8>,
    from: Addr,
    to: Addr,
}

struct MockSocket {
    queue: VecDeque<Vec<u8>>,
    handed: Rc<Cell<usize>>,
    rt: Timestamp,
    ev: Option<Timestamp>,
    log: Rc<RefCell<Vec<Sent>>>,
    done: Rc<Cell<bool>>,
}

fn remote(i: usize) -> Addr { (10, 1000 + i as u16) }
fn local(i: usize) -> Addr { (20, 319 + (i % 2) as u16) }

impl ServerSocket for MockSocket {
    type Addr = Addr;
    type Error = ();

    async fn recv(&mut self, buf: &mut [u8]) -> Result<ServerRecvResult<Addr>, ()> {
        if let Some(d) = self.queue.pop_front() {
            let i = self.handed.get();
            self.handed.set(i + 1);
            buf[..d.len()].copy_from_slice(&d);
            return Ok(ServerRecvResult { bytes_read: d.len(), remote_addr: remote(i), local_addr: local(i), timestamp: self.rt });
        }
        let done = self.done.clone();
        std::future::poll_fn(move |cx| {
            done.set(true);
            cx.waker().wake_by_ref();
            Poll::<()>::Pending
        })
        .await;
        Err(())
    }

    async fn send_event(&mut self, buf: &[u8], from: Addr, to: Addr) -> Result<Timestamp, ()> {
        self.log.borrow_mut().push(Sent { chan: "event", idx: self.handed.get() - 1, bytes: buf.to_vec(), from, to });
        self.ev.ok_or(())
    }

    async fn send_general(&mut self, buf: &[u8], from: Addr, to: Addr) -> Result<(), ()> {
        self.log.borrow_mut().push(Sent { chan: "general", idx: self.handed.get() - 1, bytes: buf.to_vec(), from, to });
        Ok(())
    }
}

fn config(s: &Value) -> CsptpConfig {
    CsptpConfig {
        identity: ClockIdentity([1, 2, 3, 4, 5, 6, 7, 8]),
        priority_1: 17,
        priority_2: 33,
        clock_quality: ClockQuality { clock_class: 6, clock_accuracy: ClockAccuracy::NS100, offset_scaled_log_variance: 0x4e5d },
        ptp_timescale: util::b(s, "pts"),
        time_traceable: util::b(s, "tt"),
        frequency_traceable: util::b(s, "ft"),
    }
}
// the status TLV value the configuration above must produce (steps_removed 0, utc offset 0)
const STATUS_VALUE: [u8; 18] = [17, 6, 0x21, 0x4e, 0x5d, 33, 0, 0, 0, 0, 1, 2, 3, 4, 5, 6, 7, 8];

fn request_bytes(d: &Value, rng: &mut Rng) -> Vec<u8> {
    let parse = util::s(d, "parse");
    if parse == "garbage" {
        return rng.bytes(60);
    }
    let mut m = Msg::new(match util::s(d, "body").as_str() {
        "Sync" => 0x0, "FollowUp" => 0x8, "DelayReq" => 0x1, "Announce" => 0xb, "Signaling" => 0xc, b => panic!("body {b}"),
    });
    m.sdo = if util::s(d, "sdo") == "csptp" { 0x300 } else { 0x000 };
    m.version = if util::i(d, "major") == 2 { 0x12 } else { 0x11 };
    m.domain = util::i(d, "domain") as u8;
    m.seq = util::i(d, "seq") as u16;
    m.corr = corr_value(&util::s(d, "corr"));
    m.flags6 = 0x04 | if util::b(d, "twostep") { 0x02 } else { 0 };
    m.logint = 0x7f;
    m.ts = (rng.next() & 0xffff_ffff, (rng.next() % 1_000_000_000) as u32);
    if parse == "badnanos" { m.ts.1 = 1_000_000_001; }
    for t in d["tlvs"].as_array().unwrap() {
        match t.as_str().unwrap() {
            "req" => m.tlvs.push((0xff00, vec![(util::b(d, "wantStatus") as u8) | ((rng.next() as u8) & 2), 0, 0, 0])),
            "req_empty" => m.tlvs.push((0xff00, vec![])),
            "resp" => { let mut v = ts_bytes(ts_value("midA")).to_vec(); v.extend_from_slice(&0i64.to_be_bytes()); m.tlvs.push((0xff01, v)); }
            "resp_short" => m.tlvs.push((0xff01, ts_bytes(ts_value("midA")).to_vec())),
            "status" => m.tlvs.push((0xf002, STATUS_VALUE.to_vec())),
            "pad" => m.tlvs.push((0x8008, vec![0, 0])),
            x => panic!("tlv class {x}"),
        }
    }
    let mut b = m.bytes();
    if parse == "truncated" { b.truncate(b.len() - 6); }
    b.extend(std::iter::repeat(0u8).take(util::i(d, "pad") as usize));
    b
}

fn describe(prefix: &str, sent: Option<&Sent>, idx: usize, o: &mut Map<String, Value>) {
    let put = |o: &mut Map<String, Value>, k: &str, v: Value| { o.insert(format!("{prefix}_{k}"), v); };
    let Some(s) = sent else {
        for (k, v) in [("kind", json!("none")), ("domain", json!(-1)), ("seq", json!(-1)), ("twostep", json!(false)), ("ingress", json!("")),
                       ("reqcorr", json!("")), ("origin", json!("")), ("status", json!(false)), ("pts", json!(false)), ("tt", json!(false)), ("ft", json!(false))] {
            put(o, k, v);
        }
        return;
    };
    let Some(m) = Msg::decode(&s.bytes) else {
        put(o, "kind", json!("undecodable"));
        return;
    };
    let resp = m.tlvs.iter().find(|t| t.0 == 0xff01);
    let kind = match (m.ty, resp.is_some()) { (0x0, true) => "response", (0x8, _) => "followup", _ => "other" };
    put(o, "kind", json!(kind));
    put(o, "domain", json!(m.domain));
    put(o, "seq", json!(m.seq));
    put(o, "twostep", json!(m.flags6 & 0x02 != 0));
    put(o, "origin", json!(ts_class(m.ts)));
    match resp {
        Some((_, v)) if v.len() == 18 => {
            put(o, "ingress", json!(ts_class(ts_from(&v[0..10]))));
            put(o, "reqcorr", json!(corr_class(i64::from_be_bytes(v[10..18].try_into().unwrap()))));
        }
        Some(_) => { put(o, "ingress", json!("malformed")); put(o, "reqcorr", json!("malformed")); }
        None => { put(o, "ingress", json!("")); put(o, "reqcorr", json!("")); }
    }
    let status = m.tlvs.iter().find(|t| t.0 == 0xf002);
    put(o, "status", json!(status.is_some()));
    put(o, "pts", json!(m.flags7 & 0x08 != 0));
    put(o, "tt", json!(m.flags7 & 0x10 != 0));
    put(o, "ft", json!(m.flags7 & 0x20 != 0));
    // observables outside C45's cone
    let hdr_ok = m.sdo == 0x300 && m.version == 0x12 && m.flags6 & 0x04 != 0 && m.logint == 0x7f && m.corr == 0 && m.flags7 & 0x07 == 0
        && m.total_len == s.bytes.len();
    put(o, "hdr", json!(hdr_ok));
    put(o, "addr", json!(s.from == local(idx) && s.to == remote(idx)));
    if let Some((_, v)) = status { put(o, "statusval", json!(v[..] == STATUS_VALUE[..])); }
}

fn run_group(state: &Value, group: &[&Value], out: &mut util::NdjsonOut, counts: &mut [u64; 3]) {
    let log = Rc::new(RefCell::new(Vec::new()));
    let done = Rc::new(Cell::new(false));
    let mut queue = VecDeque::new();
    for c in group {
        let mut rng = Rng::new(c["s"].as_u64().unwrap());
        queue.push_back(request_bytes(&c["act"]["d"], &mut rng));
    }
    let requests: Vec<Vec<u8>> = queue.iter().cloned().collect();
    let ev = util::s(state, "ev");
    let to_ts = |c: &str| { let (s, n) = ts_value(c); Timestamp::new(s, n).unwrap() };
    let handed = Rc::new(Cell::new(0usize));
    let socket = MockSocket {
        queue, handed: handed.clone(), rt: to_ts(&util::s(state, "rt")), ev: if ev == "err" { None } else { Some(to_ts(&ev)) },
        log: log.clone(), done: done.clone(),
    };
    let manager = CsptpManager::<RefCell<InternalState>>::new(config(state));
    let d2 = done.clone();
    let res = util::catch(|| {
        let rt = tokio::runtime::Builder::new_current_thread().build().unwrap();
        rt.block_on(serve(socket, std::future::poll_fn(move |_| if d2.get() { Poll::Ready(()) } else { Poll::Pending }), &manager));
    });
    let log = log.borrow();
    // a panic ends the group: it is attributed to the datagram being handled, the rest of the group is re-run alone
    let panicked_at = res.as_ref().err().map(|_| handed.get().saturating_sub(1));
    for (i, c) in group.iter().enumerate() {
        if let Some(p) = panicked_at { if i > p && group.len() > 1 { run_group(state, &group[i..i + 1], out, counts); continue; } }
        let mut o = Map::new();
        let mine: Vec<&Sent> = log.iter().filter(|s| s.idx == i).collect();
        o.insert("nsend".into(), json!(mine.len()));
        let evs = mine.first().filter(|s| s.chan == "event").copied();
        let fus = mine.get(1).filter(|s| s.chan == "general").copied();
        describe("ev", evs, i, &mut o);
        describe("fu", fus, i, &mut o);
        let mut fields = vec![];
        let exp = &c["out"];
        if exp["nsend"] != o["nsend"] { fields.push("nsend".to_string()); }
        for p in ["ev", "fu"] {
            for (k, v) in exp[p].as_object().unwrap() {
                if o.get(&format!("{p}_{k}")) != Some(v) { fields.push(format!("{p}_{k}")); }
            }
            for k in ["hdr", "addr", "statusval"] {
                if o.get(&format!("{p}_{k}")) == Some(&json!(false)) { fields.push(format!("{p}_{k}")); }
            }
        }
        let panic = if panicked_at == Some(i) { fields.push("panic".into()); res.as_ref().err().cloned() } else { None };
        counts[0] += 1;
        if mine.is_empty() { counts[2] += 1 } else { counts[1] += 1 }
        if !fields.is_empty() {
            o.insert("request_hex".into(), json!(hex(&requests[i])));
            out.put(&json!({"id": c["id"], "fields": fields, "observed": o, "panic": panic}));
        }
    }
}

#[test]
fn verif_csptp_server() {
    let job = util::job();
    let cases = util::read_ndjson(&util::s(&job, "input"));
    let mut out = util::NdjsonOut::create(&util::s(&job, "output"));
    let chunk = util::i(&job, "chunk") as usize;
    let mut counts = [0u64; 3];
    // consecutive cases with the same server state share one serve() call (the server must treat datagrams independently)
    let mut i = 0;
    while i < cases.len() {
        let state = &cases[i]["act"]["s"];
        let mut j = i;
        while j < cases.len() && j - i < chunk && &cases[j]["act"]["s"] == state { j += 1; }
        let group: Vec<&Value> = cases[i..j].iter().collect();
        run_group(state, &group, &mut out, &mut counts);
        i = j;
    }
    out.put(&json!({"summary": {"cases": counts[0], "answered": counts[1], "unanswered": counts[2]}}));
    out.finish();
}
