// Byte-level PTP/CSPTP datagram writer and decoder used by the CSPTP harnesses; independent of statime-wire's codec.
// Also the mapping between the specification's value classes (spec/Csptp.tla) and concrete values.

pub const MAX_SECS: u64 = (1 << 48) - 1;

/// timestamp class -> (seconds, nanoseconds)
pub fn ts_value(class: &str) -> (u64, u32) {
    match class {
        "zero" => (0, 0),
        "max" => (MAX_SECS, 999_999_999),
        "midA" => (1_700_000_000, 123_456_789),
        "midB" => (1_700_000_001, 987_654_321),
        "midC" => (1_700_000_002, 500_000_000),
        "midD" => (1_700_000_003, 250_000_000),
        c => panic!("timestamp class {c}"),
    }
}
pub fn ts_class(v: (u64, u32)) -> String {
    for c in ["zero", "max", "midA", "midB", "midC", "midD"] {
        if ts_value(c) == v { return c.to_string(); }
    }
    format!("other:{}:{}", v.0, v.1)
}
/// correction class -> scaled nanoseconds (TimeInterval)
pub fn corr_value(class: &str) -> i64 {
    match class { "zero" => 0, "pos1" => 1 << 16, "neg1" => -(1 << 16), "max" => i64::MAX, "min" => i64::MIN, c => panic!("correction class {c}") }
}
pub fn corr_class(v: i64) -> String {
    for c in ["zero", "pos1", "neg1", "max", "min"] {
        if corr_value(c) == v { return c.to_string(); }
    }
    format!("other:{v}")
}
pub fn ts_bytes(v: (u64, u32)) -> [u8; 10] {
    let mut o = [0u8; 10];
    o[0..6].copy_from_slice(&v.0.to_be_bytes()[2..8]);
    o[6..10].copy_from_slice(&v.1.to_be_bytes());
    o
}
pub fn ts_from(b: &[u8]) -> (u64, u32) {
    let mut s = [0u8; 8];
    s[2..8].copy_from_slice(&b[0..6]);
    (u64::from_be_bytes(s), u32::from_be_bytes(b[6..10].try_into().unwrap()))
}
pub fn hex(b: &[u8]) -> String { b.iter().map(|x| format!("{x:02x}")).collect() }

pub fn body_len(ty: u8) -> usize {
    match ty { 0x0 | 0x1 | 0x8 | 0xc => 10, 0xd => 14, 0xb => 30, _ => 20 }
}

#[derive(Clone, Debug)]
pub struct Msg {
    pub ty: u8,
    pub sdo: u16,
    pub version: u8,
    pub domain: u8,
    pub flags6: u8,
    pub flags7: u8,
    pub corr: i64,
    pub spi: [u8; 10],
    pub seq: u16,
    pub logint: u8,
    pub ts: (u64, u32),              // first ten body bytes
    pub tlvs: Vec<(u16, Vec<u8>)>,
    pub total_len: usize,            // decode only: the message_length field
}

impl Msg {
    pub fn new(ty: u8) -> Msg {
        Msg { ty, sdo: 0x300, version: 0x12, domain: 0, flags6: 0x04, flags7: 0, corr: 0, spi: [0; 10], seq: 0, logint: 0x7f, ts: (0, 0), tlvs: vec![], total_len: 0 }
    }
    pub fn bytes(&self) -> Vec<u8> {
        let mut b = vec![0u8; 34 + body_len(self.ty)];
        b[0] = (((self.sdo >> 8) as u8) << 4) | self.ty;
        b[1] = self.version;
        b[4] = self.domain;
        b[5] = (self.sdo & 0xff) as u8;
        b[6] = self.flags6;
        b[7] = self.flags7;
        b[8..16].copy_from_slice(&self.corr.to_be_bytes());
        b[20..30].copy_from_slice(&self.spi);
        b[30..32].copy_from_slice(&self.seq.to_be_bytes());
        b[33] = self.logint;
        b[34..44].copy_from_slice(&ts_bytes(self.ts));
        for (t, v) in &self.tlvs {
            b.extend_from_slice(&t.to_be_bytes());
            b.extend_from_slice(&(v.len() as u16).to_be_bytes());
            b.extend_from_slice(v);
        }
        let n = b.len() as u16;
        b[2..4].copy_from_slice(&n.to_be_bytes());
        b
    }
    pub fn decode(b: &[u8]) -> Option<Msg> {
        if b.len() < 34 { return None; }
        let ty = b[0] & 0x0f;
        let total_len = u16::from_be_bytes([b[2], b[3]]) as usize;
        if total_len > b.len() || total_len < 34 + body_len(ty) { return None; }
        let mut m = Msg::new(ty);
        m.sdo = (((b[0] >> 4) as u16) << 8) | b[5] as u16;
        m.version = b[1];
        m.domain = b[4];
        m.flags6 = b[6];
        m.flags7 = b[7];
        m.corr = i64::from_be_bytes(b[8..16].try_into().unwrap());
        m.spi.copy_from_slice(&b[20..30]);
        m.seq = u16::from_be_bytes([b[30], b[31]]);
        m.logint = b[33];
        m.ts = ts_from(&b[34..44]);
        m.total_len = total_len;
        let mut p = 34 + body_len(ty);
        while p + 4 <= total_len {
            let t = u16::from_be_bytes([b[p], b[p + 1]]);
            let l = u16::from_be_bytes([b[p + 2], b[p + 3]]) as usize;
            if p + 4 + l > total_len { return None; }
            m.tlvs.push((t, b[p + 4..p + 4 + l].to_vec()));
            p += 4 + l;
        }
        if p != total_len { return None; }
        Some(m)
    }
}
