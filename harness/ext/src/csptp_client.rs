// C44 harness (spec/Csptp.tla, client part): replays walks of the bounded client model on the real
// statime_csptp::CsptpSource::run (scripted ClientSocket, recording SourceController, paused tokio clock).
// One run() per walk; every effect is attributed to the last script action consumed before it.
use crate::csptp_wire::*;
use crate::util::{self, Rng};
use ntp_proto::{ClockId, Measurement, NtpLeapIndicator, NtpTimestamp, ObservableSourceTimedata, PollInterval, SourceController};
use serde_json::{json, Value};
use statime_csptp::{ClientRecvResult, ClientSocket, CsptpConfig, CsptpManager, CsptpSource, CsptpSourceConfig, InternalState};
use statime_wire::Timestamp;
use std::cell::RefCell;
use std::rc::Rc;
use std::sync::{Arc, Mutex};
use std::task::Poll;
use std::time::Duration;

const DOMAIN: u8 = 77;
const T1: &str = "midA"; // what send_event reports for our requests
const T2_SECS: u64 = 1_700_000_010; // ingress timestamps (tagged in the nanoseconds)
const T4_SECS: u64 = 1_700_000_020; // receive timestamps (tagged in the nanoseconds)

enum Ev {
    Meas(Measurement),
    Usable(bool),
    Req { domain: u8, seq: u16, wellformed: bool },
}

struct Shared {
    script: Vec<Value>,        // the walk's actions
    pos: usize,                // next action to consume
    events: Vec<(i64, Ev)>,    // (index of the last consumed action, event)
    cur: (u8, u16),            // ids of the request in flight
    nreq: usize,
    leaps: Vec<u8>,            // flags7 used for the datagram of each step
    stop: bool,
    seed: u64,
}
impl Shared {
    fn at(&self) -> i64 { self.pos as i64 - 1 }
}

struct Controller(Arc<Mutex<Vec<Ev>>>);
// events from the controller are moved into Shared.events right after each poll of run(); since run() is a single
// task and the script position only moves inside recv/create_socket, we stamp them lazily (see drain()).
impl SourceController for Controller {
    fn handle_measurement(&mut self, m: Measurement) { self.0.lock().unwrap().push(Ev::Meas(m)); }
    fn set_usable(&mut self, u: bool) { self.0.lock().unwrap().push(Ev::Usable(u)); }
    fn desired_poll_interval(&self) -> PollInterval { unimplemented!() }
    fn observe(&self) -> ObservableSourceTimedata { unimplemented!() }
}

struct Socket { sh: Rc<RefCell<Shared>>, ctl: Arc<Mutex<Vec<Ev>>> }

fn drain(sh: &mut Shared, ctl: &Arc<Mutex<Vec<Ev>>>) {
    let at = sh.at();
    for e in ctl.lock().unwrap().drain(..) { sh.events.push((at, e)); }
}

fn datagram(p: &Value, cur: (u8, u16), step: usize, flags7: u8, rng: &mut Rng) -> Vec<u8> {
    let kind = util::s(p, "kind");
    if kind == "garbage" { return rng.bytes(50); }
    let (dom, seq) = match util::s(p, "match").as_str() {
        "match" => cur, "wrongseq" => (cur.0, cur.1.wrapping_add(1)), "wrongdomain" => (cur.0 ^ 1, cur.1), m => panic!("match {m}"),
    };
    let mut m = Msg::new(match kind.as_str() { "followup" => 0x8, "otherptp" => 0x1, _ => 0x0 });
    m.domain = dom;
    m.seq = seq;
    m.flags7 = flags7;
    m.corr = corr_value(&util::s(p, "corr"));
    match kind.as_str() {
        "resp1" | "resp2" | "resp_nots" => {
            if kind == "resp2" { m.flags6 |= 0x02; } else { m.ts = ts_value(&util::s(p, "t3")); }
            let mut v = ts_bytes((T2_SECS, 1000 * (step as u32 + 1) + 1)).to_vec();
            v.extend_from_slice(&corr_value(&util::s(p, "reqcorr")).to_be_bytes());
            m.tlvs.push((0xff01, v));
            if util::b(p, "status") { m.tlvs.push((0xf002, vec![9, 6, 0x21, 0, 1, 8, 0, 3, 0, 0, 8, 7, 6, 5, 4, 3, 2, 1])); }
        }
        "followup" => { m.flags6 |= 0x02; m.ts = ts_value(&util::s(p, "t3")); }
        "request" => m.tlvs.push((0xff00, vec![1, 0, 0, 0])),
        "otherptp" => {}
        k => panic!("kind {k}"),
    }
    m.bytes()
}

impl ClientSocket for Socket {
    type Error = ();

    fn recv(&mut self, buf: &mut [u8]) -> impl Future<Output = Result<ClientRecvResult, ()>> {
        let sh = self.sh.clone();
        let ctl = self.ctl.clone();
        std::future::poll_fn(move |cx| {
            let mut s = sh.borrow_mut();
            drain(&mut s, &ctl);
            if s.pos >= s.script.len() {
                s.stop = true;
                cx.waker().wake_by_ref();
                return Poll::Pending;
            }
            let a = s.script[s.pos].clone();
            if util::s(&a, "t") == "Timeout" { return Poll::Pending; } // only the response timeout ends this request
            let step = s.pos;
            s.pos += 1;
            let mut rng = Rng::new(s.seed ^ (step as u64 + 1) * 7919);
            let leap = [0u8, 1, 2][rng.below(3) as usize] | ((rng.next() as u8) & 0x38);
            while s.leaps.len() <= step { s.leaps.push(0); }
            s.leaps[step] = leap;
            let p = &a["p"];
            let d = datagram(p, s.cur, step, leap, &mut rng);
            buf[..d.len()].copy_from_slice(&d);
            let ts = if util::s(p, "kind") == "resp_nots" { None } else { Some(Timestamp::new(T4_SECS, 1000 * (step as u32 + 1) + 2).unwrap()) };
            Poll::Ready(Ok(ClientRecvResult { bytes_read: d.len(), timestamp: ts }))
        })
    }

    fn send_event(&mut self, buf: &[u8]) -> impl Future<Output = Result<Timestamp, ()>> {
        let mut s = self.sh.borrow_mut();
        drain(&mut s, &self.ctl);
        let m = Msg::decode(buf);
        let (domain, seq, wf) = match &m {
            Some(m) => (m.domain, m.seq, m.ty == 0 && m.sdo == 0x300 && m.tlvs.len() == 1 && m.tlvs[0].0 == 0xff00 && !m.tlvs[0].1.is_empty()),
            None => (0, 0, false),
        };
        s.cur = (domain, seq);
        let at = s.at();
        s.events.push((at, Ev::Req { domain, seq, wellformed: wf }));
        let (secs, nanos) = ts_value(T1);
        std::future::ready(Ok(Timestamp::new(secs, nanos).unwrap()))
    }
}

struct StepRng(u64);
impl rand::RngCore for StepRng {
    fn next_u32(&mut self) -> u32 { self.next_u64() as u32 }
    fn next_u64(&mut self) -> u64 { self.0 = self.0.wrapping_mul(6364136223846793005).wrapping_add(1442695040888963407); self.0 >> 11 | self.0 << 53 }
    fn fill_bytes(&mut self, d: &mut [u8]) { for b in d.iter_mut() { *b = self.next_u64() as u8; } }
    fn try_fill_bytes(&mut self, d: &mut [u8]) -> Result<(), rand::Error> { self.fill_bytes(d); Ok(()) }
}

// source.rs convert_to_ntp, restated (used for the value comparison and, fraction only, for provenance)
fn to_ntp(secs: u64, nanos: u32) -> NtpTimestamp {
    let epoch: u32 = (70 * 365 + 17) * 86400;
    NtpTimestamp::from_seconds_nanos_since_ntp_era(epoch.wrapping_add(secs as u32).wrapping_sub(37), nanos)
}
fn same_fraction(a: NtpTimestamp, b: NtpTimestamp) -> bool {
    let (_, n) = (a - b).as_seconds_nanos();
    n <= 2 || n >= 999_999_998
}
// exact ts + sum of corrections (saturating, as TimeInterval sums do), None when outside 0 .. 2^48 s
fn corrected(ts: (u64, u32), corrs: &[i64]) -> Option<(u64, u32)> {
    let mut c: i64 = 0;
    for x in corrs { c = c.saturating_add(*x); }
    let total = ts.0 as i128 * 1_000_000_000 + ts.1 as i128 + (c >> 16) as i128;
    if total < 0 { return None; }
    let (s, n) = ((total / 1_000_000_000) as u128, (total % 1_000_000_000) as u32);
    if s > MAX_SECS as u128 { None } else { Some((s as u64, n)) }
}

fn run_walk(walk: &[Value], seed: u64) -> (usize, Option<Value>) {
    let script: Vec<Value> = walk.iter().map(|w| w["act"].clone()).collect();
    let sh = Rc::new(RefCell::new(Shared { script, pos: 0, events: vec![], cur: (0, 0), nreq: 0, leaps: vec![], stop: false, seed }));
    let ctl = Arc::new(Mutex::new(Vec::new()));
    let local = ClockId::new();
    let remote = ClockId::new();
    let res = {
        let (sh, ctl) = (sh.clone(), ctl.clone());
        util::catch(move || {
            let manager = CsptpManager::<RefCell<InternalState>>::new(CsptpConfig::default());
            let cfg = CsptpSourceConfig { poll_interval: Duration::from_millis(1000), response_interval: Duration::from_millis(500), domain: DOMAIN };
            let mut source = CsptpSource::new(local, remote, cfg, &manager, Controller(ctl.clone()));
            let rt = tokio::runtime::Builder::new_current_thread().enable_all().start_paused(true).build().unwrap();
            let sh2 = sh.clone();
            let shutdown = std::future::poll_fn(move |_| if sh2.borrow().stop { Poll::Ready(()) } else { Poll::Pending });
            let sh3 = sh.clone();
            let ctl3 = ctl.clone();
            let create = move || -> Result<Socket, ()> {
                let mut s = sh3.borrow_mut();
                drain(&mut s, &ctl3);
                if s.nreq > 0 {
                    // a new request consumes the model's Timeout action; without one the walk is over
                    if s.pos < s.script.len() && util::s(&s.script[s.pos], "t") == "Timeout" { s.pos += 1; } else { return Err(()); }
                }
                s.nreq += 1;
                Ok(Socket { sh: sh3.clone(), ctl: ctl3.clone() })
            };
            let mut k = seed;
            let _ = rt.block_on(source.run(shutdown, create, tokio::time::sleep, move || { k = k.wrapping_add(0x9E37); StepRng(k) }));
        })
    };
    let mut s = sh.borrow_mut();
    drain(&mut s, &ctl);
    let panic_step = res.as_ref().err().map(|_| s.at().max(0) as usize);
    let upto = panic_step.map(|p| p + 1).unwrap_or(walk.len());
    let mut req_start = 0usize; // first step of the request in flight
    let mut resp2_step: Option<usize> = None; // step whose two-step response the RequestState remembers
    for i in 0..upto.min(walk.len()) {
        let w = &walk[i];
        let exp = &w["out"];
        let mut fields: Vec<String> = vec![];
        let meas: Vec<&Measurement> = s.events.iter().filter(|(at, _)| *at == i as i64).filter_map(|(_, e)| if let Ev::Meas(m) = e { Some(m) } else { None }).collect();
        let reqs: Vec<(u8, u16, bool)> = s.events.iter().filter(|(at, _)| *at == i as i64).filter_map(|(_, e)| if let Ev::Req { domain, seq, wellformed } = e { Some((*domain, *seq, *wellformed)) } else { None }).collect();
        let usable = s.events.iter().filter(|(at, _)| *at == i as i64).any(|(_, e)| matches!(e, Ev::Usable(true)));
        let panicked = panic_step == Some(i);
        let en = exp["meas"]["n"].as_u64().unwrap() as usize;
        let mut obs = json!({"handle_measurement_calls": meas.len(), "requests": reqs.iter().map(|r| json!([r.0, r.1, r.2])).collect::<Vec<_>>(), "set_usable": usable});
        if panicked {
            fields.push("panic".into());
        } else {
            if meas.len() > 2 * en { fields.push("out.meas_extra".into()); }
            if meas.len() < 2 * en { fields.push("out.meas_missing".into()); }
        }
        if en == 1 && meas.len() == 2 {
            let p = &w["act"]["p"];
            let kind = util::s(p, "kind");
            let rstep = if kind == "followup" { resp2_step.unwrap_or(usize::MAX) } else { i };
            let t2 = to_ntp(T2_SECS, 1000 * (rstep as u32 + 1) + 1);
            let t4 = to_ntp(T4_SECS, 1000 * (rstep as u32 + 1) + 2);
            // provenance (C44's cone): the receive-side timestamps are those of SOME matching response delivered for
            // this request (which of several duplicates is used is not prescribed by the property; the model's choice is
            // compared under meas_val)
            let ids_ok = meas[0].sender_id == local && meas[0].receiver_id == remote && meas[1].sender_id == remote && meas[1].receiver_id == local;
            let src_ok = ids_ok && (req_start..=i).any(|j| {
                let pj = &walk[j]["act"]["p"];
                walk[j]["act"]["t"] == "Recv" && pj["match"] == "match" && (pj["kind"] == "resp1" || pj["kind"] == "resp2")
                    && same_fraction(meas[0].receiver_ts, to_ntp(T2_SECS, 1000 * (j as u32 + 1) + 1))
                    && same_fraction(meas[1].receiver_ts, to_ntp(T4_SECS, 1000 * (j as u32 + 1) + 2))
            });
            if !src_ok { fields.push("out.meas_src".into()); }
            // values (outside C44's cone)
            let m = &exp["meas"];
            let rc: Vec<i64> = m["rcorr"].as_array().unwrap().iter().map(|c| corr_value(c.as_str().unwrap())).collect();
            let e1 = corrected(ts_value(T1), &[corr_value(&util::s(m, "reqcorr"))]);
            let e3 = corrected(ts_value(&util::s(m, "t3")), &rc);
            let fl = s.leaps.get(rstep).copied().unwrap_or(0);
            let leap = if fl & 2 != 0 { NtpLeapIndicator::Leap59 } else if fl & 1 != 0 { NtpLeapIndicator::Leap61 } else { NtpLeapIndicator::NoWarning };
            let mut val_ok = meas[0].receiver_ts == t2 && meas[1].receiver_ts == t4 && meas[0].leap == leap && meas[1].leap == leap && usable;
            if let Some(e) = e1 { val_ok &= meas[0].sender_ts == to_ntp(e.0, e.1); }
            if let Some(e) = e3 { val_ok &= meas[1].sender_ts == to_ntp(e.0, e.1); }
            if e3.is_some() != m["inrange"].as_bool().unwrap() { fields.push("harness.inrange".into()); }
            if !val_ok { fields.push("out.meas_val".into()); }
            obs["meas"] = json!([format!("{:?}", meas[0]), format!("{:?}", meas[1])]);
        }
        let enr = exp["newreq"].as_u64().unwrap();
        if !panicked {
            if enr > 0 && reqs != vec![(DOMAIN, (enr - 1) as u16, true)] { fields.push("out.newreq".into()); }
            if enr == 0 && !reqs.is_empty() { fields.push("out.newreq".into()); }
        }
        if w["act"]["t"] == "Timeout" { req_start = i + 1; }
        // mirror of the model's RequestState bookkeeping, for provenance of follow-up completions
        let (pre_rs, post_rs) = (if i == 0 { "WaitResp".to_string() } else { util::s(&walk[i - 1]["post"], "rs") }, util::s(&w["post"], "rs"));
        if post_rs == "WaitFollowUp" && pre_rs != "WaitFollowUp" { resp2_step = Some(i); }
        if post_rs != "WaitFollowUp" { resp2_step = None; }
        if !fields.is_empty() {
            return (i + 1, Some(json!({"step": i, "fields": fields, "observed": obs, "panic": if panicked { res.as_ref().err().cloned() } else { None }})));
        }
    }
    // the very first request (before any action) must be request 0 of the configured domain
    let first: Vec<&(i64, Ev)> = s.events.iter().filter(|(at, e)| *at == -1 && matches!(e, Ev::Req { .. })).collect();
    let first_ok = matches!(first.as_slice(), [(_, Ev::Req { domain: DOMAIN, seq: 0, wellformed: true })]);
    if !first_ok && !walk.is_empty() {
        return (1, Some(json!({"step": 0, "fields": ["out.newreq"], "observed": {"first_request": first.len()}, "panic": null})));
    }
    (walk.len(), None)
}

#[test]
fn verif_csptp_client() {
    let job = util::job();
    assert_eq!(util::s(&job, "mode"), "replay");
    let walks = util::read_ndjson(&util::s(&job, "input"));
    let mut out = util::NdjsonOut::create(&util::s(&job, "output"));
    let seed = util::i(&job, "seed") as u64;
    for w in &walks {
        let id = w["id"].as_u64().unwrap();
        let (steps_run, fail) = run_walk(w["walk"].as_array().unwrap(), Rng::new(seed ^ id.wrapping_mul(0x1234_5677)).next());
        out.put(&json!({"id": id, "steps_run": steps_run, "fail": fail}));
    }
    out.finish();
}
