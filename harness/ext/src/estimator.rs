// C42 / C43 harness (spec/Estimator.tla): replays walks of the bounded bookkeeping model on the real
// statime_algo::KalmanController / KalmanLink (public API) with recording mock clocks; estimates are snapshotted
// bitwise (f64::to_bits) before and after every operation.
use crate::util::{self, Rng};
use serde_json::{json, Value};
use statime_algo::{AlgoError, KalmanController, KalmanLink, Measurement, StdKalmanStorage};
use statime_base::{Clock, ClockError, ClockId, Direction, Duration, LeapStatus, TAI, Timestamp};
use std::collections::BTreeMap;
use std::sync::{Arc, Mutex};

#[derive(Clone, Debug, PartialEq)]
enum Call { Step(f64), SetFreq(f64) }

struct ClockState {
    now: Timestamp<TAI>, // what the clock reads (kept in the crate's own resolution so that steps are exact)
    drift: f64,         // natural frequency error
    steer: f64,         // frequency set by the controller
    max: f64,
    calls: Vec<Call>,
}
#[derive(Clone)]
struct MockClock(Arc<Mutex<ClockState>>);

fn ts(ns: i128) -> Timestamp<TAI> {
    Timestamp::from_seconds_nanos_since_unix_epoch((ns / 1_000_000_000) as u64, (ns % 1_000_000_000) as u32)
}

impl Clock for MockClock {
    fn now(&self) -> Result<Timestamp<TAI>, ClockError> { Ok(self.0.lock().unwrap().now) }
    fn set_frequency(&self, freq: f64) -> Result<Timestamp<TAI>, ClockError> {
        let mut s = self.0.lock().unwrap();
        s.calls.push(Call::SetFreq(freq));
        s.steer = freq;
        Ok(s.now)
    }
    fn get_frequency(&self) -> Result<f64, ClockError> { Ok(self.0.lock().unwrap().steer) }
    fn max_frequency(&self) -> Result<f64, ClockError> { Ok(self.0.lock().unwrap().max) }
    fn step_clock(&self, offset: Duration) -> Result<Timestamp<TAI>, ClockError> {
        let mut s = self.0.lock().unwrap();
        let secs = offset.as_seconds();
        s.calls.push(Call::Step(secs));
        s.now = s.now + offset;
        Ok(s.now)
    }
    fn error_estimate_update(&self, _e: Duration, _m: Duration) -> Result<(), ClockError> { Ok(()) }
    fn leap_update(&self, _l: LeapStatus) -> Result<(), ClockError> { Ok(()) }
    fn synchronization_update(&self, _s: bool) -> Result<(), ClockError> { Ok(()) }
}

type Storage = StdKalmanStorage<MockClock>;
type Ctl = KalmanController<Storage, MockClock>;
type Link = KalmanLink<Arc<Ctl>, Storage, MockClock>;

// LinkFilterConfig is a public struct with public fields in a private module and has no constructor: its type can
// only be inferred.  All-zero bits are a valid value (four f64 and a usize); every field is then set by name.
fn third_arg<A, B, T, R>(_f: fn(A, B, T) -> R) -> T { unsafe { std::mem::zeroed() } }

const T0: i128 = 1_700_000_000_000_000_000;

struct World {
    ctl: Arc<Ctl>,
    clocks: BTreeMap<u64, MockClock>,      // slot -> mock (steered clocks only)
    ids: BTreeMap<u64, ClockId>,           // slot -> controller id (also of removed clocks)
    spare: Vec<ClockId>,                   // identifiers the controller has never seen
    links: BTreeMap<(u64, u64), (Link, (u64, u64), bool)>, // by ordered end points; with the creation order (Forward = first -> second); tracked
    rng: Rng,
    query_panics: std::cell::Cell<u64>,
    last_panic: std::cell::RefCell<Option<String>>,
    freq_ok: bool,                         // clock_frequency has reported frequencies so far (else: F-14)
}

fn new_clock(slot: u64) -> MockClock {
    MockClock(Arc::new(Mutex::new(ClockState {
        now: ts(T0 + 1_000_000 * slot as i128), drift: 1e-6 * slot as f64, steer: 0.0,
        // even slots get a tight frequency limit so that the controller's clamp saturates on them
        max: if slot % 2 == 0 { 2e-5 } else { 1e-4 * (slot as f64 + 1.0) }, calls: vec![],
    })))
}

fn err_name(e: &AlgoError) -> &'static str {
    match e {
        AlgoError::UnknownClock(_) => "UnknownClock",
        AlgoError::ClockAlreadyExists(_) => "ClockAlreadyExists",
        AlgoError::UnknownLink(_) => "UnknownLink",
        AlgoError::LinkAlreadyExists(_) => "LinkAlreadyExists",
        AlgoError::LinkNotExternal(_) => "LinkNotExternal",
        AlgoError::BothClocksExternal(..) => "BothClocksExternal",
        AlgoError::ClocksEqual(_) => "ClocksEqual",
        AlgoError::NonMonotonicTimeProgression { .. } => "NonMonotonicTimeProgression",
        AlgoError::CannotRemoveSystemClock(_) => "CannotRemoveSystemClock",
        AlgoError::MatrixError(_) => "MatrixError",
        AlgoError::ClockError(_) => "ClockError",
        AlgoError::NotEnoughMeasurements(_) => "NotEnoughMeasurements",
        AlgoError::ClockInUse(..) => "ClockInUse",
    }
}

impl World {
    fn new(seed: u64) -> World {
        let sys = new_clock(1);
        let mut cfg = third_arg(Ctl::new);
        cfg.select_offset_uncertainty_window = 3.0;
        cfg.select_link_uncertainty_window = 3.0;
        cfg.select_delay_uncertainty_window = 1.0;
        cfg.select_max_window_size = 1.0;
        cfg.minimum_agreeing_sources = 1;
        let (ctl, id) = Ctl::new(sys.clone(), 1e-8, cfg).expect("controller");
        let mut w = World { ctl: Arc::new(ctl), clocks: BTreeMap::new(), ids: BTreeMap::new(), spare: vec![], links: BTreeMap::new(), rng: Rng::new(seed), query_panics: std::cell::Cell::new(0), last_panic: std::cell::RefCell::new(None), freq_ok: true };
        w.clocks.insert(1, sys);
        w.ids.insert(1, id);
        w.freq_ok = w.freq0(1);
        w
    }
    fn id_of(&mut self, slot: u64) -> ClockId {
        if let Some(i) = self.ids.get(&slot) { return *i; }
        // an identifier unknown to this controller: taken from a throw-away controller
        let (c, _) = Ctl::new(new_clock(9), 1e-8, { let mut c = third_arg(Ctl::new); c.minimum_agreeing_sources = 1; c }).expect("spare controller");
        let i = c.add_external_clock().expect("spare id");
        self.spare.push(i);
        self.ids.insert(slot, i);
        i
    }
    /// (offset value, offset uncertainty, frequency value, frequency uncertainty) bits of every clock that answers
    fn snapshot(&self) -> BTreeMap<u64, [u64; 4]> {
        let mut m = BTreeMap::new();
        for (slot, id) in &self.ids {
            match util::catch(|| (self.ctl.clock_offset(*id), self.ctl.clock_frequency(*id))) {
                Ok((Ok(o), Ok(f))) => { m.insert(*slot, [o.value.to_bits(), o.uncertainty.to_bits(), f.value.to_bits(), f.uncertainty.to_bits()]); }
                Ok(_) => {}
                Err(p) => { m.insert(*slot, [u64::MAX, self.query_panics.get(), 0, 0]); self.query_panics.set(self.query_panics.get() + 1); self.last_panic.replace(Some(p)); }
            }
        }
        m
    }
    /// right after creation the frequency estimate of a clock is 0 +- its max frequency
    fn freq0(&self, slot: u64) -> bool {
        let max = self.clocks[&slot].0.lock().unwrap().max;
        match util::catch(|| self.ctl.clock_frequency(self.ids[&slot])) {
            Ok(Ok(f)) => f.value == 0.0 && (f.uncertainty - max).abs() <= 1e-9 * max,
            _ => false,
        }
    }
    /// advance true time: every steered clock advances at its own rate
    fn advance(&mut self, dt_ns: i128) {
        for c in self.clocks.values() {
            let mut s = c.0.lock().unwrap();
            let rate = 1.0 + s.drift + s.steer;
            s.now = s.now + Duration::from_f64_seconds(dt_ns as f64 * 1e-9 * rate);
        }
    }
    fn reading(&self, slot: u64, true_ns: i128) -> Timestamp<TAI> {
        // what clock `slot` reads "now": steered clocks read their own time, external clocks the true time
        match self.clocks.get(&slot) { Some(c) => c.0.lock().unwrap().now, None => ts(true_ns) }
    }
    fn clear_calls(&self) { for c in self.clocks.values() { c.0.lock().unwrap().calls.clear(); } }
    fn fmax_ok(&self) -> bool {
        self.clocks.values().all(|c| { let s = c.0.lock().unwrap(); s.calls.iter().all(|k| match k { Call::SetFreq(f) => f.abs() <= s.max, _ => true }) })
    }
    /// one measurement over `link` (created from slot ends.0 to slot ends.1; slot 0 = a clock that reads true time)
    fn measure_link(&mut self, link: &Link, ends: (u64, u64), dir: Direction, true_ns: i128) -> Result<(), AlgoError> {
        let (from, to) = if dir == Direction::Forward { ends } else { (ends.1, ends.0) };
        let delay = 20_000 + self.rng.below(2_000) as i128; // ~20 us path delay with jitter
        let m = Measurement { send_timestamp: self.reading(from, true_ns), recv_timestamp: self.reading(to, true_ns) + Duration::from_f64_seconds(delay as f64 * 1e-9), uncertainty: Duration::from_f64_seconds(1e-6) };
        link.measurement(m, dir)
    }
    /// Drives the tracked link `key` to active (filter.rs measurement: >= 4 completed round trips, which are lost
    /// whenever lib.rs steer_clocks STEPS one of the link's steered end points, plus consensus for a link to an external
    /// clock).  Means (all public API / environment behaviour): every steered end point is made to read at least 0.25 s
    /// ahead of true time and is measured against a temporary external reference over a temporary untracked link until
    /// the controller knows that offset confidently (then it slews instead of stepping); the other links to external
    /// clocks are declared unusable by their remotes meanwhile (their stale offsets would veto the consensus); then
    /// round trips over the link.  The temporary objects are removed again.  Returns whether the link reports active.
    fn activate(&mut self, key: (u64, u64), true_ns: &mut i128) -> Result<bool, AlgoError> {
        let ends = self.links[&key].1;
        let steered: Vec<u64> = [key.0, key.1].into_iter().filter(|s| self.clocks.contains_key(s)).collect();
        let ext_link = |w: &World, k: &(u64, u64)| !(w.clocks.contains_key(&k.0) && w.clocks.contains_key(&k.1));
        let others: Vec<(u64, u64)> = self.links.keys().copied().filter(|k| *k != key && ext_link(self, k)).collect();
        for k in &others { self.links[k].0.external_data_update(Duration::from_f64_seconds(1e-4), None, false)?; }
        if ext_link(self, &key) { self.links[&key].0.external_data_update(Duration::from_f64_seconds(1e-4), None, true)?; }
        let reference = self.ctl.add_external_clock()?;
        let mut anchors = vec![];
        for x in &steered {
            {
                let mut c = self.clocks[x].0.lock().unwrap();
                let ahead = ts(*true_ns) + Duration::from_f64_seconds(0.25);
                if (c.now - ahead).as_seconds() < 0.0 { c.now = ahead; }
            }
            let l = Ctl::create_untracked_link(self.ctl.clone(), reference, self.ids[x])?;
            l.external_data_update(Duration::from_f64_seconds(1e-4), None, true)?;
            anchors.push((*x, l));
        }
        for _ in 0..12 {
            for i in 0..anchors.len() {
                // one reference link at a time: a clock whose offset the controller does not know yet disagrees with
                // every established window, and a measurement without consensus is not used at all
                for (j, (_, l)) in anchors.iter().enumerate() { l.external_data_update(Duration::from_f64_seconds(1e-4), None, i == j)?; }
                self.advance(10_000_000); *true_ns += 10_000_000;
                let (x, l) = &anchors[i];
                self.measure_link(l, (0, *x), Direction::Forward, *true_ns)?;
            }
            for (_, l) in &anchors { l.external_data_update(Duration::from_f64_seconds(1e-4), None, true)?; }
            let slewing = steered.iter().all(|x| match self.ctl.clock_offset(self.ids[x]) { Ok(o) => o.value < 10.0 && o.value > 5.0 * o.uncertainty, _ => false });
            if slewing { break; }
        }
        let mut active = false;
        for _ in 0..10 {
            self.advance(100_000_000); *true_ns += 100_000_000;
            self.measure_once(key, Direction::Forward, *true_ns)?;
            self.advance(10_000_000); *true_ns += 10_000_000;
            self.measure_once(key, Direction::Reverse, *true_ns)?;
            active = self.links[&key].0.active()?;
            if active { break; }
        }
        if std::env::var("VERIF_DEBUG3").is_ok() {
            let est: Vec<String> = steered.iter().map(|x| format!("{x}:{:?} real {:e}", self.ctl.clock_offset(self.ids[x]).map(|o| (o.value, o.uncertainty)), (self.clocks[x].0.lock().unwrap().now - ts(*true_ns)).as_seconds())).collect();
            eprintln!("ACTIVATE {key:?} steered={steered:?} others={others:?} active={active} est={est:?} calls={:?}", steered.iter().map(|x| self.clocks[x].0.lock().unwrap().calls.iter().rev().take(3).cloned().collect::<Vec<_>>()).collect::<Vec<_>>());
        }
        drop(anchors);
        self.ctl.remove_external_clock(reference)?;
        for k in &others { self.links[k].0.external_data_update(Duration::from_f64_seconds(1e-4), None, true)?; }
        let _ = ends;
        Ok(active)
    }
    fn measure_once(&mut self, key: (u64, u64), dir: Direction, true_ns: i128) -> Result<(), AlgoError> {
        let ends = self.links[&key].1;
        let (from, to) = if dir == Direction::Forward { ends } else { (ends.1, ends.0) };
        let delay = 20_000 + self.rng.below(2_000) as i128; // ~20 us path delay with jitter
        let m = Measurement { send_timestamp: self.reading(from, true_ns), recv_timestamp: self.reading(to, true_ns) + Duration::from_f64_seconds(delay as f64 * 1e-9), uncertainty: Duration::from_f64_seconds(1e-6) };
        let r = self.links[&key].0.measurement(m, dir);
        if std::env::var("VERIF_DEBUG").is_ok() {
            let snap: Vec<String> = self.ids.iter().filter_map(|(s, id)| util::catch(|| self.ctl.clock_offset(*id)).ok().and_then(|x| x.ok()).map(|o| format!("{s}:{:e}+-{:e}", o.value, o.uncertainty))).collect();
            let calls: Vec<String> = self.clocks.iter().map(|(s, c)| format!("{s}:{:?}", c.0.lock().unwrap().calls.last())).collect();
            eprintln!("measure {key:?} {dir:?} value={:e} -> {r:?} est {snap:?} last calls {calls:?}", (m.recv_timestamp - m.send_timestamp).as_seconds());
        }
        r
    }
}

fn run_walk(walk: &[Value], seed: u64) -> (usize, Option<Value>, Vec<Value>) {
    let mut soft: Vec<Value> = vec![]; // failures that do not disturb the rest of the walk (freq0)
    let mut w = World::new(seed);
    let mut true_ns: i128 = T0;
    let mut counts = (0u64, 0u64, 0u64); // steps, set_frequency calls, step_clock calls
    for (i, st) in walk.iter().enumerate() {
        let a = &st["act"];
        let exp = &st["out"];
        let t = util::s(a, "t");
        let before = w.snapshot();
        w.clear_calls();
        let mut extra: Vec<String> = vec![];
        let mut info = json!({});
        let r = util::catch(|| -> Result<(), AlgoError> {
            match t.as_str() {
                "AddClock" => {
                    let slot = exp["new"].as_u64().unwrap();
                    let c = new_clock(slot);
                    let behind = w.links.values().filter(|l| l.2 && matches!(l.0.active(), Ok(true))).count() as u64;
                    if behind > 0 { LATE.with(|x| x.set(x.get() + 1)); }
                    let id = w.ctl.add_clock(c.clone(), 1e-8 * slot as f64)?;
                    w.clocks.insert(slot, c);
                    w.ids.insert(slot, id);
                    let ok = w.freq0(slot);
                    if !ok { extra.push("out.freq0".into()); w.freq_ok = false; }
                    Ok(())
                }
                "AddExt" => { let slot = exp["new"].as_u64().unwrap(); let id = w.ctl.add_external_clock()?; w.ids.insert(slot, id); Ok(()) }
                "RemoveClock" => { let x = a["x"].as_u64().unwrap(); let id = w.id_of(x); w.ctl.remove_clock(id)?; w.clocks.remove(&x); Ok(()) }
                "RemoveExt" => { let x = a["x"].as_u64().unwrap(); let id = w.id_of(x); w.ctl.remove_external_clock(id) }
                "AddLink" => {
                    let (x, y) = (a["a"].as_u64().unwrap(), a["b"].as_u64().unwrap());
                    let (ia, ib) = (w.id_of(x), w.id_of(y));
                    let l = if util::s(a, "k") == "tracked" { Ctl::create_tracked_link(w.ctl.clone(), ia, ib, 1e-3)? } else { Ctl::create_untracked_link(w.ctl.clone(), ia, ib)? };
                    w.links.insert((x.min(y), x.max(y)), (l, (x, y), util::s(a, "k") == "tracked"));
                    // the model orders link ends by id; keep the creation order for measurement directions
                    Ok(())
                }
                "RemoveLink" => { let l = &a["l"]; w.links.remove(&(l["a"].as_u64().unwrap(), l["b"].as_u64().unwrap())); Ok(()) }
                "Measure" => {
                    let l = &a["l"];
                    let key = (l["a"].as_u64().unwrap(), l["b"].as_u64().unwrap());
                    if !(w.clocks.contains_key(&key.0) && w.clocks.contains_key(&key.1)) {
                        w.links[&key].0.external_data_update(Duration::from_f64_seconds(1e-4), None, true)?;
                    }
                    for _ in 0..6 {
                        w.advance(125_000_000); true_ns += 125_000_000;
                        w.measure_once(key, Direction::Forward, true_ns)?;
                        w.advance(10_000_000); true_ns += 10_000_000;
                        w.measure_once(key, Direction::Reverse, true_ns)?;
                    }
                    Ok(())
                }
                "Activate" => {
                    let l = &a["l"];
                    let key = (l["a"].as_u64().unwrap(), l["b"].as_u64().unwrap());
                    // Only in the numerically sane regime (see Steer): once two steered clocks without any external reference
                    // have run away (estimates 1e50+, mock clocks stepped to the end of the time scale) no activation is
                    // attempted; the step is then an ordinary Measure.
                    let sane = w.clocks.iter().all(|(slot, c)| {
                        let off = (c.0.lock().unwrap().now - ts(true_ns)).as_seconds();
                        let est = w.ctl.clock_offset(w.ids[slot]).map(|o| o.value.is_finite() && o.value.abs() < 1e6).unwrap_or(false);
                        off.abs() < 1e6 && est
                    });
                    if sane {
                        let ok = w.activate(key, &mut true_ns)?;
                        ACTIVATE.with(|x| { let mut x = x.borrow_mut(); x.0 += 1; if ok { x.1 += 1; } });
                        info = json!({"link_reports_active": ok});
                    } else {
                        ACTIVATE.with(|x| x.borrow_mut().2 += 1);
                        for _ in 0..6 {
                            w.advance(125_000_000); true_ns += 125_000_000;
                            w.measure_once(key, Direction::Forward, true_ns)?;
                            w.advance(10_000_000); true_ns += 10_000_000;
                            w.measure_once(key, Direction::Reverse, true_ns)?;
                        }
                    }
                    Ok(())
                }
                "Steer" => {
                    // pure steering step: one measurement over a fresh temporary tracked link system clock -> clock x.  The link
                    // has no delay estimate, so the measurement itself leaves the estimates alone and only steer_clocks runs.
                    // Time advances only when frequencies are observable.
                    let x = a["x"].as_u64().unwrap();
                    let (ia, ib) = (w.id_of(1), w.id_of(x));
                    let tmp = Ctl::create_tracked_link(w.ctl.clone(), ia, ib, 1e-3)?;
                    let sys_before = w.reading(1, true_ns);
                    if w.freq_ok && w.rng.chance(1, 2) { w.advance(64_000_000_000); true_ns += 64_000_000_000; }
                    let dt = (w.reading(1, true_ns) - sys_before).as_seconds();
                    let steer_before: BTreeMap<u64, f64> = w.clocks.iter().map(|(s, c)| (*s, c.0.lock().unwrap().steer)).collect();
                    w.measure_link(&tmp, (1, x), Direction::Forward, true_ns)?;
                    drop(tmp);
                    let after = w.snapshot();
                    let mut detail = vec![];
                    let (mut degenerate, mut evaluated) = (0u64, 0u64);
                    for (slot, c) in &w.clocks {
                        let calls = c.0.lock().unwrap().calls.clone();
                        let (Some(b), Some(af)) = (before.get(slot), after.get(slot)) else { extra.push("out.live".into()); continue; };
                        let (o0, f0, o1, f1) = (f64::from_bits(b[0]), f64::from_bits(b[2]), f64::from_bits(af[0]), f64::from_bits(af[2]));
                        let (mut s, mut df) = (0.0f64, 0.0f64);
                        for k in &calls { match k { Call::Step(x) => s += x, Call::SetFreq(f) => df += f - steer_before[slot] } }
                        if calls.len() != 1 { extra.push("out.steercalls".into()); }
                        // The relation is evaluated in the numerically sane regime only: with two steered clocks and no
                        // external reference the filter's covariance (initial variance 1e36) loses all precision and the
                        // estimates run away to 1e50 / NaN, where "moves by the applied step" is meaningless (steps saturate).
                        // All clocks share one covariance matrix: a clock whose own numbers are still fine is dragged along
                        // (0 x inf = NaN in progress_time) as soon as ANY clock has run away, so the whole step is skipped then.
                        let sane = |x: f64| x.is_finite() && x.abs() < 1e6;
                        let all_sane = w.clocks.keys().all(|k| before.get(k).map(|b| sane(f64::from_bits(b[0])) && sane(f64::from_bits(b[2])) && f64::from_bits(b[1]).is_finite() && f64::from_bits(b[3]).is_finite()).unwrap_or(false));
                        if !(all_sane && sane(o0) && sane(f0) && sane(s)) { degenerate += 1; continue; }
                        evaluated += 1;
                        if *slot != 1 && (o0 != 0.0 || s != 0.0) { NONTRIV.with(|x| x.set(x.get() + 1)); }
                        if *slot == 1 && (o0 != 0.0 || s != 0.0) { NONTRIV1.with(|x| x.set(x.get() + 1)); }
                        let drift = if w.freq_ok { f0 * dt } else { 0.0 };
                        let want_o = o0 + drift + s;
                        let tol_o = 1e-9 * o0.abs().max(s.abs()).max(want_o.abs()) + 1e-9;
                        if !((o1 - want_o).abs() <= tol_o) { extra.push("out.dstep".into()); }
                        if w.freq_ok {
                            let want_f = f0 + df;
                            let tol_f = 1e-9 * f0.abs().max(df.abs()) + 1e-15;
                            if !((f1 - want_f).abs() <= tol_f) { extra.push("out.dfreq".into()); }
                        }
                        detail.push(json!({"clock": slot, "calls": format!("{calls:?}"), "offset_before": o0, "offset_after": o1, "freq_before": f0, "freq_after": f1, "dt": dt}));
                    }
                    info = json!(detail);
                    STEER.with(|x| { let mut x = x.borrow_mut(); x.0 += evaluated; x.1 += degenerate; });
                    Ok(())
                }
                "Back" => {
                    let l = &a["l"];
                    let key = (l["a"].as_u64().unwrap(), l["b"].as_u64().unwrap());
                    let sys = w.clocks[&1].clone();
                    { let mut s = sys.0.lock().unwrap(); s.now = s.now - Duration::from_f64_seconds(1.0); }
                    let r = w.measure_once(key, Direction::Forward, true_ns);
                    { let mut s = sys.0.lock().unwrap(); s.now = s.now + Duration::from_f64_seconds(1.0); }
                    r
                }
                x => panic!("unknown action {x}"),
            }
        });
        let mut fields: Vec<String> = vec![];
        let mut panic_msg = None;
        let res = match &r {
            Ok(Ok(())) => "ok".to_string(),
            Ok(Err(e)) => err_name(e).to_string(),
            Err(p) => { panic_msg = Some(p.clone()); fields.push("panic".into()); "panic".to_string() }
        };
        let eres = util::s(exp, "res");
        if panic_msg.is_none() && res != eres {
            fields.push(if res == "ok" || eres == "ok" { "out.res".into() } else { "out.errkind".into() });
        }
        let qp = w.query_panics.get();
        let after = w.snapshot();
        if w.query_panics.get() != qp { fields.push("panic".into()); panic_msg = w.last_panic.borrow().clone().map(|p| format!("estimate query: {p}")); }
        let same_bad: Vec<u64> = exp["same"].as_array().unwrap().iter().map(|x| x.as_u64().unwrap()).filter(|x| before.get(x) != after.get(x) || !before.contains_key(x)).collect();
        if !same_bad.is_empty() { fields.push("out.same".into()); }
        let live: Vec<u64> = after.keys().copied().collect();
        let elive: Vec<u64> = exp["live"].as_array().unwrap().iter().map(|x| x.as_u64().unwrap()).collect();
        if live != elive { fields.push("out.live".into()); }
        if !w.fmax_ok() { fields.push("out.fmax".into()); }
        for c in w.clocks.values() { for k in &c.0.lock().unwrap().calls { match k { Call::SetFreq(_) => counts.1 += 1, Call::Step(_) => counts.2 += 1 } } }
        fields.extend(extra);
        fields.sort();
        fields.dedup();
        counts.0 += 1;
        if !fields.is_empty() {
            let obs = json!({"res": res, "changed_clocks_that_must_not": same_bad, "live": live, "detail": info, "freq_observable": w.freq_ok,
                             "set_frequency_calls": counts.1, "step_clock_calls": counts.2});
            let f = json!({"step": i, "fields": fields, "observed": obs.clone(), "panic": panic_msg.clone()});
            soft.push(f.clone());
            if fields.iter().all(|x| x == "out.freq0") { continue; }
            STATS.with(|s| { let mut s = s.borrow_mut(); s.0 += counts.1; s.1 += counts.2; });
            return (i + 1, Some(f), soft);
        }
    }
    STATS.with(|s| { let mut s = s.borrow_mut(); s.0 += counts.1; s.1 += counts.2; });
    (walk.len(), None, soft)
}

thread_local! { static NONTRIV: std::cell::Cell<u64> = std::cell::Cell::new(0); static NONTRIV1: std::cell::Cell<u64> = std::cell::Cell::new(0); }
thread_local! { static STEER: std::cell::RefCell<(u64, u64)> = std::cell::RefCell::new((0, 0)); }
thread_local! { static ACTIVATE: std::cell::RefCell<(u64, u64, u64)> = std::cell::RefCell::new((0, 0, 0)); static LATE: std::cell::Cell<u64> = std::cell::Cell::new(0); }
thread_local! { static STATS: std::cell::RefCell<(u64, u64)> = std::cell::RefCell::new((0, 0)); }

#[test]
fn verif_estimator() {
    let job = util::job();
    if util::s(&job, "mode") == "steer_cases" {
        return steer_cases(&job);
    }
    assert_eq!(util::s(&job, "mode"), "replay");
    let walks = util::read_ndjson(&util::s(&job, "input"));
    let mut out = util::NdjsonOut::create(&util::s(&job, "output"));
    let seed = util::i(&job, "seed") as u64;
    for wk in &walks {
        let id = wk["id"].as_u64().unwrap();
        let (steps_run, fail, fails) = run_walk(wk["walk"].as_array().unwrap(), Rng::new(seed ^ id.wrapping_mul(0x9E37_79B9)).next());
        out.put(&json!({"id": id, "steps_run": steps_run, "fail": fail, "fails": fails}));
    }
    let (sf, sc) = STATS.with(|s| *s.borrow());
    // statistics line (not a walk result): how often the mock clocks were steered
    std::fs::write(format!("{}.stats", util::s(&job, "output")), json!({"set_frequency_calls": sf, "step_clock_calls": sc, "steer_relations_evaluated": STEER.with(|x| x.borrow().0), "steer_relations_skipped_degenerate": STEER.with(|x| x.borrow().1),
        "steer_relations_nontrivial_system_clock": NONTRIV1.with(|x| x.get()), "steer_relations_nontrivial_other_clocks": NONTRIV.with(|x| x.get()),
        "activations_attempted": ACTIVATE.with(|x| x.borrow().0), "activations_achieved": ACTIVATE.with(|x| x.borrow().1), "activations_skipped_degenerate": ACTIVATE.with(|x| x.borrow().2),
        "clocks_added_behind_an_active_tracked_link": LATE.with(|x| x.get())}).to_string()).unwrap();
    out.finish();
}


// ------------------------------------------------------------------------------------------------------------------
// spec/SteerCases.tla: the steering decision on a confidently measured offset (first measurement of a fresh controller
// over an untracked link to a trusted external clock).  Observed: which clock call is made, the frequency set, and
// by how much the controller's own frequency estimate moves.
// ------------------------------------------------------------------------------------------------------------------
fn steer_cases(job: &Value) {
    let cases = util::read_ndjson(&util::s(job, "input"));
    let mut out = util::NdjsonOut::create(&util::s(job, "output"));
    for (n, c) in cases.iter().enumerate() {
        let offset = util::i(c, "o") as f64 * 1e-5;
        let max = util::i(c, "m") as f64 * 1e-6;
        let r = util::catch(|| -> Result<Value, AlgoError> {
            let sys = MockClock(Arc::new(Mutex::new(ClockState { now: ts(T0), drift: 0.0, steer: 0.0, max, calls: vec![] })));
            let mut cfg = third_arg(Ctl::new);
            cfg.select_offset_uncertainty_window = 3.0;
            cfg.select_link_uncertainty_window = 3.0;
            cfg.select_delay_uncertainty_window = 1.0;
            cfg.select_max_window_size = 1.0;
            cfg.minimum_agreeing_sources = 1;
            let (ctl, system) = Ctl::new(sys.clone(), 1e-8, cfg)?;
            let ctl = Arc::new(ctl);
            let external = ctl.add_external_clock()?;
            let link: Link = Ctl::create_untracked_link(ctl.clone(), external, system)?;
            link.external_data_update(Duration::from_f64_seconds(0.0), None, true)?;
            { let mut st = sys.0.lock().unwrap(); st.now = st.now + Duration::from_f64_seconds(1.0); }
            let now = sys.now().unwrap();
            let before = ctl.clock_frequency(system)?.value;
            link.measurement(Measurement { send_timestamp: now - Duration::from_f64_seconds(offset), recv_timestamp: now,
                                           uncertainty: Duration::from_f64_seconds(1e-7) }, Direction::Forward)?;
            let after = ctl.clock_frequency(system)?.value;
            let calls = sys.0.lock().unwrap().calls.clone();
            Ok(json!({"before": before, "after": after, "calls": calls.iter().map(|k| match k {
                Call::Step(x) => json!({"step": x}), Call::SetFreq(f) => json!({"freq": f}) }).collect::<Vec<_>>()}))
        });
        let mut fields: Vec<String> = vec![];
        let mut obs = json!({});
        match r {
            Err(p) => { fields.push("panic".into()); obs = json!({"panic": p}); }
            Ok(Err(e)) => { fields.push("out.res".into()); obs = json!({"error": err_name(&e)}); }
            Ok(Ok(o)) => {
                let calls = o["calls"].as_array().unwrap();
                let kind = util::s(c, "kind");
                let want = util::i(c, "applied") as f64 * 1e-9;
                if calls.len() != 1 { fields.push("out.steercalls".into()); }
                else if let Some(f) = calls[0].get("freq").and_then(|x| x.as_f64()) {
                    if kind == "step" { fields.push("out.kind".into()); }
                    if f.abs() > max { fields.push("out.fmax".into()); }
                    if (f - want).abs() > 1e-12 + 1e-9 * want.abs() { fields.push("out.applied".into()); }
                    let moved = o["after"].as_f64().unwrap() - o["before"].as_f64().unwrap();
                    if (moved - f).abs() > 1e-12 + 1e-9 * f.abs() { fields.push("out.dfreq".into()); }
                } else if kind != "step" { fields.push("out.kind".into()); }
                obs = o;
            }
        }
        out.put(&json!({"id": n, "case": c, "fields": fields, "observed": obs}));
    }
    out.finish();
}
