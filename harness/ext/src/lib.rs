// Verification harness for the statime-* crates (public API only).  One module per specification.
#![allow(dead_code)]
#[cfg(test)]
#[path = "/verif/harness/common/util.rs"]
mod util;
#[cfg(test)]
mod ptpwire;
#[cfg(test)]
mod csptp_wire;
#[cfg(test)]
mod csptp_server;
#[cfg(test)]
mod csptp_client;
#[cfg(test)]
mod estimator;
#[cfg(test)]
mod timearith;
