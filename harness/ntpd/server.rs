// verification harness (compiled into ntpd/src/daemon/server.rs under cfg(all(test, pendulum_project_ntpd_rs_verif)))
// Slice "Stats" of spec/MC_Server.tla (C21): the daemon's counter mapping ServerStats::register as a pure function.
// Every (nts, reason, response) triple enumerated by TLC is registered on a fresh ServerStats and the counters
// that moved are compared with the specification's table.
#![allow(clippy::all, dead_code)]

use super::*;
use serde_json::{Value, json};

#[path = "/verif/harness/common/util.rs"]
mod util;

fn moved(s: &ServerStats) -> Vec<String> {
    let all: [(&str, &Counter); 11] = [
        ("received", &s.received_packets),
        ("accepted", &s.accepted_packets),
        ("denied", &s.denied_packets),
        ("ignored", &s.ignored_packets),
        ("rate_limited", &s.rate_limited_packets),
        ("send_errors", &s.response_send_errors),
        ("nts_received", &s.nts_received_packets),
        ("nts_accepted", &s.nts_accepted_packets),
        ("nts_denied", &s.nts_denied_packets),
        ("nts_rate_limited", &s.nts_rate_limited_packets),
        ("nts_nak", &s.nts_nak_packets),
    ];
    let mut v = vec![];
    for (n, c) in all {
        match c.get() {
            0 => {}
            1 => v.push(n.to_string()),
            k => v.push(format!("{n}x{k}")),
        }
    }
    v.sort();
    v
}

#[test]
fn verif_server_stats() {
    let job = util::job();
    let walks = util::read_ndjson(job["input"].as_str().unwrap());
    let mut out = util::NdjsonOut::create(job["output"].as_str().unwrap());
    for w in walks {
        let mut fail = Value::Null;
        let mut run = 0;
        for (n, st) in w["walk"].as_array().unwrap().iter().enumerate() {
            let a = &st["act"];
            let reason = match a["reason"].as_str().unwrap() {
                "RateLimit" => ServerReason::RateLimit,
                "ParseError" => ServerReason::ParseError,
                "InvalidCrypto" => ServerReason::InvalidCrypto,
                "InternalError" => ServerReason::InternalError,
                _ => ServerReason::Policy,
            };
            let resp = match a["resp"].as_str().unwrap() {
                "NTSNak" => ServerResponse::NTSNak,
                "Deny" => ServerResponse::Deny,
                "Ignore" => ServerResponse::Ignore,
                _ => ServerResponse::ProvideTime,
            };
            let mut s = ServerStats::default();
            let r = util::catch(|| s.register(a["ver"].as_u64().unwrap() as u8, a["nts"].as_bool().unwrap(), reason, resp));
            run = n + 1;
            let got = moved(&s);
            let mut want: Vec<String> = st["out"]["counters"].as_array().unwrap().iter().map(|x| x.as_str().unwrap().to_string()).collect();
            want.sort();
            if r.is_err() || got != want {
                fail = json!({"step": n, "fields": if r.is_err() { vec!["panic"] } else { vec!["counters"] }, "observed": {"counters": got}, "panic": r.err()});
                break;
            }
        }
        out.put(&json!({"id": w["id"], "steps_run": run, "fail": fail}));
    }
    out.finish();
}
