// verification harness (compiled into ntpd/src/daemon/server.rs under cfg(all(test, pendulum_project_ntpd_rs_verif)))
// Slice "Stats" of spec/MC_Server.tla (C21): the daemon's counter mapping ServerStats::register as a pure function.
// Every (nts, reason, response) triple enumerated by TLC is registered on a fresh ServerStats and the counters
// that moved are compared with the specification's table.
#![allow(clippy::all, dead_code)]

use super::*;
// explicit imports: do not rely on what the parent module happens to import
#[allow(unused_imports)]
use std::sync::Arc;
#[allow(unused_imports)]
use std::time::Duration;
use serde_json::{Value, json};

#[path = "/verif/harness/common/util.rs"]
mod util;

fn moved(s: &ServerStats) -> Vec<String> {
    let all: [(&str, &Counter); 11] = [
        ("received", &s.received_packets),
        ("accepted", &s.accepted_packets),
        ("denied", &s.denied_packets),
        ("ignored", &s.ignored_packets),
        ("rate_limited", &s.rate_limited_packets),
        ("send_errors", &s.response_send_errors),
        ("nts_received", &s.nts_received_packets),
        ("nts_accepted", &s.nts_accepted_packets),
        ("nts_denied", &s.nts_denied_packets),
        ("nts_rate_limited", &s.nts_rate_limited_packets),
        ("nts_nak", &s.nts_nak_packets),
    ];
    let mut v = vec![];
    for (n, c) in all {
        match c.get() {
            0 => {}
            1 => v.push(n.to_string()),
            k => v.push(format!("{n}x{k}")),
        }
    }
    v.sort();
    v
}

#[test]
fn verif_server_stats() {
    let job = util::job();
    let walks = util::read_ndjson(job["input"].as_str().unwrap());
    let mut out = util::NdjsonOut::create(job["output"].as_str().unwrap());
    for w in walks {
        let mut fail = Value::Null;
        let mut run = 0;
        for (n, st) in w["walk"].as_array().unwrap().iter().enumerate() {
            let a = &st["act"];
            let reason = match a["reason"].as_str().unwrap() {
                "RateLimit" => ServerReason::RateLimit,
                "ParseError" => ServerReason::ParseError,
                "InvalidCrypto" => ServerReason::InvalidCrypto,
                "InternalError" => ServerReason::InternalError,
                _ => ServerReason::Policy,
            };
            let resp = match a["resp"].as_str().unwrap() {
                "NTSNak" => ServerResponse::NTSNak,
                "Deny" => ServerResponse::Deny,
                "Ignore" => ServerResponse::Ignore,
                _ => ServerResponse::ProvideTime,
            };
            let mut s = ServerStats::default();
            let r = util::catch(|| s.register(a["ver"].as_u64().unwrap() as u8, a["nts"].as_bool().unwrap(), reason, resp));
            run = n + 1;
            let got = moved(&s);
            let mut want: Vec<String> = st["out"]["counters"].as_array().unwrap().iter().map(|x| x.as_str().unwrap().to_string()).collect();
            want.sort();
            if r.is_err() || got != want {
                fail = json!({"step": n, "fields": if r.is_err() { vec!["panic"] } else { vec!["counters"] }, "observed": {"counters": got}, "panic": r.err()});
                break;
            }
        }
        out.put(&json!({"id": w["id"], "steps_run": run, "fail": fail}));
    }
    out.finish();
}

// ------------------------------------------------------------------------------------------------
// C16 end to end: the real ServerTask on a loopback UDP socket. The datagrams (concretised by the ntp-proto
// harness, cookies issued by the key set persisted next to them) are sent one by one, each followed by a plain
// 48-byte sentinel poll; the server handles datagrams in order, so once the sentinel's answer has arrived the
// answer to the datagram before it (if any) has arrived too. Reported: length of the answer (0 = none).
// ------------------------------------------------------------------------------------------------
#[derive(Clone)]
struct Clk;
impl NtpClock for Clk {
    type Error = std::io::Error;
    fn now(&self) -> Result<ntp_proto::NtpTimestamp, Self::Error> {
        Ok(ntp_proto::NtpTimestamp::from_seconds_nanos_since_ntp_era(3_800_000_000, 0))
    }
    fn set_frequency(&self, _: f64) -> Result<ntp_proto::NtpTimestamp, Self::Error> {
        panic!("not for a server")
    }
    fn get_frequency(&self) -> Result<f64, Self::Error> {
        Ok(0.0)
    }
    fn step_clock(&self, _: ntp_proto::NtpDuration) -> Result<ntp_proto::NtpTimestamp, Self::Error> {
        panic!("not for a server")
    }
    fn disable_ntp_algorithm(&self) -> Result<(), Self::Error> {
        panic!("not for a server")
    }
    fn error_estimate_update(&self, _: ntp_proto::NtpDuration, _: ntp_proto::NtpDuration) -> Result<(), Self::Error> {
        panic!("not for a server")
    }
    fn status_update(&self, _: ntp_proto::NtpLeapIndicator) -> Result<(), Self::Error> {
        panic!("not for a server")
    }
}

fn unhex(s: &str) -> Vec<u8> {
    (0..s.len() / 2).map(|i| u8::from_str_radix(&s[2 * i..2 * i + 2], 16).unwrap()).collect()
}

#[test]
fn verif_server_udp() {
    use std::net::SocketAddr;
    use timestamped_socket::socket::GeneralTimestampMode;
    let job = util::job();
    let rows = util::read_ndjson(job["input"].as_str().unwrap());
    let mut out = util::NdjsonOut::create(job["output"].as_str().unwrap());
    let mut file = std::fs::File::open(job["keyset"].as_str().unwrap()).expect("key set file");
    let (provider, _) = ntp_proto::KeySetProvider::load(&mut file, 2).expect("load key set");
    let rt = tokio::runtime::Builder::new_current_thread().enable_all().build().unwrap();
    rt.block_on(async {
        let mut servers: std::collections::HashMap<String, (SocketAddr, JoinHandle<()>)> = Default::default();
        let mut sentinel_no: u64 = 0;
        for r in rows {
            let denied = r["denied"].as_bool().unwrap();
            let rn = r["requireNts"].as_str().unwrap().to_string();
            let key = format!("{denied}/{rn}");
            if !servers.contains_key(&key) {
                let port = crate::test::alloc_port();
                let listen = SocketAddr::new("127.0.0.1".parse().unwrap(), port);
                let mut config = ServerConfig::from(listen);
                config.accept_ntp_versions = vec![ntp_proto::NtpVersion::V3, ntp_proto::NtpVersion::V4, ntp_proto::NtpVersion::V5];
                config.denylist.action = ntp_proto::FilterAction::Deny;
                if denied {
                    config.denylist.filter = vec!["127.0.0.0/8".parse().unwrap()];
                }
                config.require_nts = match rn.as_str() {
                    "none" => None,
                    "deny" => Some(ntp_proto::FilterAction::Deny),
                    _ => Some(ntp_proto::FilterAction::Ignore),
                };
                let (_tx, keyset) = tokio::sync::watch::channel(provider.get());
                std::mem::forget(_tx);
                let server = Server::new_internal(config.clone().into(), Clk, Arc::default(), keyset.borrow().clone());
                let join = ServerTask::spawn(server, config, ServerStats::default(), keyset, Duration::from_secs(0));
                tokio::time::sleep(Duration::from_millis(50)).await;
                servers.insert(key.clone(), (listen, join));
            }
            let (listen, _) = &servers[&key];
            let sock = open_ip(SocketAddr::new("127.0.0.1".parse().unwrap(), crate::test::alloc_port()), GeneralTimestampMode::SoftwareRecv, false).unwrap();
            let mut sock = sock.connect(*listen).unwrap();
            let msg = unhex(r["hex"].as_str().unwrap());
            sock.send(&msg).await.unwrap();
            sentinel_no += 1;
            let mut sentinel = vec![0u8; 48];
            sentinel[0] = (4 << 3) | 3;
            sentinel[40..48].copy_from_slice(&(0xA5A5_0000_0000_0000u64 | sentinel_no).to_be_bytes());
            sock.send(&sentinel).await.unwrap();
            let mut answer_len: i64 = 0;
            let mut answers = 0;
            let mut buf = [0u8; 4096];
            loop {
                let got = tokio::time::timeout(Duration::from_secs(5), sock.recv(&mut buf)).await;
                let n = match got {
                    Ok(Ok(r)) => r.bytes_read,
                    _ => {
                        answer_len = -1; // the sentinel was not answered: broken set-up, reported as such
                        break;
                    }
                };
                if n == 48 && buf[24..32] == sentinel[40..48] {
                    break;
                }
                answers += 1;
                answer_len = n as i64;
            }
            out.put(&json!({"id": r["id"], "len": answer_len, "answers": answers, "reqlen": msg.len()}));
        }
        for (_, (_, j)) in servers {
            j.abort();
        }
    });
    out.finish();
}
