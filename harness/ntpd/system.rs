// verification harness (compiled into ntpd/src/daemon/system.rs under cfg(all(test, pendulum_project_ntpd_rs_verif)))
//
// Harness for spec/SysTask.tla (the system task's source life cycle; stage "SysTask" of C36).
// A REAL `SystemTask` is built with `SystemTask::new` around a scripted clock controller (`Ctl`: records add_source /
// add_one_way_source, reports the scripted list of used sources and a time snapshot carrying a per-step marker) and a
// fixed clock, scripted spawners are registered with the real `add_spawner` (so the real `spawner_task` forwards the
// SystemEvents to the recording handlers; `is_complete()` is always true, the spawners never act on their own), and
// `SystemTask::run` runs as a task on a current-thread tokio runtime with the clock paused.  Actions of the model:
//   {"t":"Create","sp":n,"kind":"Ntp"|"Sock"}  SpawnEvent(Create) with spawner n's id on the real `spawn_tx`
//        (sp = NSp+1: a SpawnerId the system has never seen).  NTP sources point to 127.0.0.<model id>:<unused port>,
//        plain NTPv4, poll interval 2^17 s (the real SourceTask polls once, at once, and then stays silent);
//        SOCK sources bind /tmp/verif_systask_<pid>_<n>.sock.
//   {"t":"Msg","k":kind,"id":i}                MsgForSystem::kind(ClockId of i) on the real `msg_for_system_tx`
//        (i never created: a ClockId the system has never seen)
//   {"t":"Exit","id":i}                        what the source task does after sending: removes its snapshot entry
//        (done by the driver, which also sent the message in the task's name; the real task stays parked)
//   {"t":"Use","u":[i..]}                      the scripted controller reports these sources as used from now on
//   {"t":"Tick"}                               the paused clock advances by 1000 ms: one iteration of the timer loop
// After every action the driver yields `settle` times (it never blocks, so the paused clock never auto-advances) and
// projects the real state: sources table (ClockId -> spawner, SourceType), every event every scripted spawner has
// received so far, what the controller was told, keys of source_snapshots, reference of the published SystemSnapshot,
// whether the system task has panicked.  A panic of the system task is data.
#![allow(clippy::all, dead_code)]

use super::*;
// explicit imports: do not rely on what the parent module happens to import
#[allow(unused_imports)]
use std::sync::Arc;
#[allow(unused_imports)]
use std::sync::Mutex;
#[allow(unused_imports)]
use std::sync::RwLock;
#[allow(unused_imports)]
use std::collections::HashMap;
#[allow(unused_imports)]
use std::net::IpAddr;
#[allow(unused_imports)]
use tokio::sync::mpsc;
use crate::daemon::config::NormalizedAddress;
use crate::daemon::spawn::{NtpSourceCreateParameters, SockSourceCreateParameters, SourceRemovedEvent};
use ntp_proto::{
    KeySetProvider, Measurement, NtpDuration, NtpLeapIndicator, NtpTimestamp, ObservableSourceTimedata, PollInterval,
    PollIntervalLimits, ProtocolVersion, ReferenceId, SourceController, TimeSnapshot,
};
use serde_json::{Value, json};
use std::net::{Ipv4Addr, SocketAddr};
use std::path::PathBuf;
use std::time::Duration;

#[path = "/verif/harness/common/util.rs"]
mod util;

// ---------------------------------------------------------------------------------------------------------------
// scripted environment
// ---------------------------------------------------------------------------------------------------------------
#[derive(Default)]
struct Shared {
    added: Vec<(ClockId, &'static str)>, // add_source -> "Ntp", add_one_way_source -> "Sock"
    used: Vec<ClockId>,
    marker: f64,
    events: Vec<(usize, &'static str, ClockId, String)>, // (spawner index from 1, "registered"|"removed", id, reason)
    try_spawn_calls: usize,
}

#[derive(Clone)]
struct Clk {
    sh: Arc<Mutex<Shared>>,
}

impl NtpClock for Clk {
    type Error = std::io::Error;
    fn now(&self) -> Result<NtpTimestamp, Self::Error> {
        Ok(NtpTimestamp::from_seconds_nanos_since_ntp_era(3_800_000_000, 0))
    }
    fn set_frequency(&self, _: f64) -> Result<NtpTimestamp, Self::Error> {
        self.now()
    }
    fn get_frequency(&self) -> Result<f64, Self::Error> {
        Ok(0.0)
    }
    fn step_clock(&self, _: NtpDuration) -> Result<NtpTimestamp, Self::Error> {
        self.now()
    }
    fn disable_ntp_algorithm(&self) -> Result<(), Self::Error> {
        Ok(())
    }
    fn error_estimate_update(&self, _: NtpDuration, _: NtpDuration) -> Result<(), Self::Error> {
        Ok(())
    }
    fn status_update(&self, _: NtpLeapIndicator) -> Result<(), Self::Error> {
        Ok(())
    }
}

struct SrcCtl;

impl SourceController for SrcCtl {
    fn handle_measurement(&mut self, _: Measurement) {}
    fn set_usable(&mut self, _: bool) {}
    fn desired_poll_interval(&self) -> PollInterval {
        PollInterval::from_byte(17)
    }
    fn observe(&self) -> ObservableSourceTimedata {
        ObservableSourceTimedata::default()
    }
}

struct Ctl {
    sh: Arc<Mutex<Shared>>,
}

impl TimeSyncController for Ctl {
    type Clock = Clk;
    type AlgorithmConfig = ();
    type NtpSourceController = SrcCtl;
    type OneWaySourceController = SrcCtl;

    fn new(clock: Clk, _: SynchronizationConfig, _: ()) -> Result<Self, std::io::Error> {
        Ok(Ctl { sh: clock.sh.clone() })
    }
    fn take_control(&self) -> Result<(), std::io::Error> {
        Ok(())
    }
    fn add_source(&self, id: ClockId, _: SourceConfig) -> SrcCtl {
        self.sh.lock().unwrap().added.push((id, "Ntp"));
        SrcCtl
    }
    fn add_one_way_source(&self, id: ClockId, _: SourceConfig, _: f64, _: f64, _: Option<f64>) -> SrcCtl {
        self.sh.lock().unwrap().added.push((id, "Sock"));
        SrcCtl
    }
    fn synchronization_state(&self) -> (TimeSnapshot, Vec<ClockId>) {
        let s = self.sh.lock().unwrap();
        let mut ts = TimeSnapshot::default();
        ts.root_delay = NtpDuration::from_seconds(s.marker);
        (ts, s.used.clone())
    }
    async fn run(&self) {
        std::future::pending::<()>().await
    }
}

#[derive(Debug)]
struct ScriptError;
impl std::fmt::Display for ScriptError {
    fn fmt(&self, f: &mut std::fmt::Formatter<'_>) -> std::fmt::Result {
        f.write_str("scripted spawner error")
    }
}
impl std::error::Error for ScriptError {}

struct Scripted {
    id: SpawnerId,
    idx: usize,
    sh: Arc<Mutex<Shared>>,
}

impl Spawner for Scripted {
    type Error = ScriptError;

    async fn try_spawn(&mut self, _: &mpsc::Sender<SpawnEvent>) -> Result<(), ScriptError> {
        self.sh.lock().unwrap().try_spawn_calls += 1;
        Ok(())
    }
    fn is_complete(&self) -> bool {
        true
    }
    async fn handle_source_removed(&mut self, ev: SourceRemovedEvent) -> Result<(), ScriptError> {
        self.sh.lock().unwrap().events.push((self.idx, "removed", ev.id, format!("{:?}", ev.reason)));
        Ok(())
    }
    async fn handle_registered(&mut self, ev: SourceCreateParameters) -> Result<(), ScriptError> {
        self.sh.lock().unwrap().events.push((self.idx, "registered", ev.get_id(), "-".to_string()));
        Ok(())
    }
    fn get_id(&self) -> SpawnerId {
        self.id
    }
    fn get_addr_description(&self) -> String {
        format!("scripted {}", self.idx)
    }
    fn get_description(&self) -> &'static str {
        "scripted"
    }
}

// ---------------------------------------------------------------------------------------------------------------
// system under test
// ---------------------------------------------------------------------------------------------------------------
struct Sut {
    sh: Arc<Mutex<Shared>>,
    spawn_tx: mpsc::Sender<SpawnEvent>,
    msg_tx: mpsc::Sender<MsgForSystem>,
    sources: Arc<Mutex<HashMap<ClockId, SourceState>>>,
    snaps: Arc<RwLock<HashMap<ClockId, ObservableSourceState>>>,
    sys_rx: tokio::sync::watch::Receiver<SystemSnapshot>,
    handle: Option<JoinHandle<std::io::Result<()>>>,
    died: Option<String>,
    spawners: Vec<SpawnerId>, // index 0..nsp-1 registered, index nsp = the ghost
    nsp: usize,
    max_id: usize,
    ids: Vec<ClockId>, // model id k -> ids[k-1]
    phantom: HashMap<usize, ClockId>,
    seen_events: usize,
    step: u64,
    settle: usize,
    socks: Vec<PathBuf>,
    _keep: (tokio::sync::watch::Sender<Arc<KeySet>>, tokio::sync::watch::Sender<Arc<[IpAddr]>>),
}

fn unused_port(ip: Ipv4Addr) -> u16 {
    let s = std::net::UdpSocket::bind(SocketAddr::new(IpAddr::V4(ip), 0)).expect("harness: cannot bind a probe socket");
    s.local_addr().unwrap().port()
}

async fn yields(n: usize) {
    for _ in 0..n {
        tokio::task::yield_now().await;
    }
}

impl Sut {
    /// must be called inside the runtime
    async fn new(cfg: &Value) -> Sut {
        let nsp = cfg["NSp"].as_u64().unwrap() as usize;
        let max_id = cfg["MaxId"].as_u64().unwrap() as usize;
        let settle = cfg["settle"].as_u64().unwrap_or(40) as usize;
        let sh = Arc::new(Mutex::new(Shared::default()));
        let (ks_tx, ks_rx) = tokio::sync::watch::channel(KeySetProvider::new(1).get());
        let no_ips: Arc<[IpAddr]> = Arc::from(Vec::<IpAddr>::new());
        let (ip_tx, ip_rx) = tokio::sync::watch::channel(no_ips);
        let (mut system, channels) = SystemTask::<Clk, Ctl>::new(
            Clk { sh: sh.clone() },
            None,
            TimestampMode::Software,
            SynchronizationConfig::default(),
            (),
            &ks_rx,
            ip_rx,
            true,
            CsptpConfig::default(),
        );
        let mut spawners = vec![];
        for idx in 1..=nsp {
            let id = SpawnerId::new();
            let got = system.add_spawner(Scripted { id, idx, sh: sh.clone() });
            assert!(got == id, "harness: add_spawner returned another id");
            spawners.push(id);
        }
        spawners.push(SpawnerId::new()); // the ghost: never registered
        let spawn_tx = system.spawn_tx.clone();
        let msg_tx = system.msg_for_system_tx.clone();
        let sources = system.sources.clone();
        let handle = tokio::spawn(async move { system.run().await });
        let mut sut = Sut {
            sh,
            spawn_tx,
            msg_tx,
            sources,
            snaps: channels.source_snapshots,
            sys_rx: channels.system_snapshot_receiver,
            handle: Some(handle),
            died: None,
            spawners,
            nsp,
            max_id,
            ids: vec![],
            phantom: HashMap::new(),
            seen_events: 0,
            step: 0,
            settle,
            socks: vec![],
            _keep: (ks_tx, ip_tx),
        };
        // the timer loop's first iteration runs at once
        yields(sut.settle).await;
        let _ = sut.sys_rx.borrow_and_update();
        sut
    }

    fn real_id(&mut self, k: usize) -> ClockId {
        if k >= 1 && k <= self.ids.len() {
            self.ids[k - 1]
        } else {
            *self.phantom.entry(k).or_insert_with(ClockId::new)
        }
    }

    fn model_id(&self, id: ClockId) -> Option<usize> {
        self.ids.iter().position(|x| *x == id).map(|p| p + 1)
    }

    async fn apply(&mut self, act: &Value) -> (Value, Value, Option<String>) {
        self.step += 1;
        let pre_owner: HashMap<ClockId, SpawnerId> = {
            let t = self.sources.lock().unwrap_or_else(|e| e.into_inner());
            t.iter().map(|(k, v)| (*k, v.spawner_id)).collect()
        };
        let mut msg_target = None;
        match act["t"].as_str().unwrap() {
            "Create" => {
                let sp = act["sp"].as_u64().unwrap() as usize;
                let spawner = self.spawners[sp - 1];
                let id = ClockId::new();
                self.ids.push(id);
                let k = self.ids.len();
                let limits = PollIntervalLimits { min: PollInterval::from_byte(17), max: PollInterval::from_byte(17) };
                let config = SourceConfig { poll_interval_limits: limits, initial_poll_interval: PollInterval::from_byte(17) };
                let params = match act["kind"].as_str().unwrap() {
                    "Ntp" => {
                        let ip = Ipv4Addr::new(127, 0, 0, k as u8);
                        let addr = SocketAddr::new(IpAddr::V4(ip), unused_port(ip));
                        SourceCreateParameters::Ntp(NtpSourceCreateParameters {
                            id,
                            addr,
                            normalized_addr: NormalizedAddress::with_hardcoded_dns("source.verif.test", addr.port(), vec![addr]),
                            protocol_version: ProtocolVersion::V4,
                            config,
                            nts: None,
                        })
                    }
                    "Sock" => {
                        let path = PathBuf::from(format!("/tmp/verif_systask_{}_{}.sock", std::process::id(), k));
                        self.socks.push(path.clone());
                        SourceCreateParameters::Sock(SockSourceCreateParameters { id, path, config, precision: 1e-3, accuracy: 1e-3 })
                    }
                    other => panic!("harness: unknown source kind {other}"),
                };
                self.spawn_tx.try_send(SpawnEvent::new(spawner, SpawnAction::Create(params))).expect("harness: spawn channel full or closed");
            }
            "Msg" => {
                let id = self.real_id(act["id"].as_u64().unwrap() as usize);
                msg_target = Some(id);
                let msg = match act["k"].as_str().unwrap() {
                    "NetworkIssue" => MsgForSystem::NetworkIssue(id),
                    "Unreachable" => MsgForSystem::Unreachable(id),
                    "MustDemobilize" => MsgForSystem::MustDemobilize(id),
                    other => panic!("harness: unknown message kind {other}"),
                };
                self.msg_tx.try_send(msg).expect("harness: message channel full or closed");
            }
            "Exit" => {
                let id = self.real_id(act["id"].as_u64().unwrap() as usize);
                self.snaps.write().unwrap().remove(&id);
            }
            "Use" => {
                let u: Vec<ClockId> = act["u"].as_array().unwrap().iter().map(|x| x.as_u64().unwrap() as usize).collect::<Vec<_>>()
                    .into_iter().map(|k| self.real_id(k)).collect();
                self.sh.lock().unwrap().used = u;
            }
            "Tick" => {
                self.sh.lock().unwrap().marker = self.step as f64;
                tokio::time::advance(Duration::from_millis(1000)).await;
            }
            other => panic!("harness: unknown action {other}"),
        }
        yields(self.settle).await;
        self.observe(act, msg_target, &pre_owner).await
    }

    async fn observe(&mut self, act: &Value, msg_target: Option<ClockId>, pre_owner: &HashMap<ClockId, SpawnerId>) -> (Value, Value, Option<String>) {
        let mut extra: Vec<String> = vec![];
        // has the system task ended?
        if self.handle.as_ref().map(|h| h.is_finished()).unwrap_or(false) {
            let h = self.handle.take().unwrap();
            self.died = Some(match h.await {
                Ok(r) => format!("system task returned {r:?}"),
                Err(e) if e.is_panic() => {
                    let p = e.into_panic();
                    let m = p.downcast_ref::<&str>().map(|s| s.to_string()).or_else(|| p.downcast_ref::<String>().cloned());
                    format!("panic: {}", m.unwrap_or_else(|| "<non-string>".to_string()))
                }
                Err(e) => format!("system task cancelled: {e}"),
            });
        }
        // the table
        let n = self.max_id;
        let mut owner = vec![0i64; n];
        let mut kind = vec!["-".to_string(); n];
        {
            let t = self.sources.lock().unwrap_or_else(|e| e.into_inner());
            for (id, state) in t.iter() {
                if state.source_id != *id {
                    extra.push(format!("table entry {id:?} holds source id {:?}", state.source_id));
                }
                match self.model_id(*id) {
                    Some(k) if k <= n => {
                        owner[k - 1] = self.spawners.iter().position(|s| *s == state.spawner_id).map(|p| p as i64 + 1).unwrap_or(-1);
                        kind[k - 1] = format!("{:?}", state.stype);
                    }
                    _ => extra.push(format!("table holds an unknown id {id:?}")),
                }
            }
        }
        // events, what the controller was told
        let mut reg = vec![0i64; n];
        let mut rem: Vec<Value> = vec![json!({"to": 0, "reason": "-"}); n];
        let mut ctl = vec!["-".to_string(); n];
        let mut evs: Vec<(i64, String, i64, String)> = vec![];
        let mut reasons: Vec<String> = vec![];
        {
            let s = self.sh.lock().unwrap();
            for (i, (to, e, id, reason)) in s.events.iter().enumerate() {
                let k = self.model_id(*id);
                if i >= self.seen_events {
                    evs.push((*to as i64, e.to_string(), k.map(|k| k as i64).unwrap_or(-1), reason.clone()));
                    if *e == "removed" && Some(*id) == msg_target && pre_owner.get(id) == self.spawners.get(*to - 1) {
                        reasons.push(reason.clone());
                    }
                }
                match k {
                    Some(k) if k <= n && *e == "registered" => {
                        if reg[k - 1] != 0 {
                            extra.push(format!("source {k} announced more than once"));
                        }
                        reg[k - 1] = *to as i64;
                    }
                    Some(k) if k <= n => {
                        if rem[k - 1]["to"] != json!(0) {
                            extra.push(format!("more than one removed event for source {k}"));
                        }
                        rem[k - 1] = json!({"to": to, "reason": reason});
                    }
                    _ => extra.push(format!("event {e} for an unknown id {id:?}")),
                }
            }
            self.seen_events = s.events.len();
            for (id, how) in s.added.iter() {
                match self.model_id(*id) {
                    Some(k) if k <= n => {
                        if ctl[k - 1] != "-" {
                            extra.push(format!("controller told twice about source {k}"));
                        }
                        ctl[k - 1] = how.to_string();
                    }
                    _ => extra.push(format!("controller told about an unknown id {id:?}")),
                }
            }
            if s.try_spawn_calls > 0 {
                extra.push("try_spawn called on a complete spawner".to_string());
            }
        }
        evs.sort();
        // the observer's source snapshots
        let mut snaps: Vec<i64> = vec![];
        for id in self.snaps.read().unwrap().keys() {
            match self.model_id(*id) {
                Some(k) => snaps.push(k as i64),
                None => extra.push(format!("source_snapshots holds an unknown id {id:?}")),
            }
        }
        snaps.sort();
        // the published system snapshot
        let changed = self.sys_rx.has_changed().unwrap_or(false);
        let snap = *self.sys_rx.borrow_and_update();
        let refid = snap.ntp_snapshot.reference_id;
        let stratum = snap.ntp_snapshot.stratum;
        let mut publ = json!({"k": "?", "id": -1, "stratum": stratum});
        if refid == ReferenceId::NONE {
            publ = json!({"k": "none", "id": 0});
            if stratum != 16 {
                extra.push(format!("no reference but stratum {stratum}"));
            }
        } else if refid == ReferenceId::SOCK {
            publ = json!({"k": "Sock", "id": 0});
            if stratum != 1 {
                extra.push(format!("SOCK reference but stratum {stratum}"));
            }
        } else {
            for k in 1..=self.ids.len() {
                if refid == ReferenceId::from_ip(IpAddr::V4(Ipv4Addr::new(127, 0, 0, k as u8))) {
                    publ = json!({"k": "Ntp", "id": k});
                }
            }
        }
        let mut fresh = json!(changed);
        if changed && act["t"] == "Tick" && snap.time_snapshot.root_delay != NtpDuration::from_seconds(self.step as f64) {
            fresh = json!("stale time snapshot");
        }
        let st = json!({"owner": owner, "kind": kind, "ctl": ctl, "snaps": snaps, "pub": publ, "reg": reg, "rem": rem,
                        "dead": self.died.is_some(), "extra": extra});
        let evs: Vec<Value> = evs.into_iter().map(|(to, e, id, reason)| json!({"to": to, "e": e, "id": id, "reason": reason})).collect();
        let out = json!({"evs": evs, "fresh": fresh, "reasons": reasons, "panic": self.died.is_some()});
        (st, out, self.died.clone())
    }
}

fn compare(exp_post: &Value, exp_out: &Value, st: &Value, out: &Value) -> Vec<String> {
    let mut d = vec![];
    for k in ["owner", "kind", "ctl", "snaps", "pub", "reg", "rem"] {
        if exp_post[k] != st[k] {
            d.push(k.to_string());
        }
    }
    if st["extra"].as_array().map(|a| !a.is_empty()).unwrap_or(true) {
        d.push("extra".to_string());
    }
    if exp_post["dead"] != st["dead"] || exp_out["panic"] != out["panic"] {
        d.push("panic".to_string());
    }
    for k in ["evs", "fresh"] {
        if exp_out[k] != out[k] {
            d.push(format!("out.{k}"));
        }
    }
    // the reason delivered to the owning spawner: compared when (and only when) such an event was delivered
    if out["reasons"].as_array().unwrap().iter().any(|r| *r != exp_out["reason"]) {
        d.push("out.reason".to_string());
    }
    d
}

fn replay(job: &Value) {
    let _ = util::catch(|| ()); // installs the quiet panic hook
    let walks = util::read_ndjson(job["input"].as_str().unwrap());
    let mut outp = util::NdjsonOut::create(job["output"].as_str().unwrap());
    for w in walks {
        let rt = tokio::runtime::Builder::new_current_thread().enable_all().start_paused(true).build().unwrap();
        let steps = w["walk"].as_array().unwrap().clone();
        let cfg = job["cfg"].clone();
        let (run, fail, socks) = rt.block_on(async move {
            let mut sut = Sut::new(&cfg).await;
            let mut fail = Value::Null;
            let mut run = 0;
            for (n, st) in steps.iter().enumerate() {
                let (obs_st, obs_out, panic) = sut.apply(&st["act"]).await;
                run = n + 1;
                let d = compare(&st["post"], &st["out"], &obs_st, &obs_out);
                if !d.is_empty() {
                    fail = json!({"step": n, "fields": d, "observed": {"st": obs_st, "out": obs_out}, "panic": panic});
                    break;
                }
            }
            (run, fail, sut.socks.clone())
        });
        drop(rt);
        for p in socks {
            let _ = std::fs::remove_file(p);
        }
        outp.put(&json!({"id": w["id"], "steps_run": run, "fail": fail}));
    }
    outp.finish();
}

#[test]
fn verif_systask() {
    let job = util::job();
    match job["mode"].as_str().unwrap() {
        "replay" => replay(&job),
        m => panic!("unknown mode {m}"),
    }
}
