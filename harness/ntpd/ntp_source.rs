// verification harness (compiled into ntpd/src/daemon/ntp_source.rs under cfg(all(test, pendulum_project_ntpd_rs_verif)))
