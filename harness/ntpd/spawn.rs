// verification harness (compiled into ntpd/src/daemon/spawn/mod.rs under cfg(all(test, pendulum_project_ntpd_rs_verif)))
//
// Harness for spec/Spawner.tla, part Pacer (C36): runs the real `spawner_task` around a scripted `Spawner` on tokio's
// paused clock and drives it with the model's actions
//   {"t":"Start"}                 spawn the task
//   {"t":"Tick"}                  one tick (job.tick_ms of virtual time) passes
//   {"t":"Event","k":kind}        the system sends SourceRegistered | SourceRemoved | Idle
//   {"t":"Script","d":n,"c":b}    the next try_spawn takes n ticks and leaves the spawner complete (b) or not
// recording the virtual instants at which try_spawn is entered and left.  After every action the driver lets the task
// run until it blocks (the model's convention: at one instant the task acts first, then the environment), then
// observes: is_complete(), remaining ticks of a running try_spawn, events waiting in the channel, ticks since the
// last attempt ended, and whether an attempt started / ended during this step (with the gap since the previous end).
//   * mode "replay": compares with the specification after every step of TLC-generated walks;
//   * mode "record": seeded random sessions (finer time unit, longer tries) logged as ndjson for Trace_SpawnerPacer.
#![allow(clippy::all, dead_code)]

use super::*;
// explicit imports: do not rely on what the parent module happens to import
#[allow(unused_imports)]
use std::path::PathBuf;
#[allow(unused_imports)]
use tokio::time::Instant;
#[allow(unused_imports)]
use tokio::sync::mpsc;
use ntp_proto::SourceConfig as PSourceConfig;
use serde_json::{Value, json};
use std::sync::{Arc, Mutex};
use std::time::Duration;

#[path = "/verif/harness/common/util.rs"]
mod util;
use util::Rng;

#[derive(Default)]
struct Shared {
    complete: bool,
    next_d: u64,
    next_c: bool,
    starts: Vec<u64>, // virtual ms since the task was started
    ends: Vec<u64>,
    busy_until: Option<u64>,
    calls_while_complete: u64,
}

#[derive(Debug)]
struct ScriptError;
impl std::fmt::Display for ScriptError {
    fn fmt(&self, f: &mut std::fmt::Formatter<'_>) -> std::fmt::Result {
        f.write_str("scripted spawner error")
    }
}
impl std::error::Error for ScriptError {}

struct Scripted {
    sh: Arc<Mutex<Shared>>,
    id: SpawnerId,
    t0: Instant,
    tick: Duration,
}

impl Scripted {
    fn now_ms(&self) -> u64 {
        self.t0.elapsed().as_millis() as u64
    }
}

impl Spawner for Scripted {
    type Error = ScriptError;

    async fn try_spawn(&mut self, _action_tx: &mpsc::Sender<SpawnEvent>) -> Result<(), ScriptError> {
        let now = self.now_ms();
        let (d, c) = {
            let mut s = self.sh.lock().unwrap();
            if s.complete {
                s.calls_while_complete += 1;
            }
            s.starts.push(now);
            s.busy_until = Some(now + s.next_d * self.tick.as_millis() as u64);
            (s.next_d, s.next_c)
        };
        if d > 0 {
            tokio::time::sleep(self.tick * d as u32).await;
        }
        let now = self.now_ms();
        let mut s = self.sh.lock().unwrap();
        s.complete = c;
        s.ends.push(now);
        s.busy_until = None;
        Ok(())
    }

    fn is_complete(&self) -> bool {
        self.sh.lock().unwrap().complete
    }

    async fn handle_source_removed(&mut self, _event: SourceRemovedEvent) -> Result<(), ScriptError> {
        self.sh.lock().unwrap().complete = false;
        Ok(())
    }

    fn get_id(&self) -> SpawnerId {
        self.id
    }
    fn get_addr_description(&self) -> String {
        "scripted".to_string()
    }
    fn get_description(&self) -> &'static str {
        "scripted"
    }
}

async fn settle() {
    for _ in 0..12 {
        tokio::task::yield_now().await;
    }
}

struct Sut {
    sh: Arc<Mutex<Shared>>,
    tick: Duration,
    w_ticks: u64,
    t0: Instant,
    notify_tx: Option<mpsc::Sender<SystemEvent>>,
    action_rx: Option<mpsc::Receiver<SpawnEvent>>,
    handle: Option<tokio::task::JoinHandle<Result<(), ScriptError>>>,
    seen_starts: usize,
    seen_ends: usize,
}

impl Sut {
    fn new(tick_ms: u64) -> Sut {
        // "one second" as stated by the property, deliberately NOT taken from the code's NETWORK_WAIT_PERIOD
        const PERIOD_MS: u64 = 1000;
        let w_ticks = PERIOD_MS / tick_ms;
        assert_eq!(w_ticks * tick_ms, PERIOD_MS, "tick must divide the network wait period");
        Sut {
            sh: Arc::new(Mutex::new(Shared::default())),
            tick: Duration::from_millis(tick_ms),
            w_ticks,
            t0: Instant::now(),
            notify_tx: None,
            action_rx: None,
            handle: None,
            seen_starts: 0,
            seen_ends: 0,
        }
    }

    fn now_ms(&self) -> u64 {
        self.t0.elapsed().as_millis() as u64
    }

    /// (state projection, output, panic)
    async fn apply(&mut self, act: &Value) -> (Value, Value, Option<String>) {
        match act["t"].as_str().unwrap() {
            "Start" => {
                let (action_tx, action_rx) = mpsc::channel(32);
                let (notify_tx, notify_rx) = mpsc::channel(32);
                self.t0 = Instant::now();
                let sp = Scripted { sh: self.sh.clone(), id: SpawnerId::new(), t0: self.t0, tick: self.tick };
                self.handle = Some(tokio::spawn(spawner_task(sp, action_tx, notify_rx)));
                self.notify_tx = Some(notify_tx);
                self.action_rx = Some(action_rx);
            }
            "Tick" => {
                tokio::time::sleep(self.tick).await;
            }
            "Event" => {
                let ev = match act["k"].as_str().unwrap() {
                    "Removed" => SystemEvent::source_removed(ClockId::new(), SourceRemovalReason::NetworkIssue),
                    "Registered" => SystemEvent::SourceRegistered(SourceCreateParameters::Sock(SockSourceCreateParameters {
                        id: ClockId::new(),
                        path: PathBuf::from("/nonexistent"),
                        config: PSourceConfig::default(),
                        precision: 1e-3,
                        accuracy: 1e-3,
                    })),
                    _ => SystemEvent::Idle,
                };
                if let Some(tx) = &self.notify_tx {
                    if tx.try_send(ev).is_err() {
                        return (json!({}), json!({}), Some("event channel full or closed".to_string()));
                    }
                }
            }
            "Script" => {
                let mut s = self.sh.lock().unwrap();
                s.next_d = act["d"].as_u64().unwrap();
                s.next_c = act["c"].as_bool().unwrap();
            }
            t => panic!("unknown action {t}"),
        }
        settle().await;
        self.observe()
    }

    fn observe(&mut self) -> (Value, Value, Option<String>) {
        let now = self.now_ms();
        let tick = self.tick.as_millis() as u64;
        let mut panic = None;
        let up = self.handle.is_some();
        if let Some(h) = &self.handle {
            if h.is_finished() {
                panic = Some("spawner task ended (panic or error)".to_string());
            }
        }
        let s = self.sh.lock().unwrap();
        if s.calls_while_complete > 0 {
            panic = Some("try_spawn called while is_complete()".to_string());
        }
        let busy = match s.busy_until {
            Some(t) if t > now => (t - now + tick - 1) / tick,
            Some(_) => 0, // must have ended by now: reported through `ended`
            None => 0,
        };
        if let Some(t) = s.busy_until {
            if t <= now {
                panic = Some("try_spawn did not return at its scripted end".to_string());
            }
        }
        let qlen = self.notify_tx.as_ref().map(|tx| tx.max_capacity() - tx.capacity()).unwrap_or(0);
        let new_starts = &s.starts[self.seen_starts..];
        let new_ends = &s.ends[self.seen_ends..];
        // gap between the start seen in this step and the end of the previous attempt, in ticks, capped at W
        let mut gap = 0;
        let mut times_ok = true;
        if let Some(&st) = new_starts.first() {
            // attempts are sequential: the previous attempt (index - 1) has ended before this one starts
            let idx = self.seen_starts;
            let prev_end = if idx == 0 { None } else { s.ends.get(idx - 1).copied() };
            gap = match prev_end {
                None if idx == 0 => self.w_ticks,
                None => 0, // previous attempt has not even ended
                Some(e) if e > st => 0,
                Some(e) => std::cmp::min((st - e) / tick, self.w_ticks), // floor: 999 ms is below the period
            };
            if st != now {
                times_ok = false; // attempts start only at the instant of the step that caused them
            }
        }
        if new_starts.len() > 1 || new_ends.len() > 1 {
            times_ok = false;
        }
        if let Some(&e) = new_ends.first() {
            if e != now {
                times_ok = false;
            }
        }
        let since_end = if busy > 0 {
            0
        } else {
            match s.ends.last() {
                None => self.w_ticks,
                Some(&e) => std::cmp::min((now - e) / tick, self.w_ticks),
            }
        };
        let st = json!({"up": up, "complete": s.complete, "busy": busy, "qlen": qlen, "sinceEnd": since_end});
        let out = json!({"started": !new_starts.is_empty(), "gap": gap, "ended": !new_ends.is_empty(), "times_ok": times_ok,
                          "start_ms": new_starts.first().map(|x| *x as i64).unwrap_or(-1), "end_ms": new_ends.first().map(|x| *x as i64).unwrap_or(-1), "now_ms": now});
        self.seen_starts = s.starts.len();
        self.seen_ends = s.ends.len();
        (st, out, panic)
    }
}

fn compare(exp_obs: &Value, exp_out: &Value, st: &Value, out: &Value, panic: &Option<String>) -> Vec<String> {
    let mut d = vec![];
    if panic.is_some() {
        d.push("panic".to_string());
        return d;
    }
    for k in ["up", "complete", "busy", "qlen", "sinceEnd"] {
        if exp_obs[k] != st[k] {
            d.push(k.to_string());
        }
    }
    for k in ["started", "gap", "ended"] {
        if exp_out[k] != out[k] {
            d.push(format!("out.{k}"));
        }
    }
    if out["times_ok"] != json!(true) {
        d.push("out.started".to_string());
    }
    d.sort();
    d.dedup();
    d
}

fn runtime() -> tokio::runtime::Runtime {
    tokio::runtime::Builder::new_current_thread().enable_all().start_paused(true).build().unwrap()
}

fn replay(job: &Value) {
    let walks = util::read_ndjson(job["input"].as_str().unwrap());
    let mut out = util::NdjsonOut::create(job["output"].as_str().unwrap());
    let tick_ms = job["cfg"]["tick_ms"].as_u64().unwrap();
    for w in walks {
        let steps = w["walk"].as_array().unwrap().clone();
        let res = util::catch(|| {
            runtime().block_on(async {
                let mut sut = Sut::new(tick_ms);
                let mut fail = Value::Null;
                let mut run = 0;
                for (n, st) in steps.iter().enumerate() {
                    let (obs_st, obs_out, panic) = sut.apply(&st["act"]).await;
                    run = n + 1;
                    let d = compare(&st["obs"], &st["out"], &obs_st, &obs_out, &panic);
                    if !d.is_empty() {
                        fail = json!({"step": n, "fields": d, "observed": {"st": obs_st, "out": obs_out}, "panic": panic});
                        break;
                    }
                }
                (run, fail)
            })
        });
        match res {
            Ok((run, fail)) => out.put(&json!({"id": w["id"], "steps_run": run, "fail": fail})),
            Err(p) => out.put(&json!({"id": w["id"], "steps_run": 1, "fail": {"step": 0, "fields": ["panic"], "observed": null, "panic": p}})),
        }
    }
    out.finish();
}

fn record(job: &Value) {
    let mut out = util::NdjsonOut::create(job["output"].as_str().unwrap());
    let seed = job["seed"].as_u64().unwrap_or(0);
    let sessions = job["sessions"].as_u64().unwrap_or(10);
    let steps = job["steps"].as_u64().unwrap_or(100);
    let tick_ms = job["cfg"]["tick_ms"].as_u64().unwrap();
    let max_d = job["cfg"]["max_d"].as_u64().unwrap();
    let qmax = job["cfg"]["qmax"].as_u64().unwrap() as usize;
    let mut rng = Rng::new(seed ^ 0xacce);
    for _ in 0..sessions {
        let events = runtime().block_on(async {
            let mut evs = vec![json!({"ev": "reset"})];
            let mut sut = Sut::new(tick_ms);
            let mut started = false;
            for _ in 0..steps {
                let r = rng.below(100);
                let act = if !started {
                    if rng.chance(1, 2) {
                        json!({"t": "Script", "d": rng.below(max_d + 1), "c": rng.chance(1, 2)})
                    } else {
                        started = true;
                        json!({"t": "Start"})
                    }
                } else if r < 55 {
                    json!({"t": "Tick"})
                } else if r < 80 {
                    let qlen = sut.notify_tx.as_ref().map(|tx| tx.max_capacity() - tx.capacity()).unwrap_or(0);
                    if qlen >= qmax {
                        json!({"t": "Tick"})
                    } else {
                        json!({"t": "Event", "k": *rng.pick(&["Removed", "Removed", "Registered", "Idle"])})
                    }
                } else {
                    let d = if rng.chance(1, 3) { 0 } else { rng.below(max_d + 1) };
                    json!({"t": "Script", "d": d, "c": rng.chance(1, 2)})
                };
                let (st, o, panic) = sut.apply(&act).await;
                evs.push(json!({"ev": "step", "act": act, "st": st, "out": o, "panic": panic.clone().unwrap_or_default()}));
                if panic.is_some() {
                    break;
                }
            }
            evs
        });
        for e in &events {
            out.put(e);
        }
    }
    out.finish();
}

#[test]
fn verif_pacer() {
    let job = util::job();
    match job["mode"].as_str().unwrap() {
        "replay" => replay(&job),
        "record" => record(&job),
        m => panic!("unknown mode {m}"),
    }
}
