// verification harness (compiled into ntpd/src/daemon/observer.rs under cfg(all(test, pendulum_project_ntpd_rs_verif)))
