// verification harness (compiled into ntpd/src/daemon/observer.rs under cfg(all(test, pendulum_project_ntpd_rs_verif)))
//
// Harness for spec/Framing.tla part 2 (C38, value fidelity): builds an ObservableState for every shape
// [nsrc, nts, dur, nsrv, ctr, flt, ts, thr], sends it through the real write_json / read_json pair over an in-memory
// stream (as the daemon and ntp-ctl / the metrics exporter do over the observation socket) and compares field by
// field: integers, strings, enums, raw floats (bitwise) and timestamps equal; durations within 1e-9 relative + 2^-32 s.
#![allow(clippy::all, dead_code)]

use super::*;
use crate::daemon::sockets::{read_json, write_json};
use ntp_proto::{NtpDuration, NtpLeapIndicator, ObservableSourceTimedata, PollInterval};
use serde_json::{Value, json};

#[path = "/verif/harness/common/util.rs"]
mod util;

fn dur(class: &str, k: usize) -> NtpDuration {
    let k = k as f64;
    match class {
        "zero" => NtpDuration::ZERO,
        "small" => NtpDuration::from_seconds(1.5e-3 * (k + 1.0)),
        "neg" => NtpDuration::from_seconds(-0.25 - 0.001 * k),
        "large" => NtpDuration::from_seconds(1.0e6 + 0.123 + k),
        "max" => NtpDuration::MAX,
        c => panic!("unknown duration class {c}"),
    }
}

fn flt(class: &str, k: usize) -> f64 {
    match class {
        "zero" => 0.0,
        "subnormal" => 5e-324,
        "ordinary" => 1.2345678901234567e-9 * (k as f64 + 1.0),
        "huge" => 1.7e308,
        "neg" => -3.5e-7 * (k as f64 + 1.0),
        c => panic!("unknown float class {c}"),
    }
}

fn ts(class: &str, k: usize) -> NtpTimestamp {
    match class {
        "zero" => NtpTimestamp::default(),
        "mid" => NtpTimestamp::from_seconds_nanos_since_ntp_era(3_900_000_000 + k as u32, 123_456_789),
        "max" => NtpTimestamp::from_seconds_nanos_since_ntp_era(u32::MAX, 999_999_999),
        c => panic!("unknown timestamp class {c}"),
    }
}

fn ctr(class: &str, k: u64) -> crate::daemon::server::Counter {
    let n: u64 = match class {
        "zero" => 0,
        "one" => 1 + k,
        "large" => (1u64 << 53) + 1 + k,
        "u64max" => u64::MAX - k,
        c => panic!("unknown counter class {c}"),
    };
    serde_json::from_value(json!(n)).unwrap()
}

fn build(s: &Value) -> ObservableState {
    let d = s["dur"].as_str().unwrap();
    let f = s["flt"].as_str().unwrap();
    let t = s["ts"].as_str().unwrap();
    let c = s["ctr"].as_str().unwrap();
    let mut system = SystemSnapshot::default();
    system.time_snapshot.precision = dur(if d == "max" { "small" } else { d }, 0);
    system.time_snapshot.root_delay = dur(d, 1);
    system.time_snapshot.root_variance_base_time = ts(t, 0);
    system.time_snapshot.root_variance_base = flt(f, 0);
    system.time_snapshot.root_variance_linear = flt(f, 1);
    system.time_snapshot.root_variance_quadratic = flt(f, 2);
    system.time_snapshot.root_variance_cubic = flt(f, 3);
    system.time_snapshot.leap_indicator = [NtpLeapIndicator::NoWarning, NtpLeapIndicator::Leap61, NtpLeapIndicator::Leap59, NtpLeapIndicator::Unknown]
        [s["nsrc"].as_u64().unwrap() as usize % 4];
    system.time_snapshot.accumulated_steps = dur(d, 2);
    system.time_snapshot.accumulated_steps_threshold = if s["thr"].as_bool().unwrap() { Some(dur(if d == "zero" { "small" } else { d }, 3)) } else { None };
    system.ntp_snapshot.stratum = 1 + s["nsrv"].as_u64().unwrap() as u8;
    let sources = (0..s["nsrc"].as_u64().unwrap() as usize)
        .map(|k| ObservableSourceState {
            timedata: ObservableSourceTimedata {
                offset: dur(d, k),
                uncertainty: dur(if d == "neg" { "small" } else { d }, k + 1),
                delay: dur(d, k + 2),
                remote_delay: dur(d, k + 3),
                remote_uncertainty: dur(if d == "neg" { "small" } else { d }, k + 4),
                last_update: ts(t, k),
            },
            unanswered_polls: [0, 7, u32::MAX][k % 3],
            poll_interval: PollInterval::from_byte([4, 10, 17][k % 3]),
            nts_cookies: match s["nts"].as_str().unwrap() {
                "none" => None,
                "zero" => Some(0),
                _ => Some(8 - k),
            },
            name: ["pool.example.org", "", "tijd \u{2603} \"quoted\"\n"][k % 3].to_string(),
            address: ["192.0.2.1:123", "[2001:db8::1]:123", "/run/chrony.sock"][k % 3].to_string(),
            id: ClockId::new(),
        })
        .collect();
    let servers = (0..s["nsrv"].as_u64().unwrap())
        .map(|k| {
            let mut stats = ServerStats::default();
            stats.received_packets = ctr(c, k);
            stats.accepted_packets = ctr(c, k + 1);
            stats.denied_packets = ctr("zero", 0);
            stats.ignored_packets = ctr(c, k + 2);
            stats.rate_limited_packets = ctr("one", k);
            stats.response_send_errors = ctr(c, k + 3);
            stats.nts_received_packets = ctr(c, k + 4);
            stats.nts_accepted_packets = ctr("one", 0);
            stats.nts_denied_packets = ctr(c, k + 5);
            stats.nts_rate_limited_packets = ctr("zero", 0);
            stats.nts_nak_packets = ctr(c, k + 6);
            ObservableServerState { address: if k == 0 { "0.0.0.0:123".parse().unwrap() } else { "[::1]:1123".parse().unwrap() }, stats }
        })
        .collect();
    ObservableState { program: ProgramData::with_dynamics(flt(if f == "neg" || f == "huge" { "ordinary" } else { f }, 5) * 1e12, ts(t, 9)), system, sources, servers }
}

fn dclose(path: &str, a: NtpDuration, b: NtpDuration, out: &mut Vec<String>) {
    let diff = (a - b).to_seconds().abs();
    let tol = 1e-9 * a.to_seconds().abs() + 1.0 / 4294967296.0;
    if !(diff <= tol * (1.0 + 1e-12)) {
        out.push(format!("{path}: {} -> {} (diff {diff:e}, tolerance {tol:e})", a.to_seconds(), b.to_seconds()));
    }
}

fn feq(path: &str, a: f64, b: f64, out: &mut Vec<String>) {
    if a.to_bits() != b.to_bits() {
        // "float-ulps=N": distance in units in the last place (same sign, finite), so that the driver can tell a
        // last-digit parsing inaccuracy from a wrong value
        let ulps = if a.is_finite() && b.is_finite() && (a < 0.0) == (b < 0.0) { (a.to_bits() as i128 - b.to_bits() as i128).abs() } else { i128::MAX };
        out.push(format!("float-ulps={ulps} {path}: {a:e} -> {b:e}"));
    }
}

fn eq<T: PartialEq + std::fmt::Debug>(path: &str, a: &T, b: &T, out: &mut Vec<String>) {
    if a != b {
        out.push(format!("{path}: {a:?} -> {b:?}"));
    }
}

fn compare(a: &ObservableState, b: &ObservableState) -> Vec<String> {
    let mut d = vec![];
    eq("program.version", &a.program.version, &b.program.version, &mut d);
    eq("program.build_commit", &a.program.build_commit, &b.program.build_commit, &mut d);
    eq("program.build_commit_date", &a.program.build_commit_date, &b.program.build_commit_date, &mut d);
    feq("program.uptime_seconds", a.program.uptime_seconds, b.program.uptime_seconds, &mut d);
    eq("program.now", &a.program.now, &b.program.now, &mut d);
    let (x, y) = (&a.system.time_snapshot, &b.system.time_snapshot);
    dclose("system.precision", x.precision, y.precision, &mut d);
    dclose("system.root_delay", x.root_delay, y.root_delay, &mut d);
    eq("system.root_variance_base_time", &x.root_variance_base_time, &y.root_variance_base_time, &mut d);
    feq("system.root_variance_base", x.root_variance_base, y.root_variance_base, &mut d);
    feq("system.root_variance_linear", x.root_variance_linear, y.root_variance_linear, &mut d);
    feq("system.root_variance_quadratic", x.root_variance_quadratic, y.root_variance_quadratic, &mut d);
    feq("system.root_variance_cubic", x.root_variance_cubic, y.root_variance_cubic, &mut d);
    eq("system.leap_indicator", &x.leap_indicator, &y.leap_indicator, &mut d);
    dclose("system.accumulated_steps", x.accumulated_steps, y.accumulated_steps, &mut d);
    match (x.accumulated_steps_threshold, y.accumulated_steps_threshold) {
        (None, None) => {}
        (Some(p), Some(q)) => dclose("system.accumulated_steps_threshold", p, q, &mut d),
        (p, q) => d.push(format!("system.accumulated_steps_threshold: {p:?} -> {q:?}")),
    }
    eq("system.stratum", &a.system.ntp_snapshot.stratum, &b.system.ntp_snapshot.stratum, &mut d);
    eq("system.reference_id", &a.system.ntp_snapshot.reference_id, &b.system.ntp_snapshot.reference_id, &mut d);
    eq("sources.len", &a.sources.len(), &b.sources.len(), &mut d);
    for (k, (s, t)) in a.sources.iter().zip(b.sources.iter()).enumerate() {
        let p = format!("sources[{k}]");
        dclose(&format!("{p}.offset"), s.timedata.offset, t.timedata.offset, &mut d);
        dclose(&format!("{p}.uncertainty"), s.timedata.uncertainty, t.timedata.uncertainty, &mut d);
        dclose(&format!("{p}.delay"), s.timedata.delay, t.timedata.delay, &mut d);
        dclose(&format!("{p}.remote_delay"), s.timedata.remote_delay, t.timedata.remote_delay, &mut d);
        dclose(&format!("{p}.remote_uncertainty"), s.timedata.remote_uncertainty, t.timedata.remote_uncertainty, &mut d);
        eq(&format!("{p}.last_update"), &s.timedata.last_update, &t.timedata.last_update, &mut d);
        eq(&format!("{p}.unanswered_polls"), &s.unanswered_polls, &t.unanswered_polls, &mut d);
        eq(&format!("{p}.poll_interval"), &s.poll_interval, &t.poll_interval, &mut d);
        eq(&format!("{p}.nts_cookies"), &s.nts_cookies, &t.nts_cookies, &mut d);
        eq(&format!("{p}.name"), &s.name, &t.name, &mut d);
        eq(&format!("{p}.address"), &s.address, &t.address, &mut d);
        eq(&format!("{p}.id"), &s.id, &t.id, &mut d);
    }
    eq("servers.len", &a.servers.len(), &b.servers.len(), &mut d);
    for (k, (s, t)) in a.servers.iter().zip(b.servers.iter()).enumerate() {
        let p = format!("servers[{k}]");
        eq(&format!("{p}.address"), &s.address, &t.address, &mut d);
        let (u, v) = (&s.stats, &t.stats);
        for (n, i, j) in [
            ("received_packets", u.received_packets.get(), v.received_packets.get()),
            ("accepted_packets", u.accepted_packets.get(), v.accepted_packets.get()),
            ("denied_packets", u.denied_packets.get(), v.denied_packets.get()),
            ("ignored_packets", u.ignored_packets.get(), v.ignored_packets.get()),
            ("rate_limited_packets", u.rate_limited_packets.get(), v.rate_limited_packets.get()),
            ("response_send_errors", u.response_send_errors.get(), v.response_send_errors.get()),
            ("nts_received_packets", u.nts_received_packets.get(), v.nts_received_packets.get()),
            ("nts_accepted_packets", u.nts_accepted_packets.get(), v.nts_accepted_packets.get()),
            ("nts_denied_packets", u.nts_denied_packets.get(), v.nts_denied_packets.get()),
            ("nts_rate_limited_packets", u.nts_rate_limited_packets.get(), v.nts_rate_limited_packets.get()),
            ("nts_nak_packets", u.nts_nak_packets.get(), v.nts_nak_packets.get()),
        ] {
            eq(&format!("{p}.{n}"), &i, &j, &mut d);
        }
    }
    d
}

fn roundtrip(s: &Value, rt: &tokio::runtime::Runtime) -> Result<(Vec<String>, usize), String> {
    let state = build(s);
    let mut wire: Vec<u8> = vec![];
    rt.block_on(write_json(&mut wire, &state)).map_err(|e| format!("write_json: {e}"))?;
    let n = wire.len();
    let mut stream = crate::daemon::sockets::verif_hook::CountingStream { data: wire, pos: 0, chunk: 4096, reads: vec![] };
    let mut buffer = vec![];
    let back: ObservableState = rt.block_on(read_json(&mut stream, &mut buffer)).map_err(|e| format!("read_json: {e}"))?;
    if stream.pos != n {
        return Err(format!("read_json consumed {} of {} bytes", stream.pos, n));
    }
    Ok((compare(&state, &back), n))
}

fn replay(job: &Value) {
    let rows = util::read_ndjson(job["input"].as_str().unwrap());
    let mut out = util::NdjsonOut::create(job["output"].as_str().unwrap());
    let rt = tokio::runtime::Builder::new_current_thread().enable_all().build().unwrap();
    for r in rows {
        let s = &r["act"]["c"];
        match util::catch(|| roundtrip(s, &rt)) {
            Ok(Ok((diffs, n))) => {
                let fields: Vec<&str> = if diffs.is_empty() { vec![] } else { vec!["out.equal"] };
                out.put(&json!({"id": r["id"], "fields": fields, "observed": {"equal": diffs.is_empty(), "differences": diffs, "bytes": n}, "panic": null}));
            }
            Ok(Err(e)) => out.put(&json!({"id": r["id"], "fields": ["out.equal"], "observed": {"equal": false, "error": e}, "panic": null})),
            Err(p) => out.put(&json!({"id": r["id"], "fields": ["panic"], "observed": {}, "panic": p})),
        }
    }
    out.finish();
}

#[test]
fn verif_observer() {
    let job = util::job();
    match job["mode"].as_str().unwrap() {
        "replay" => replay(&job),
        m => panic!("unknown mode {m}"),
    }
}
