// verification harness (compiled into ntpd/src/daemon/config/mod.rs under cfg(all(test, pendulum_project_ntpd_rs_verif)))
//
// Harness for spec/ConfigThresholds.tla (C39), path "daemon" and the structural classes: loads the TOML document
// generated for each class with toml::from_str::<Config>, runs Config::check on an accepted configuration (both under
// catch_unwind) and reports verdict ok / err / panic, whether check() returned, and the class (none / zero / pos / neg)
// of the forward / backward limit of the threshold setting named by the class.
#![allow(clippy::all, dead_code)]

use super::*;
use ntp_proto::NtpDuration;
use serde_json::{Value, json};

#[path = "/verif/harness/common/util.rs"]
mod util;

fn cls(d: Option<NtpDuration>) -> &'static str {
    match d {
        None => "none",
        Some(d) if d < NtpDuration::ZERO => "neg",
        Some(d) if d == NtpDuration::ZERO => "zero",
        Some(_) => "pos",
    }
}

fn load(doc: &str, key: Option<&str>) -> (Value, Option<String>) {
    let cfg = match util::catch(|| toml::from_str::<Config>(doc)) {
        Err(p) => return (json!({"verdict": "panic", "fwd": "-", "bwd": "-", "check": "-"}), Some(format!("toml::from_str::<Config> panicked: {p}"))),
        Ok(Err(e)) => return (json!({"verdict": "err", "fwd": "-", "bwd": "-", "check": "no-panic", "error": e.to_string()}), None),
        Ok(Ok(cfg)) => cfg,
    };
    let (check, panic) = match util::catch(|| cfg.check()) {
        Ok(_) => ("no-panic", None),
        Err(p) => ("panic", Some(format!("Config::check panicked: {p}"))),
    };
    let base = &cfg.synchronization.synchronization_base;
    let (f, b) = match key {
        Some("single-step-panic-threshold") => (cls(base.single_step_panic_threshold.forward), cls(base.single_step_panic_threshold.backward)),
        Some("startup-step-panic-threshold") => (cls(base.startup_step_panic_threshold.forward), cls(base.startup_step_panic_threshold.backward)),
        Some("accumulated-step-panic-threshold") => (cls(base.accumulated_step_panic_threshold), cls(base.accumulated_step_panic_threshold)),
        _ => ("-", "-"),
    };
    (json!({"verdict": "ok", "fwd": f, "bwd": b, "check": check}), panic)
}

fn replay(job: &Value) {
    let rows = util::read_ndjson(job["input"].as_str().unwrap());
    let mut out = util::NdjsonOut::create(job["output"].as_str().unwrap());
    for r in rows {
        let threshold = r["act"]["kind"] == json!("threshold");
        let key = if threshold { r["act"]["c"]["key"].as_str() } else { None };
        let (obs, panic) = load(r["doc"].as_str().unwrap(), key);
        let mut d: Vec<String> = vec![];
        if panic.is_some() {
            d.push("panic".to_string());
        }
        if threshold {
            for k in ["verdict", "fwd", "bwd"] {
                if r["out"][k] != obs[k] {
                    d.push(format!("out.{k}"));
                }
            }
        } else if obs["verdict"] == json!("panic") {
            d.push("out.verdict".to_string());
        }
        if obs["check"] == json!("panic") {
            d.push("out.check".to_string());
        }
        out.put(&json!({"id": r["id"], "fields": d, "observed": obs, "panic": panic}));
    }
    out.finish();
}

#[test]
fn verif_config() {
    let job = util::job();
    match job["mode"].as_str().unwrap() {
        "replay" => replay(&job),
        m => panic!("unknown mode {m}"),
    }
}
