// verification harness (compiled into ntpd/src/daemon/spawn/pool.rs under cfg(all(test, pendulum_project_ntpd_rs_verif)))
//
// Harness for spec/Spawner.tla, part Pool (C35): drives the real `PoolSpawner` with the abstract actions
//   {"t":"TrySpawn","fail":bool,"ans":[addr..]}   try_spawn with the next DNS lookup scripted to answer `ans` / to fail
//   {"t":"Removed","id":n,"reason":".."}          handle_source_removed for the source the model calls n
// and observes the SpawnEvent stream, is_complete() and the private bookkeeping (current_sources, known_ips).
//   * mode "replay": compares with the specification's expectation after every step of TLC-generated walks;
//   * mode "record": seeded random sessions logged as ndjson for Trace_SpawnerPool.
// Model address k is 10.0.0.k:123; model source ids are the smallest number not in use (table kept here).
#![allow(clippy::all, dead_code)]

use super::*;
// explicit imports: do not rely on what the parent module happens to import
#[allow(unused_imports)]
use std::net::SocketAddr;
#[allow(unused_imports)]
use tokio::sync::mpsc;
use crate::daemon::config::NormalizedAddress;
use crate::daemon::spawn::{SourceCreateParameters, SourceRemovalReason};
use ntp_proto::ProtocolVersion;
use serde_json::{Value, json};
use std::net::{IpAddr, Ipv4Addr};

#[path = "/verif/harness/common/util.rs"]
mod util;
use util::Rng;

fn sock(k: i64) -> SocketAddr {
    SocketAddr::new(IpAddr::V4(Ipv4Addr::new(10, 0, 0, k as u8)), 123)
}

fn model_addr(a: &SocketAddr) -> i64 {
    match a.ip() {
        IpAddr::V4(v4) if v4.octets()[..3] == [10, 0, 0] && a.port() == 123 => v4.octets()[3] as i64,
        _ => -1,
    }
}

struct Sut {
    pool: PoolSpawner,
    tx: mpsc::Sender<SpawnEvent>,
    rx: mpsc::Receiver<SpawnEvent>,
    table: Vec<(ClockId, i64)>, // real id -> model id of the sources the spawner created and still lists
    rt: tokio::runtime::Runtime,
}

impl Sut {
    fn new(cfg: &Value) -> Sut {
        let count = cfg["Count"].as_u64().unwrap() as usize;
        let ignore: Vec<IpAddr> = cfg["Ignore"].as_array().unwrap().iter().map(|k| sock(k.as_i64().unwrap()).ip()).collect();
        let pool = PoolSpawner::new(
            PoolSourceConfig {
                addr: NormalizedAddress::with_hardcoded_dns("pool.verif.test", 123, vec![]).into(),
                count,
                ignore,
                ntp_version: ProtocolVersion::V4,
            },
            SourceConfig::default(),
        );
        let (tx, rx) = mpsc::channel(64);
        let rt = tokio::runtime::Builder::new_current_thread().enable_all().build().unwrap();
        Sut { pool, tx, rx, table: vec![], rt }
    }

    fn model_id(&self, id: ClockId) -> i64 {
        self.table.iter().find(|(r, _)| *r == id).map(|(_, m)| *m).unwrap_or(-1)
    }

    fn state(&self) -> Value {
        let active: Vec<Value> = self
            .pool
            .current_sources
            .iter()
            .map(|p| json!({"id": self.model_id(p.id), "addr": model_addr(&p.addr)}))
            .collect();
        let known: Vec<i64> = self.pool.known_ips.iter().map(model_addr).collect();
        json!({"active": active, "known": known})
    }

    /// Applies one abstract action; returns (state projection, output, panic message).
    fn apply(&mut self, act: &Value) -> (Value, Value, Option<String>) {
        let mut creates: Vec<Value> = vec![];
        let mut panic = None;
        match act["t"].as_str().unwrap() {
            "TrySpawn" => {
                let answer = if act["fail"].as_bool().unwrap() {
                    None
                } else {
                    Some(act["ans"].as_array().unwrap().iter().map(|k| sock(k.as_i64().unwrap())).collect())
                };
                self.pool.config.addr.0.verif_script_dns(answer);
                let (pool, tx, rt) = (&mut self.pool, &self.tx, &self.rt);
                match util::catch(|| rt.block_on(pool.try_spawn(tx))) {
                    Ok(Ok(())) => {}
                    Ok(Err(e)) => panic = Some(format!("try_spawn returned an error: {e:?}")),
                    Err(p) => panic = Some(p),
                }
                while let Ok(ev) = self.rx.try_recv() {
                    let spawner_ok = ev.id == self.pool.get_id();
                    let SpawnAction::Create(params) = ev.action;
                    match params {
                        SourceCreateParameters::Ntp(p) => {
                            // name the new source as the model does: smallest number not in use
                            let mut m = 0;
                            while self.table.iter().any(|(_, x)| *x == m) {
                                m += 1;
                            }
                            self.table.push((p.id, m));
                            if spawner_ok && p.nts.is_none() {
                                creates.push(json!({"id": m, "addr": model_addr(&p.addr)}));
                            } else {
                                creates.push(json!({"id": m, "addr": model_addr(&p.addr), "bad_event": true}));
                            }
                        }
                        _ => creates.push(json!({"id": -1, "addr": -1, "bad_event": true})),
                    }
                }
            }
            "Removed" => {
                let m = act["id"].as_i64().unwrap();
                let real = self.table.iter().find(|(_, x)| *x == m).map(|(r, _)| *r).unwrap_or_else(ClockId::new);
                let reason = match act["reason"].as_str().unwrap() {
                    "Demobilized" => SourceRemovalReason::Demobilized,
                    "NetworkIssue" => SourceRemovalReason::NetworkIssue,
                    _ => SourceRemovalReason::Unreachable,
                };
                let (pool, rt) = (&mut self.pool, &self.rt);
                match util::catch(|| rt.block_on(pool.handle_source_removed(SourceRemovedEvent { id: real, reason }))) {
                    Ok(Ok(())) => {}
                    Ok(Err(e)) => panic = Some(format!("handle_source_removed returned an error: {e:?}")),
                    Err(p) => panic = Some(p),
                }
                // the system has removed the source: forget its name once the spawner no longer lists it
                let listed: Vec<ClockId> = self.pool.current_sources.iter().map(|p| p.id).collect();
                self.table.retain(|(r, x)| *x != m || listed.contains(r));
                if self.rx.try_recv().is_ok() {
                    creates.push(json!({"id": -1, "addr": -1, "bad_event": true}));
                }
            }
            t => panic!("unknown action {t}"),
        }
        let out = json!({"creates": creates, "complete": self.pool.is_complete()});
        (self.state(), out, panic)
    }
}

fn compare(exp_post: &Value, exp_out: &Value, st: &Value, out: &Value, panic: &Option<String>) -> Vec<String> {
    let mut d = vec![];
    if panic.is_some() {
        d.push("panic".to_string());
        return d;
    }
    for k in ["active", "known"] {
        if exp_post[k] != st[k] {
            d.push(k.to_string());
        }
    }
    for k in ["creates", "complete"] {
        if exp_out[k] != out[k] {
            d.push(format!("out.{k}"));
        }
    }
    d
}

fn replay(job: &Value) {
    let walks = util::read_ndjson(job["input"].as_str().unwrap());
    let mut out = util::NdjsonOut::create(job["output"].as_str().unwrap());
    // "loose": only execute the walk and report the final state (used for TLC's as-coded counterexamples)
    let loose = job["loose"].as_bool().unwrap_or(false);
    for w in walks {
        let mut sut = Sut::new(&job["cfg"]);
        let steps = w["walk"].as_array().unwrap();
        let mut fail = Value::Null;
        let mut run = 0;
        let mut last = json!({"st": sut.state()});
        for (n, st) in steps.iter().enumerate() {
            let (obs_st, obs_out, panic) = sut.apply(&st["act"]);
            run = n + 1;
            let mut d = compare(&st["post"], &st["out"], &obs_st, &obs_out, &panic);
            if loose && panic.is_none() {
                d.clear();
            }
            last = json!({"st": obs_st, "out": obs_out});
            if !d.is_empty() {
                fail = json!({"step": n, "fields": d, "observed": last, "panic": panic});
                break;
            }
        }
        out.put(&json!({"id": w["id"], "steps_run": run, "fail": fail, "final": last}));
    }
    out.finish();
}

fn record(job: &Value) {
    let mut out = util::NdjsonOut::create(job["output"].as_str().unwrap());
    let seed = job["seed"].as_u64().unwrap_or(0);
    let sessions = job["sessions"].as_u64().unwrap_or(10);
    let steps = job["steps"].as_u64().unwrap_or(100);
    let cfg = &job["cfg"];
    let naddr = cfg["NAddr"].as_u64().unwrap();
    let max_ans = cfg["MaxAns"].as_u64().unwrap();
    let mut rng = Rng::new(seed ^ 0x9001);
    for _ in 0..sessions {
        let mut sut = Sut::new(cfg);
        out.put(&json!({"ev": "reset", "st": sut.state()}));
        // per session: how often DNS answers repeat an address within one answer
        let dup_free = rng.chance(1, 2);
        for _ in 0..steps {
            let r = rng.below(100);
            let act = if r < 45 {
                if rng.chance(1, 10) {
                    json!({"t": "TrySpawn", "fail": true, "ans": []})
                } else {
                    let n = rng.below(max_ans + 1);
                    let mut ans: Vec<i64> = vec![];
                    for _ in 0..n {
                        let a = 1 + rng.below(naddr) as i64;
                        if dup_free && ans.contains(&a) {
                            continue;
                        }
                        ans.push(a);
                    }
                    json!({"t": "TrySpawn", "fail": false, "ans": ans})
                }
            } else {
                let active = sut.pool.current_sources.len() as u64;
                let id = if active == 0 || rng.chance(1, 8) {
                    99
                } else {
                    let p = &sut.pool.current_sources[rng.below(active) as usize];
                    sut.model_id(p.id)
                };
                let reason = *rng.pick(&["Demobilized", "NetworkIssue", "Unreachable"]);
                json!({"t": "Removed", "id": id, "reason": reason})
            };
            let (st, o, panic) = sut.apply(&act);
            out.put(&json!({"ev": "step", "act": act, "st": st, "out": o, "panic": panic.clone().unwrap_or_default()}));
            if panic.is_some() {
                break;
            }
        }
    }
    out.finish();
}

#[test]
fn verif_pool() {
    let job = util::job();
    match job["mode"].as_str().unwrap() {
        "replay" => replay(&job),
        "record" => record(&job),
        m => panic!("unknown mode {m}"),
    }
}
