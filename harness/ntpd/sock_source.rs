// verification harness (compiled into ntpd/src/daemon/sock_source.rs under cfg(all(test, pendulum_project_ntpd_rs_verif)))
//
// Harness for spec/SockSample.tla (C40): concretises every datagram class [size, magic, pulse, off, leap] into real
// bytes and puts it through
//   path "direct": deserialize_sample(Ok(size), first 40 bytes)                       -> verdict
//   path "task":   the unix socket of a real SockSourceTask with a recording controller -> measurement or none
// On the task path every probe is followed by a well-formed sentinel sample; when the sentinel's measurement has
// arrived the probe has been processed (datagrams are handled in order).  A panic of the task is data.
#![allow(clippy::all, dead_code)]

use super::*;
// explicit imports: do not rely on what the parent module happens to import
#[allow(unused_imports)]
use std::path::PathBuf;
use ntp_proto::{NtpTimestamp, ObservableSourceTimedata, PollInterval};
use serde_json::{Value, json};
use std::collections::HashMap;
use std::sync::{Arc, Mutex, RwLock};

#[path = "/verif/harness/common/util.rs"]
mod util;

#[derive(Clone)]
struct RecCtl(Arc<Mutex<Vec<(f64, String)>>>);

impl SourceController for RecCtl {
    fn handle_measurement(&mut self, m: Measurement) {
        // offset as the sample stated it: receive time minus the sender time the task computed
        self.0.lock().unwrap().push(((m.receiver_ts - m.sender_ts).to_seconds(), format!("{:?}", m.leap)));
    }
    fn set_usable(&mut self, _usable: bool) {}
    fn desired_poll_interval(&self) -> PollInterval {
        PollInterval::from_byte(4)
    }
    fn observe(&self) -> ObservableSourceTimedata {
        Default::default()
    }
}

#[derive(Clone, Default)]
struct FixedClock;

impl NtpClock for FixedClock {
    type Error = std::io::Error;
    fn now(&self) -> Result<NtpTimestamp, Self::Error> {
        Ok(NtpTimestamp::from_seconds_nanos_since_ntp_era(1_000_000, 0))
    }
    fn set_frequency(&self, _freq: f64) -> Result<NtpTimestamp, Self::Error> {
        self.now()
    }
    fn get_frequency(&self) -> Result<f64, Self::Error> {
        Ok(0.0)
    }
    fn step_clock(&self, _offset: NtpDuration) -> Result<NtpTimestamp, Self::Error> {
        self.now()
    }
    fn disable_ntp_algorithm(&self) -> Result<(), Self::Error> {
        Ok(())
    }
    fn error_estimate_update(&self, _e: NtpDuration, _m: NtpDuration) -> Result<(), Self::Error> {
        Ok(())
    }
    fn status_update(&self, _l: NtpLeapIndicator) -> Result<(), Self::Error> {
        Ok(())
    }
}

fn offset_of(class: &str) -> f64 {
    match class {
        "zero" => 0.0,
        "negzero" => -0.0,
        "small" => 0.123456789,
        "negsmall" => -0.0015,
        "subnormal" => 5e-324,
        "huge" => 1e300,
        "nan" => f64::NAN,
        "pinf" => f64::INFINITY,
        "ninf" => f64::NEG_INFINITY,
        c => panic!("unknown offset class {c}"),
    }
}

// The sample layout as documented by gpsd (struct sock_sample), deliberately NOT taken from the constants of the code
// under test: 40 bytes, magic 0x534f434b ("SOCK").
const SIZE: usize = 40;
const MAGIC: i32 = 0x534f_434b;

fn sample_bytes(offset: f64, pulse: i32, leap: i32, magic: i32) -> [u8; SIZE] {
    let mut b = [0u8; SIZE];
    b[0..8].copy_from_slice(&1_700_000_000i64.to_le_bytes());
    b[8..16].copy_from_slice(&250_000i64.to_le_bytes());
    b[16..24].copy_from_slice(&offset.to_le_bytes());
    b[24..28].copy_from_slice(&pulse.to_le_bytes());
    b[28..32].copy_from_slice(&leap.to_le_bytes());
    b[36..40].copy_from_slice(&magic.to_le_bytes());
    b
}

/// The datagram of a class: the 40-byte layout cut to `size`, or extended with filler bytes.
fn datagram(c: &Value) -> Vec<u8> {
    let magic = match c["magic"].as_str().unwrap() {
        "ok" => MAGIC,
        "off1" => MAGIC + 1,
        _ => 0,
    };
    let full = sample_bytes(offset_of(c["off"].as_str().unwrap()), c["pulse"].as_i64().unwrap() as i32, c["leap"].as_i64().unwrap() as i32, magic);
    let size = c["size"].as_u64().unwrap() as usize;
    let mut v = full.to_vec();
    v.resize(size, 0xA5);
    v
}

fn direct(c: &Value) -> (Value, Option<String>) {
    let dg = datagram(c);
    let mut buf = [0u8; SOCK_SAMPLE_SIZE];
    let n = dg.len().min(SOCK_SAMPLE_SIZE);
    buf[..n].copy_from_slice(&dg[..n]);
    match util::catch(|| deserialize_sample(Ok(dg.len()), buf)) {
        Ok(Ok(s)) => {
            let leap = match s.leap {
                0 => "NoWarning",
                1 => "Leap61",
                2 => "Leap59",
                _ => "Unknown",
            };
            (json!({"result": "Ok", "accepted": true, "leap": leap}), None)
        }
        Ok(Err(e)) => {
            let r = match e {
                SampleError::IOError(_) => "IOError",
                SampleError::SliceError(_) => "SliceError",
                SampleError::WrongSize(_) => "WrongSize",
                SampleError::WrongMagic(_) => "WrongMagic",
                SampleError::WrongPulse(_) => "WrongPulse",
                // (variants added after this harness was written, e.g. the non-finite offset rejection of the
                // fix for finding F-10, are told apart by their message)
                #[allow(unreachable_patterns)]
                other => if other.to_string().to_lowercase().contains("offset") { "NonFinite" } else { "OtherRejection" },
            };
            (json!({"result": r, "accepted": false, "leap": "none"}), None)
        }
        Err(p) => (json!({}), Some(p)),
    }
}

struct TaskSut {
    log: Arc<Mutex<Vec<(f64, String)>>>,
    handle: tokio::task::JoinHandle<()>,
    client: std::os::unix::net::UnixDatagram,
    path: PathBuf,
    sentinel: u32,
}

impl TaskSut {
    fn start(n: usize) -> TaskSut {
        let path = std::env::temp_dir().join(format!("verif-sock-{}-{}", std::process::id(), n));
        let log = Arc::new(Mutex::new(vec![]));
        let (msg_for_system_sender, _rx) = tokio::sync::mpsc::channel(1);
        let handle = SockSourceTask::spawn(
            ClockId::new(),
            path.clone(),
            FixedClock,
            SourceChannels { msg_for_system_sender, source_snapshots: Arc::new(RwLock::new(HashMap::new())) },
            OneWaySource::new(RecCtl(log.clone())),
        );
        let client = std::os::unix::net::UnixDatagram::unbound().unwrap();
        client.connect(&path).unwrap();
        TaskSut { log, handle, client, path, sentinel: 0 }
    }

    /// Sends the probe and a sentinel; returns (measurements caused by the probe, panicked)
    async fn probe(&mut self, dg: &[u8]) -> Result<(Vec<(f64, String)>, bool), String> {
        let before = self.log.lock().unwrap().len();
        self.sentinel += 1;
        let mark = 4096.0 + self.sentinel as f64; // exactly representable, unlike any probe offset
        self.client.send(dg).map_err(|e| format!("send failed: {e}"))?;
        self.client.send(&sample_bytes(mark, 0, 0, MAGIC)).map_err(|e| format!("send failed: {e}"))?;
        for round in 0..40_000u32 {
            {
                let log = self.log.lock().unwrap();
                if let Some(pos) = log[before..].iter().position(|(o, _)| (*o - mark).abs() < 1e-3) {
                    return Ok((log[before..before + pos].to_vec(), false));
                }
            }
            if self.handle.is_finished() {
                let log = self.log.lock().unwrap();
                return Ok((log[before..].to_vec(), true));
            }
            // let the task run; fall back to short real sleeps only if it needs the I/O driver to be polled longer
            if round < 2_000 || round % 16 != 0 {
                tokio::task::yield_now().await;
            } else {
                tokio::time::sleep(std::time::Duration::from_millis(1)).await;
            }
        }
        Err("sentinel sample never processed".to_string())
    }
}

impl Drop for TaskSut {
    fn drop(&mut self) {
        self.handle.abort();
        let _ = std::fs::remove_file(&self.path);
    }
}

fn replay(job: &Value) {
    let rows = util::read_ndjson(job["input"].as_str().unwrap());
    let mut out = util::NdjsonOut::create(job["output"].as_str().unwrap());
    let _ = util::catch(|| ()); // install the quiet panic hook before any task can panic
    let rt = tokio::runtime::Builder::new_current_thread().enable_all().build().unwrap();
    rt.block_on(async {
        let mut nsut = 0;
        let mut sut: Option<TaskSut> = None;
        // consecutive probes whose well-formed sentinel was not turned into a measurement; after two of them (the
        // second on a fresh task) the task evidently rejects well-formed samples: stop waiting, fail the rest quickly
        let mut deaf = 0;
        for r in rows {
            let a = &r["act"];
            let c = &a["c"];
            let (obs, panic) = if a["path"] == json!("direct") {
                direct(c)
            } else {
                if sut.is_none() {
                    nsut += 1;
                    sut = Some(TaskSut::start(nsut));
                }
                let dg = datagram(c);
                let probed = if deaf >= 2 {
                    Err("a well-formed sample is not turned into a measurement".to_string())
                } else {
                    sut.as_mut().unwrap().probe(&dg).await
                };
                match probed {
                    Ok((ms, died)) => {
                        deaf = 0;
                        if died {
                            sut = None; // restart the task for the next probe
                        }
                        let o = match ms.first() {
                            Some((off, leap)) => json!({"accepted": true, "leap": leap, "offset": if off.is_finite() { json!(off) } else { json!("nonfinite") },
                                                        "measurements": ms.len()}),
                            None => json!({"accepted": false, "leap": "none", "measurements": 0}),
                        };
                        (o, if died { Some("SockSourceTask panicked".to_string()) } else { None })
                    }
                    Err(e) => {
                        sut = None;
                        deaf += 1;
                        (json!({}), Some(e))
                    }
                }
            };
            let exp = &r["out"];
            let mut d: Vec<String> = vec![];
            if panic.is_some() {
                d.push("panic".to_string());
            } else {
                let keys: &[&str] = if a["path"] == json!("direct") { &["result", "accepted", "leap"] } else { &["accepted", "leap"] };
                for k in keys {
                    if exp[*k] != obs[*k] {
                        d.push(format!("out.{k}"));
                    }
                }
                if obs["measurements"].as_u64().unwrap_or(0) > 1 {
                    d.push("out.accepted".to_string());
                }
            }
            out.put(&json!({"id": r["id"], "fields": d, "observed": obs, "panic": panic}));
        }
    });
    out.finish();
}

#[test]
fn verif_sock() {
    let job = util::job();
    match job["mode"].as_str().unwrap() {
        "replay" => replay(&job),
        m => panic!("unknown mode {m}"),
    }
}
