// verification harness (compiled into ntpd/src/daemon/config/ntp_source.rs under cfg(all(test, pendulum_project_ntpd_rs_verif)))
//
// Helper only (no #[test] here): scripting of DNS answers for the spawner harnesses (spawn_pool.rs, spawn_standard.rs)
// through the crate's own cfg(test) facility `hardcoded_dns_resolve`.  It is an inherent method so that harness
// modules elsewhere in the crate can call it although `config::ntp_source` is a private module.
#![allow(clippy::all, dead_code)]

use super::*;
// explicit imports: do not rely on what the parent module happens to import
#[allow(unused_imports)]
use std::net::SocketAddr;

impl NormalizedAddress {
    /// Makes the NEXT `lookup_host()` on this address answer exactly `answer` (in this order, repetitions
    /// kept); `None` makes it fail with an I/O error.
    ///
    /// `HardcodedDnsResolve::lookup_host` rotates its list (last element to the front) before answering, so the
    /// list is stored rotated the other way.  A failing lookup is obtained without any network access: with the
    /// hardcoded answer removed the real resolver is asked for a host name containing a NUL byte, which the
    /// standard library rejects (InvalidInput) before calling getaddrinfo.
    pub(crate) fn verif_script_dns(&mut self, answer: Option<Vec<SocketAddr>>) {
        match answer {
            Some(mut v) => {
                if !v.is_empty() {
                    let first = v.remove(0);
                    v.push(first);
                }
                self.server_name = "pool.verif.test".to_string();
                self.hardcoded_dns_resolve = Some(HardcodedDnsResolve::from(v));
            }
            None => {
                self.server_name = "unresolvable\0.verif.test".to_string();
                self.hardcoded_dns_resolve = None;
            }
        }
    }
}
