// verification harness (compiled into ntpd/src/daemon/config/ntp_source.rs under cfg(all(test, pendulum_project_ntpd_rs_verif)))
