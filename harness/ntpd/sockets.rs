// verification harness (compiled into ntpd/src/daemon/sockets.rs under cfg(all(test, pendulum_project_ntpd_rs_verif)))
//
// Harness for spec/Framing.tla part 1 (C38, framing): materialises every stream class [len, prefix, avail, json, chunk]
// as an in-memory byte stream that counts what is read from it (and hands out at most `chunk` bytes per read call),
// runs the real read_json on it and reports the result class and how many prefix / payload bytes were consumed.
// Also checks the frame written by write_json (length prefix = payload length, big endian).
#![allow(clippy::all, dead_code)]

use super::*;
use serde_json::{Value, json};
use std::pin::Pin;
use std::task::{Context, Poll};
use tokio::io::ReadBuf;

#[path = "/verif/harness/common/util.rs"]
mod util;

pub(crate) struct CountingStream {
    pub data: Vec<u8>,
    pub pos: usize,
    pub chunk: usize, // 0 = unlimited
    pub reads: Vec<usize>,
}

impl AsyncRead for CountingStream {
    fn poll_read(mut self: Pin<&mut Self>, _cx: &mut Context<'_>, buf: &mut ReadBuf<'_>) -> Poll<std::io::Result<()>> {
        let left = self.data.len() - self.pos;
        let mut n = left.min(buf.remaining());
        if self.chunk > 0 {
            n = n.min(self.chunk);
        }
        let (a, b) = (self.pos, self.pos + n);
        buf.put_slice(&self.data[a..b]);
        self.pos = b;
        self.reads.push(n);
        Poll::Ready(Ok(()))
    }
}

// 1 MiB as stated by the property, deliberately NOT taken from the code's MAX_JSON_MESSAGE_SIZE
const MAX: u64 = 1 << 20;

fn len_of(tok: &str) -> u64 {
    match tok {
        "0" => 0,
        "1" => 1,
        "Max-1" => MAX - 1,
        "Max" => MAX,
        "Max+1" => MAX + 1,
        "2^32" => 1 << 32,
        "2^64-1" => u64::MAX,
        t => panic!("unknown length token {t}"),
    }
}

/// JSON text of exactly n bytes (n >= 1): a number for n = 1, otherwise a string literal; `valid = false` breaks it.
fn json_text(n: usize, valid: bool) -> Vec<u8> {
    let mut v = if n == 1 {
        vec![b'7']
    } else {
        let mut s = vec![b'a'; n];
        s[0] = b'"';
        s[n - 1] = b'"';
        s
    };
    if !valid {
        v[0] = b'}';
    }
    v
}

fn run_class(c: &Value, rt: &tokio::runtime::Runtime) -> (Value, Option<String>) {
    let l = len_of(c["len"].as_str().unwrap());
    let mut data: Vec<u8> = vec![];
    let prefix = l.to_be_bytes();
    let plen = match c["prefix"].as_str().unwrap() {
        "full" => 8,
        "cut7" => 7,
        _ => 0,
    };
    data.extend_from_slice(&prefix[..plen]);
    let valid = c["json"] == json!("valid");
    let avail = c["avail"].as_str().unwrap();
    let payload_avail: usize = match avail {
        "exact" | "extra" => {
            if l > 0 {
                data.extend_from_slice(&json_text(l as usize, valid));
            }
            if avail == "extra" {
                data.extend_from_slice(&[0, 0, 0, 0, 0]);
                l as usize + 5
            } else {
                l as usize
            }
        }
        "short" => {
            let t = json_text(l as usize, valid);
            data.extend_from_slice(&t[..t.len() - 1]);
            l as usize - 1
        }
        "some" => {
            data.extend_from_slice(&[b'x'; 16]);
            16
        }
        _ => 0,
    };
    let mut stream = CountingStream { data, pos: 0, chunk: c["chunk"].as_u64().unwrap() as usize, reads: vec![] };
    let mut buffer = vec![1u8, 2, 3];
    let res = util::catch(|| rt.block_on(read_json::<Value>(&mut stream, &mut buffer)));
    let consumed = stream.pos;
    let p = consumed.min(plen);
    let pay = consumed - p;
    let payload = if pay == 0 {
        "none"
    } else if pay as u64 == l {
        "len"
    } else if pay == payload_avail && (pay as u64) < l {
        "all-available"
    } else {
        "other"
    };
    // order: no payload byte may be handed out before the 8 prefix bytes are complete, and a rejected message
    // performs no further read call after the prefix
    let mut seen = 0usize;
    let mut order = "prefix-first";
    for n in &stream.reads {
        if seen < plen && seen + n > plen {
            order = "read-across-prefix-boundary";
        }
        seen += n;
    }
    match res {
        Err(pn) => (json!({"result": "panic", "prefix": p, "payload": payload, "order": order}), Some(pn)),
        Ok(r) => {
            let result = match &r {
                Ok(_) => "value",
                Err(e) if e.kind() == std::io::ErrorKind::UnexpectedEof => "eof",
                Err(e) if e.kind() == std::io::ErrorKind::InvalidInput && e.to_string() == "message too large" => "too-large",
                Err(e) if e.kind() == std::io::ErrorKind::InvalidInput => "bad-json",
                Err(_) => "other-error",
            };
            if result == "too-large" && stream.reads.iter().sum::<usize>() != 8 {
                order = "read-after-reject";
            }
            (json!({"result": result, "prefix": p, "payload": payload, "order": order, "consumed": consumed, "read_calls": stream.reads.len()}), None)
        }
    }
}

/// write_json frames: 8-byte big-endian length, then exactly that many bytes, which are the JSON text of the value
fn write_frame_ok(rt: &tokio::runtime::Runtime) -> Result<(), String> {
    for v in [json!(null), json!([1, 2, 3]), json!({"a": "b", "n": 1.5}), json!("x".repeat(70_000))] {
        let mut sink: Vec<u8> = vec![];
        rt.block_on(write_json(&mut sink, &v)).map_err(|e| e.to_string())?;
        if sink.len() < 8 {
            return Err("frame shorter than its prefix".into());
        }
        let l = u64::from_be_bytes(sink[..8].try_into().unwrap());
        if l as usize != sink.len() - 8 {
            return Err(format!("prefix {l} but {} payload bytes", sink.len() - 8));
        }
        let back: Value = serde_json::from_slice(&sink[8..]).map_err(|e| e.to_string())?;
        if back != v {
            return Err("payload is not the JSON text of the value".into());
        }
    }
    Ok(())
}

fn replay(job: &Value) {
    let rows = util::read_ndjson(job["input"].as_str().unwrap());
    let mut out = util::NdjsonOut::create(job["output"].as_str().unwrap());
    let rt = tokio::runtime::Builder::new_current_thread().enable_all().build().unwrap();
    let wf = match util::catch(|| write_frame_ok(&rt)) {
        Ok(Ok(())) => json!("ok"),
        Ok(Err(e)) => json!(e),
        Err(p) => json!(format!("panic: {p}")),
    };
    out.put(&json!({"id": -1, "write_frame": wf}));
    for r in rows {
        let (obs, panic) = run_class(&r["act"]["c"], &rt);
        let mut d: Vec<String> = vec![];
        if panic.is_some() {
            d.push("panic".to_string());
        }
        for k in ["result", "prefix", "payload", "order"] {
            if r["out"][k] != obs[k] {
                d.push(format!("out.{k}"));
            }
        }
        out.put(&json!({"id": r["id"], "fields": d, "observed": obs, "panic": panic}));
    }
    out.finish();
}

#[test]
fn verif_framing() {
    let job = util::job();
    match job["mode"].as_str().unwrap() {
        "replay" => replay(&job),
        m => panic!("unknown mode {m}"),
    }
}
