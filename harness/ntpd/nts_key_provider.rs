// verification harness (compiled into ntpd/src/daemon/nts_key_provider.rs under cfg(all(test, pendulum_project_ntpd_rs_verif)))
