// verification harness (compiled into ntpd/src/daemon/nts_key_provider.rs under cfg(all(test, pendulum_project_ntpd_rs_verif)))
// Runs the REAL key provider task (`spawn`) on real files and records what it does to them as a trace for
// spec/Trace_KeySet.tla (events Start = load-or-fresh + first store, Cycle = rotate + store, Issue / Decode on the
// published key set), plus a summary of the open behaviour observed at file level (was a longer old file
// truncated? which mode does a created file get?) that parameterises the token-level replay in
// harness/ntp_proto/keyset.rs.  Keys are projected to identities through the bytes found in the file.
#![allow(clippy::all, dead_code)]

use super::*;
// explicit imports: do not rely on what the parent module happens to import
#[allow(unused_imports)]
use std::fs::File;
#[allow(unused_imports)]
use std::fs::OpenOptions;
use serde_json::{Value, json};
use std::io::Write;

#[path = "/verif/harness/common/util.rs"]
mod util;

const M: u64 = 8;
const HISTORY: usize = 1;
const INTERVAL: usize = 2;

fn tok_size(idx: usize) -> usize {
    match idx {
        0 => 8,
        1 | 2 | 3 => 4,
        _ => 64,
    }
}

struct Obs {
    path: String,
    ids: Vec<(Vec<u8>, i64)>,
    next_fresh: i64,
    cookies: Vec<Vec<u8>>,
}

impl Obs {
    fn id_of(&mut self, b: &[u8], assign: bool) -> i64 {
        if let Some((_, id)) = self.ids.iter().find(|(x, _)| x == b) {
            return *id;
        }
        if !assign {
            return -99;
        }
        let id = self.next_fresh;
        self.next_fresh += 1;
        self.ids.push((b.to_vec(), id));
        id
    }
    fn hv(x: u32) -> i64 {
        if x == u32::MAX { 1000 } else { (x as i64).min(999) }
    }
    fn disk(&mut self, assign: bool) -> Value {
        match std::fs::metadata(&self.path) {
            Err(_) => json!({"exists": false, "mode": 0, "toks": []}),
            Ok(meta) => {
                use std::os::unix::fs::PermissionsExt;
                let data = std::fs::read(&self.path).unwrap();
                let mut toks = vec![];
                let (mut pos, mut idx) = (0, 0);
                while pos < data.len() {
                    let size = tok_size(idx);
                    if pos + size <= data.len() {
                        let b = &data[pos..pos + size];
                        let v = match idx {
                            0 => 0,
                            1 => (u32::from_be_bytes(b.try_into().unwrap()) as u64 % M) as i64,
                            2 | 3 => Self::hv(u32::from_be_bytes(b.try_into().unwrap())),
                            _ => self.id_of(b, assign),
                        };
                        toks.push(json!({"v": v, "part": false}));
                    } else {
                        toks.push(json!({"v": -7, "part": true}));
                    }
                    pos += size;
                    idx += 1;
                }
                json!({"exists": true, "mode": meta.permissions().mode() & 0o7777, "toks": toks})
            }
        }
    }
    fn st(&mut self, up: bool, usable: bool) -> Value {
        let d = self.disk(up);
        json!({"up": up, "memobs": false, "keys": [], "offset": 0, "primary": 0, "disk": d, "usable": usable,
               "ncookies": self.cookies.len()})
    }
}

fn same_cookie(a: &ntp_proto::DecodedServerCookie, b: &ntp_proto::DecodedServerCookie) -> bool {
    a.s2c.key_bytes() == b.s2c.key_bytes() && a.c2s.key_bytes() == b.c2s.key_bytes()
}

/// can the published key set issue a cookie and decode it again?
fn usable(ks: &KeySet) -> bool {
    matches!(util::catch(|| {
        let c = ks.encode_cookie_pub(&ntp_proto::test_cookie());
        ks.decode_cookie_pub(&c).map(|d| same_cookie(&d, &ntp_proto::test_cookie())).unwrap_or(false)
    }), Ok(true))
}

/// what a start of the daemon would make of the file now, relative to the published set
fn load_view(path: &str, published: &KeySet) -> String {
    let r = util::catch(|| {
        let mut input = File::open(path).ok()?;
        KeySetProvider::load(&mut input, HISTORY).ok().map(|x| x.0)
    });
    match r {
        Err(_) => "panic".into(),
        Ok(None) => "err".into(),
        Ok(Some(p)) => {
            let l = p.get();
            let r = util::catch(|| {
                let c1 = l.encode_cookie_pub(&ntp_proto::test_cookie());
                let c2 = published.encode_cookie_pub(&ntp_proto::test_cookie());
                c1[0..4] == c2[0..4] && published.decode_cookie_pub(&c1).is_ok() && l.decode_cookie_pub(&c2).is_ok()
            });
            match r {
                Err(_) => "unusable".into(),
                Ok(true) => "same".into(),
                Ok(false) => "other".into(),
            }
        }
    }
}

fn craft(path: &str, mode: u32, offset: u32, primary: u32, len: u32, keys: &[Vec<u8>], time: u64, extra: usize) {
    use std::os::unix::fs::OpenOptionsExt;
    let _ = std::fs::remove_file(path);
    let mut f = OpenOptions::new().create(true).truncate(true).write(true).mode(mode).open(path).unwrap();
    f.write_all(&time.to_be_bytes()).unwrap();
    f.write_all(&offset.to_be_bytes()).unwrap();
    f.write_all(&primary.to_be_bytes()).unwrap();
    f.write_all(&len.to_be_bytes()).unwrap();
    for k in keys {
        f.write_all(k).unwrap();
    }
    f.write_all(&vec![0xA5u8; extra]).unwrap();
    // the mode of an existing file is subject to the umask at creation: set it exactly
    use std::os::unix::fs::PermissionsExt;
    std::fs::set_permissions(path, std::fs::Permissions::from_mode(mode)).unwrap();
}

struct Scenario {
    name: &'static str,
    /// (mode, offset, primary, len, nkeys, extra bytes) of a pre-existing file
    file: Option<(u32, u32, u32, u32, usize, usize)>,
    cycles: usize,
}

async fn run_scenario(sc: &Scenario, dir: &str, seed: u64, out: &mut util::NdjsonOut, summary: &mut serde_json::Map<String, Value>) {
    let path = format!("{dir}/{}.dat", sc.name);
    let mut rng = util::Rng::new(seed ^ 0x6e74);
    let mut obs = Obs { path: path.clone(), ids: vec![], next_fresh: 0, cookies: vec![] };
    let _ = std::fs::remove_file(&path);
    if let Some((mode, offset, primary, len, nkeys, extra)) = sc.file {
        let keys: Vec<Vec<u8>> = (0..nkeys).map(|_| rng.bytes(64)).collect();
        for (i, k) in keys.iter().enumerate() {
            obs.ids.push((k.clone(), 100 + i as i64));
        }
        let now = std::time::SystemTime::now().duration_since(std::time::SystemTime::UNIX_EPOCH).unwrap().as_secs();
        craft(&path, mode, offset, primary, len, &keys, now, extra);
    }
    let before_len = std::fs::metadata(&path).map(|m| m.len()).unwrap_or(0);
    out.put(&json!({"ev": "reset", "scenario": sc.name, "st": obs.st(false, true)}));
    let cfg = KeysetConfig { stale_key_count: HISTORY, key_rotation_interval: INTERVAL, key_storage_path: Some(path.clone()) };
    let mut rx = spawn(cfg).await;
    let mut raced = false;
    for step in 0..=sc.cycles {
        // each publication follows a completed store
        rx.changed().await.expect("key provider task ended");
        let ks = rx.borrow_and_update().clone();
        let u = usable(&ks);
        let load = load_view(&path, &ks);
        let st = obs.st(true, u);
        let t = if step == 0 { "Start" } else { "Cycle" };
        // Start: did the task restore the file's keys?  (visible in the file it stored)
        let res = if step == 0 {
            let restored = st["disk"]["toks"].as_array().unwrap().iter().skip(4).any(|t| t["v"].as_i64().unwrap() >= 100);
            if restored { "loaded" } else { "fresh" }
        } else {
            "-"
        };
        raced |= rx.has_changed().unwrap_or(true);
        if step == 0 {
            summary.insert(format!("{}_len_before", sc.name), json!(before_len));
            summary.insert(format!("{}_len_after", sc.name), json!(std::fs::metadata(&path).map(|m| m.len()).unwrap_or(0)));
            summary.insert(format!("{}_mode", sc.name), st["disk"]["mode"].clone());
        }
        out.put(&json!({"ev": "step", "act": {"t": t}, "st": st, "out": {"res": res, "w": -1000, "k": -1000, "load": load}, "panic": ""}));
        // cookies issued earlier against the set now published
        for c in 0..obs.cookies.len() {
            let ck = obs.cookies[c].clone();
            let r = match util::catch(|| ks.decode_cookie_pub(&ck)) {
                Err(p) => {
                    out.put(&json!({"ev": "step", "act": {"t": "Decode", "c": c + 1, "var": "intact"}, "st": obs.st(true, u),
                                    "out": {"res": "-", "w": -1000, "k": -1000, "load": "-"}, "panic": p}));
                    continue;
                }
                Ok(Ok(d)) => if same_cookie(&d, &ntp_proto::test_cookie()) { "ok" } else { "wrong" },
                Ok(Err(_)) => "err",
            };
            out.put(&json!({"ev": "step", "act": {"t": "Decode", "c": c + 1, "var": "intact"}, "st": obs.st(true, u),
                            "out": {"res": r, "w": -1000, "k": -1000, "load": "-"}, "panic": ""}));
        }
        if u {
            let c = ks.encode_cookie_pub(&ntp_proto::test_cookie());
            let w = (u32::from_be_bytes(c[0..4].try_into().unwrap()) as u64 % M) as i64;
            obs.cookies.push(c);
            out.put(&json!({"ev": "step", "act": {"t": "Issue"}, "st": obs.st(true, u),
                            "out": {"res": "cookie", "w": w, "k": -1000, "load": "-"}, "panic": ""}));
        }
        raced |= rx.has_changed().unwrap_or(true);
    }
    if raced {
        summary.insert("raced".into(), json!(true));
    }
    drop(rx);
}

async fn observe(job: &Value) {
    let dir = job["dir"].as_str().unwrap();
    std::fs::create_dir_all(dir).unwrap();
    let seed = job["seed"].as_u64().unwrap_or(0);
    let mut out = util::NdjsonOut::create(job["output"].as_str().unwrap());
    let mut summary = serde_json::Map::new();
    let top = (0u32).wrapping_sub(2); // id_offset 2^32-2: the wire id wraps at the first rotation
    let scenarios = [
        Scenario { name: "fresh", file: None, cycles: 1 },
        Scenario { name: "restore", file: Some((0o600, top, 2, 3, 3, 0)), cycles: 1 },
        Scenario { name: "garbage", file: Some((0o644, 7, 5, 1, 1, 300)), cycles: 0 },
        Scenario { name: "primary_eq_len", file: Some((0o600, 3, 1, 1, 1, 0)), cycles: 0 },
        Scenario { name: "short_keys", file: Some((0o600, 3, 1, 3, 2, 40)), cycles: 0 },
    ];
    let only = job["scenarios"].as_array().map(|a| a.iter().map(|x| x.as_str().unwrap().to_string()).collect::<Vec<_>>());
    for sc in &scenarios {
        if only.as_ref().map(|o| o.iter().any(|n| n == sc.name)).unwrap_or(true) {
            run_scenario(sc, dir, seed, &mut out, &mut summary).await;
        }
    }
    // corrupted time stamp field (C27: "corruption of every header field"): an otherwise well-formed file whose first
    // eight bytes hold an impossible time.  The start of the daemon must survive it - fresh keys or the file's keys,
    // in either case a usable key set.  The start runs as its own task so that a panic in it is data.
    for (name, t) in [("time_half", 1u64 << 63), ("time_max", u64::MAX), ("time_far", 1u64 << 40), ("time_zero", 0)] {
        if only.as_ref().map(|o| o.iter().any(|n| n == name)).unwrap_or(true) {
            let path = format!("{dir}/{name}.dat");
            let mut rng = util::Rng::new(seed ^ 0x7469_6d65);
            let keys: Vec<Vec<u8>> = (0..2).map(|_| rng.bytes(64)).collect();
            craft(&path, 0o600, 5, 1, 2, &keys, t, 0);
            let cfg = KeysetConfig { stale_key_count: HISTORY, key_rotation_interval: INTERVAL, key_storage_path: Some(path.clone()) };
            let h = tokio::spawn(async move {
                let mut rx = spawn(cfg).await;
                let _ = rx.changed().await;
                let ks = rx.borrow_and_update().clone();
                usable(&ks)
            });
            let outcome = match tokio::time::timeout(std::time::Duration::from_secs(30), h).await {
                Err(_) => "hang",
                Ok(Err(e)) if e.is_panic() => "panic",
                Ok(Err(_)) => "cancelled",
                Ok(Ok(true)) => "ok",
                Ok(Ok(false)) => "unusable",
            };
            summary.insert(name.to_string(), json!(outcome));
        }
    }
    out.finish();
    std::fs::write(job["summary"].as_str().unwrap(), serde_json::to_string(&Value::Object(summary)).unwrap()).unwrap();
}

#[test]
fn verif_nts_key_provider() {
    let job = util::job();
    let rt = tokio::runtime::Builder::new_current_thread().enable_all().build().unwrap();
    rt.block_on(async {
        match job["mode"].as_str().unwrap() {
            "observe" => observe(&job).await,
            m => panic!("unknown mode {m}"),
        }
    });
    // the provider tasks sleep in blocking threads until their next rotation; do not wait for them
    rt.shutdown_background();
}
