// verification harness (compiled into ntpd/src/daemon/config/server.rs under cfg(all(test, pendulum_project_ntpd_rs_verif)))
