// verification harness (compiled into ntpd/src/daemon/spawn/standard.rs under cfg(all(test, pendulum_project_ntpd_rs_verif)))
