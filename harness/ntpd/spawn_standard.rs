// verification harness (compiled into ntpd/src/daemon/spawn/standard.rs under cfg(all(test, pendulum_project_ntpd_rs_verif)))
//
// Harness for spec/Spawner.tla, part Standard (C36): drives the real `StandardSpawner` with
//   {"t":"TrySpawn","fail":bool,"ans":[addr..]}   try_spawn with the next DNS lookup scripted (as in spawn_pool.rs)
//   {"t":"Removed","reason":".."}                 handle_source_removed for the source created last
// and observes the SpawnEvent stream, is_complete() and the private fields `resolved` / `has_spawned`.
// Model address k is 127.0.0.k:123 (resolve_single_ntp_server connects a UDP socket to it: loopback only).
#![allow(clippy::all, dead_code)]

use super::*;
// explicit imports: do not rely on what the parent module happens to import
#[allow(unused_imports)]
use std::net::SocketAddr;
#[allow(unused_imports)]
use tokio::sync::mpsc;
use crate::daemon::config::NormalizedAddress;
use crate::daemon::spawn::SourceCreateParameters;
use ntp_proto::ProtocolVersion;
use serde_json::{Value, json};
use std::net::{IpAddr, Ipv4Addr};

#[path = "/verif/harness/common/util.rs"]
mod util;

fn sock(k: i64) -> SocketAddr {
    SocketAddr::new(IpAddr::V4(Ipv4Addr::new(127, 0, 0, k as u8)), 123)
}

fn model_addr(a: &SocketAddr) -> i64 {
    match a.ip() {
        IpAddr::V4(v4) if v4.octets()[..3] == [127, 0, 0] && a.port() == 123 => v4.octets()[3] as i64,
        _ => -1,
    }
}

struct Sut {
    sp: StandardSpawner,
    tx: mpsc::Sender<SpawnEvent>,
    rx: mpsc::Receiver<SpawnEvent>,
    last_id: Option<ClockId>,
    rt: tokio::runtime::Runtime,
}

impl Sut {
    fn new() -> Sut {
        let sp = StandardSpawner::new(
            StandardSource {
                address: NormalizedAddress::with_hardcoded_dns("server.verif.test", 123, vec![]).into(),
                ntp_version: ProtocolVersion::V4,
            },
            SourceConfig::default(),
        );
        let (tx, rx) = mpsc::channel(64);
        let rt = tokio::runtime::Builder::new_current_thread().enable_all().build().unwrap();
        Sut { sp, tx, rx, last_id: None, rt }
    }

    fn state(&self) -> Value {
        json!({"resolved": self.sp.resolved.as_ref().map(model_addr).unwrap_or(0), "spawned": self.sp.has_spawned})
    }

    fn apply(&mut self, act: &Value) -> (Value, Value, Option<String>) {
        let mut creates: Vec<Value> = vec![];
        let mut panic = None;
        match act["t"].as_str().unwrap() {
            "TrySpawn" => {
                let answer = if act["fail"].as_bool().unwrap() {
                    None
                } else {
                    Some(act["ans"].as_array().unwrap().iter().map(|k| sock(k.as_i64().unwrap())).collect())
                };
                self.sp.config.address.0.verif_script_dns(answer);
                let (sp, tx, rt) = (&mut self.sp, &self.tx, &self.rt);
                match util::catch(|| rt.block_on(sp.try_spawn(tx))) {
                    Ok(Ok(())) => {}
                    Ok(Err(e)) => panic = Some(format!("try_spawn returned an error: {e:?}")),
                    Err(p) => panic = Some(p),
                }
                while let Ok(ev) = self.rx.try_recv() {
                    let ok = ev.id == self.sp.get_id();
                    let SpawnAction::Create(params) = ev.action;
                    match params {
                        SourceCreateParameters::Ntp(p) if ok && p.nts.is_none() => {
                            self.last_id = Some(p.id);
                            creates.push(json!(model_addr(&p.addr)));
                        }
                        _ => creates.push(json!(-2)),
                    }
                }
            }
            "Removed" => {
                let reason = match act["reason"].as_str().unwrap() {
                    "Demobilized" => SourceRemovalReason::Demobilized,
                    "NetworkIssue" => SourceRemovalReason::NetworkIssue,
                    _ => SourceRemovalReason::Unreachable,
                };
                let id = self.last_id.unwrap_or_else(ClockId::new);
                let (sp, rt) = (&mut self.sp, &self.rt);
                match util::catch(|| rt.block_on(sp.handle_source_removed(SourceRemovedEvent { id, reason }))) {
                    Ok(Ok(())) => {}
                    Ok(Err(e)) => panic = Some(format!("handle_source_removed returned an error: {e:?}")),
                    Err(p) => panic = Some(p),
                }
                if self.rx.try_recv().is_ok() {
                    creates.push(json!(-2));
                }
            }
            t => panic!("unknown action {t}"),
        }
        let out = json!({"creates": creates, "complete": self.sp.is_complete()});
        (self.state(), out, panic)
    }
}

fn compare(exp_post: &Value, exp_out: &Value, st: &Value, out: &Value, panic: &Option<String>) -> Vec<String> {
    let mut d = vec![];
    if panic.is_some() {
        d.push("panic".to_string());
        return d;
    }
    for k in ["resolved", "spawned"] {
        if exp_post[k] != st[k] {
            d.push(k.to_string());
        }
    }
    for k in ["creates", "complete"] {
        if exp_out[k] != out[k] {
            d.push(format!("out.{k}"));
        }
    }
    d
}

fn replay(job: &Value) {
    let walks = util::read_ndjson(job["input"].as_str().unwrap());
    let mut out = util::NdjsonOut::create(job["output"].as_str().unwrap());
    for w in walks {
        let mut sut = Sut::new();
        let steps = w["walk"].as_array().unwrap();
        let mut fail = Value::Null;
        let mut run = 0;
        for (n, st) in steps.iter().enumerate() {
            let (obs_st, obs_out, panic) = sut.apply(&st["act"]);
            run = n + 1;
            let d = compare(&st["post"], &st["out"], &obs_st, &obs_out, &panic);
            if !d.is_empty() {
                fail = json!({"step": n, "fields": d, "observed": {"st": obs_st, "out": obs_out}, "panic": panic});
                break;
            }
        }
        out.put(&json!({"id": w["id"], "steps_run": run, "fail": fail}));
    }
    out.finish();
}

#[test]
fn verif_standard() {
    let job = util::job();
    match job["mode"].as_str().unwrap() {
        "replay" => replay(&job),
        m => panic!("unknown mode {m}"),
    }
}
