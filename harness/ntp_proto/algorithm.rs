// Harness for spec/Measure.tla (C05): every exchange enumerated by TLC at W = 8 is evaluated on the real code under the
// embeddings of DESIGN.md 5.1 ("hi": T * 2^56 - era wrap; "lo": base + T with true small differences - rounding of the
// halving, 64-bit era boundary and sign boundary between the timestamps) along three paths:
//   direct  Measurement pair -> TwoWaySourceControllerWrapper::handle_measurement -> InternalMeasurement
//   e2e     a real server-mode datagram carrying T2 / T3 -> NtpSource::handle_incoming(msg, T1, T4)
//           (measurements_from_packet) -> the same wrapper -> InternalMeasurement
//   oneway  Measurement -> OneWaySourceControllerWrapper::handle_measurement
// Compiled into ntp-proto/src/algorithm/mod.rs under cfg(all(test, pendulum_project_ntpd_rs_verif)).
#![allow(clippy::all, dead_code)]

use super::{
    InternalMeasurement, InternalSourceController, Measurement, ObservableSourceTimedata, OneWaySourceControllerWrapper, SourceController,
    TwoWaySourceControllerWrapper,
};
use crate::config::{SourceConfig, SynchronizationConfig};
use crate::source::{NtpSource, NtpSourceAction, ProtocolVersion};
use crate::system::NtpManager;
use crate::time_types::{NtpDuration, NtpTimestamp, PollInterval, PollIntervalLimits};
use crate::{ClockId, NtpLeapIndicator};
use serde_json::{Value, json};
use std::net::{IpAddr, Ipv4Addr, SocketAddr};
use std::sync::{Arc, Mutex};

#[path = "/verif/harness/common/util.rs"]
mod util;
#[path = "/verif/harness/common/wire.rs"]
mod wire;
// spec/CtlLoop.tla (C37): the wrapper's message loop in fine-grained steps.  Relative path: resolved next to this file, in the
// shared tree and in a private workspace alike.
#[path = "ctlloop.rs"]
mod ctlloop;
use util::{Rng, i, s};

struct Rec<D: std::fmt::Debug + Copy + Send + 'static> {
    last: Option<InternalMeasurement<D>>,
    count: usize,
}

impl<D: std::fmt::Debug + Copy + Send + 'static> InternalSourceController for Rec<D> {
    type ControllerMessage = ();
    type SourceMessage = ();
    type MeasurementDelay = D;
    fn handle_message(&mut self, _m: ()) {}
    fn handle_measurement(&mut self, m: InternalMeasurement<D>) -> Option<()> {
        self.last = Some(m);
        self.count += 1;
        None
    }
    fn desired_poll_interval(&self) -> PollInterval {
        PollInterval::from_byte(4)
    }
    fn observe(&self) -> ObservableSourceTimedata {
        Default::default()
    }
}

fn t(x: u64) -> NtpTimestamp {
    NtpTimestamp::from_fixed_int(x)
}
fn d(x: i64) -> NtpDuration {
    NtpDuration::from_fixed_int(x)
}
/// diagnostic only: the integer value of a duration (through timestamp addition)
fn dur_int(x: NtpDuration) -> i64 {
    u64::from_be_bytes((t(0) + x).to_bits()) as i64
}

fn meas(sender: ClockId, receiver: ClockId, s_ts: u64, r_ts: u64) -> Measurement {
    Measurement {
        sender_id: sender,
        receiver_id: receiver,
        sender_ts: t(s_ts),
        receiver_ts: t(r_ts),
        root_delay: d(0),
        root_dispersion: d(0),
        leap: NtpLeapIndicator::NoWarning,
        precision: -20,
    }
}

type Two = TwoWaySourceControllerWrapper<Rec<NtpDuration>>;

fn two_way() -> (Two, Arc<Mutex<Rec<NtpDuration>>>, tokio::sync::mpsc::UnboundedReceiver<(ClockId, super::WrapperMessage<()>)>) {
    let inner = Arc::new(Mutex::new(Rec { last: None, count: 0 }));
    let (tx, rx) = tokio::sync::mpsc::unbounded_channel();
    (TwoWaySourceControllerWrapper { id: ClockId(1), inner: inner.clone(), last_outgoing_measurement: None, messages_for_system: tx }, inner, rx)
}

struct E2e {
    source: NtpSource<Two>,
    inner: Arc<Mutex<Rec<NtpDuration>>>,
    _rx: tokio::sync::mpsc::UnboundedReceiver<(ClockId, super::WrapperMessage<()>)>,
}

impl E2e {
    fn new() -> Self {
        let ips: Arc<[IpAddr]> = Arc::from(vec![IpAddr::V4(Ipv4Addr::new(10, 0, 0, 1))]);
        let mgr = NtpManager::new(SynchronizationConfig::default(), ips);
        let limits = PollIntervalLimits { min: PollInterval::from_byte(4), max: PollInterval::from_byte(10) };
        let scfg = SourceConfig { poll_interval_limits: limits, initial_poll_interval: limits.min };
        let (w, inner, rx) = two_way();
        let addr = SocketAddr::new(IpAddr::V4(Ipv4Addr::new(10, 0, 0, 2)), 123);
        let (source, _) = mgr.new_source(addr, scfg, ProtocolVersion::V4, w, None, ClockId(1));
        E2e { source, inner, _rx: rx }
    }

    /// one exchange; returns the measurement that reached the inner controller (None: none was delivered)
    fn exchange(&mut self, ts: [u64; 4]) -> Result<Option<InternalMeasurement<NtpDuration>>, String> {
        let before = self.inner.lock().unwrap().count;
        let source = &mut self.source;
        let actions: Vec<NtpSourceAction> = util::catch(|| source.handle_timer().collect())?;
        let Some(req) = actions.iter().find_map(|a| if let NtpSourceAction::Send(b) = a { Some(b.clone()) } else { None }) else {
            return Ok(None);
        };
        let mut h = wire::Hdr::new(4, 4);
        h.stratum = 2;
        h.poll = req[2];
        h.word3 = [192, 168, 7, 7];
        h.origin = req[40..48].try_into().unwrap();
        h.recv = ts[1].to_be_bytes();
        h.xmit = ts[2].to_be_bytes();
        let bytes = h.bytes();
        let _: Vec<NtpSourceAction> = util::catch(|| source.handle_incoming(&bytes, t(ts[0]), t(ts[3])).collect())?;
        let g = self.inner.lock().unwrap();
        Ok(if g.count == before + 1 { g.last } else { None })
    }
}

fn direct(ts: [u64; 4]) -> Result<Option<InternalMeasurement<NtpDuration>>, String> {
    let (mut w, inner, _rx) = two_way();
    util::catch(|| {
        w.handle_measurement(meas(ClockId::SYSTEM, ClockId(1), ts[0], ts[1]));
        w.handle_measurement(meas(ClockId(1), ClockId::SYSTEM, ts[2], ts[3]));
    })?;
    let g = inner.lock().unwrap();
    Ok(g.last)
}

fn one_way(remote: u64, local: u64) -> Result<Option<InternalMeasurement<()>>, String> {
    let inner = Arc::new(Mutex::new(Rec::<()> { last: None, count: 0 }));
    let (tx, _rx) = tokio::sync::mpsc::unbounded_channel();
    let mut w = OneWaySourceControllerWrapper { id: ClockId(2), inner: inner.clone(), messages_for_system: tx };
    util::catch(|| w.handle_measurement(meas(ClockId(2), ClockId::SYSTEM, remote, local)))?;
    let g = inner.lock().unwrap();
    Ok(g.last)
}

/// Compares one delivered measurement with the expectation; `sum2` = the exact doubled offset (T2-T1)+(T3-T4) in real units.
fn judge(path: &'static str, emb: &'static str, r: Result<Option<InternalMeasurement<NtpDuration>>, String>, sum2: i64, delay: i64, t4: u64,
         fails: &mut Vec<Value>) {
    match r {
        Err(p) => fails.push(json!({"path": path, "emb": emb, "field": "panic", "panic": p})),
        Ok(None) => fails.push(json!({"path": path, "emb": emb, "field": "missing"})),
        Ok(Some(m)) => {
            let trunc = sum2 / 2;
            let floor = sum2.div_euclid(2);
            let ceil = -((-sum2).div_euclid(2));
            if m.offset != d(trunc) {
                let field = if m.offset == d(floor) || m.offset == d(ceil) { "offset_rounding" } else { "offset" };
                fails.push(json!({"path": path, "emb": emb, "field": field, "observed": dur_int(m.offset).to_string(), "expected_sum": sum2.to_string()}));
            }
            if m.delay != d(delay) {
                fails.push(json!({"path": path, "emb": emb, "field": "delay", "observed": dur_int(m.delay).to_string(), "expected": delay.to_string()}));
            }
            if m.localtime != t(t4) {
                fails.push(json!({"path": path, "emb": emb, "field": "localtime"}));
            }
        }
    }
}

fn replay(job: &Value) {
    let mut out = util::NdjsonOut::create(job["output"].as_str().unwrap());
    let seed = job["seed"].as_u64().unwrap_or(0);
    let mut rng = Rng::new(seed ^ 0xC05);
    let mut e2e = E2e::new();
    use std::io::BufRead;
    let file = std::fs::File::open(job["input"].as_str().unwrap()).expect("input");
    let (mut cases, mut evals, mut odd) = (0u64, 0u64, 0u64);
    for line in std::io::BufReader::new(file).lines() {
        let line = line.unwrap();
        if line.trim().is_empty() {
            continue;
        }
        let c: Value = serde_json::from_str(&line).unwrap();
        let act = &c["act"];
        let o = &c["out"];
        cases += 1;
        let mut fails: Vec<Value> = vec![];
        let t1 = i(act, "t1");
        let a = i(act, "a");
        // bases of the "lo" embedding: zero (negative true times wrap below 2^64), the sign boundary, just below 2^64, random
        let bases = [0u64, (1u64 << 63).wrapping_sub(t1 as u64 + 3), u64::MAX - 64, rng.next()];
        let base = bases[(cases % 4) as usize];
        if s(act, "t") == "twoway" {
            let (b, cc) = (i(act, "b"), i(act, "c"));
            let (sum, delay) = (i(o, "sum"), i(o, "delay"));
            odd += (sum % 2 != 0) as u64;
            // hi: the model's words shifted to the top of the 64-bit word
            let hi = [(t1 as u64) << 56, (i(o, "t2") as u64) << 56, (i(o, "t3") as u64) << 56, (i(o, "t4") as u64) << 56];
            judge("direct", "hi", direct(hi), sum << 56, delay << 56, hi[3], &mut fails);
            judge("e2e", "hi", e2e.exchange(hi), sum << 56, delay << 56, hi[3], &mut fails);
            // lo: true (unwrapped) times added to a base
            let u = [t1, t1 + a, t1 + a + b, t1 + a + b + cc];
            let lo = [base.wrapping_add(u[0] as u64), base.wrapping_add(u[1] as u64), base.wrapping_add(u[2] as u64), base.wrapping_add(u[3] as u64)];
            judge("direct", "lo", direct(lo), sum, delay, lo[3], &mut fails);
            judge("e2e", "lo", e2e.exchange(lo), sum, delay, lo[3], &mut fails);
            evals += 4;
        } else {
            let off = i(o, "offset");
            let local = i(o, "local");
            for (emb, remote_ts, local_ts, exp) in [
                ("hi", (t1 as u64) << 56, (local as u64) << 56, off << 56),
                ("lo", base.wrapping_add(t1 as u64), base.wrapping_add((t1 + a) as u64), off),
            ] {
                evals += 1;
                match one_way(remote_ts, local_ts) {
                    Err(p) => fails.push(json!({"path": "oneway", "emb": emb, "field": "panic", "panic": p})),
                    Ok(None) => fails.push(json!({"path": "oneway", "emb": emb, "field": "missing"})),
                    Ok(Some(m)) => {
                        if m.offset != d(exp) {
                            fails.push(json!({"path": "oneway", "emb": emb, "field": "offset", "observed": dur_int(m.offset).to_string(), "expected": exp.to_string()}));
                        }
                        if m.localtime != t(local_ts) {
                            fails.push(json!({"path": "oneway", "emb": emb, "field": "localtime"}));
                        }
                    }
                }
            }
        }
        for mut f in fails {
            f["id"] = c["id"].clone();
            f["act"] = act.clone();
            f["out"] = o.clone();
            out.put(&f);
        }
    }
    out.put(&json!({"summary": true, "cases": cases, "evaluations": evals, "odd_sums": odd}));
    out.finish();
}

#[test]
fn verif_measure() {
    let job = util::job();
    match s(&job, "mode").as_str() {
        "replay" => replay(&job),
        other => panic!("unknown mode {other}"),
    }
}
