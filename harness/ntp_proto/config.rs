// verification harness (compiled into ntp-proto/src/config.rs under cfg(all(test, pendulum_project_ntpd_rs_verif)))
//
// Harness for spec/ConfigThresholds.tla (C39), path "proto": feeds every threshold class [key, form, val] straight into
// the serde visitors of StepThreshold / ThresholdPart and of the accumulated-threshold helper, through serde's value
// deserializers (a float deserializer can carry NaN and infinities, as a TOML document can), and reports
// verdict ok / err / panic and the class (none / zero / pos / neg) of the accepted forward and backward limits.
#![allow(clippy::all, dead_code)]

use super::*;
use serde::de::value::{Error as VErr, MapDeserializer};
use serde::de::IntoDeserializer;
use serde_json::{Value, json};

#[path = "/verif/harness/common/util.rs"]
mod util;

#[derive(Clone, Debug)]
enum V {
    F(f64),
    I(i64),
    S(String),
    B(bool),
}

struct VDe(V);

impl<'de> Deserializer<'de> for VDe {
    type Error = VErr;
    fn deserialize_any<Vis: Visitor<'de>>(self, v: Vis) -> Result<Vis::Value, VErr> {
        match self.0 {
            V::F(x) => v.visit_f64(x),
            V::I(x) => v.visit_i64(x),
            V::S(s) => v.visit_string(s),
            V::B(b) => v.visit_bool(b),
        }
    }
    serde::forward_to_deserialize_any! {
        bool i8 i16 i32 i64 i128 u8 u16 u32 u64 u128 f32 f64 char str string bytes byte_buf option unit unit_struct
        newtype_struct seq tuple tuple_struct map struct enum identifier ignored_any
    }
}

impl<'de> IntoDeserializer<'de, VErr> for V {
    type Deserializer = VDe;
    fn into_deserializer(self) -> VDe {
        VDe(self)
    }
}

pub(crate) fn value_of(class: &str) -> V {
    match class {
        "neg" => V::F(-1.5),
        "negint" => V::I(-3),
        "negzero" => V::F(-0.0),
        "zero" => V::F(0.0),
        "pos" => V::F(2.25),
        "posint" => V::I(7),
        "pinf" => V::F(f64::INFINITY),
        "ninf" => V::F(f64::NEG_INFINITY),
        "nan" => V::F(f64::NAN),
        "infstr" => V::S("inf".to_string()),
        "otherstr" => V::S("many".to_string()),
        "bool" => V::B(true),
        c => panic!("unknown value class {c}"),
    }
}

fn cls(d: Option<NtpDuration>) -> &'static str {
    match d {
        None => "none",
        Some(d) if d < NtpDuration::ZERO => "neg",
        Some(d) if d == NtpDuration::ZERO => "zero",
        Some(_) => "pos",
    }
}

fn pairs(form: &str, v: V) -> Vec<(String, V)> {
    match form {
        "fwd" => vec![("forward".to_string(), v)],
        "bwd" => vec![("backward".to_string(), v)],
        "both" => vec![("forward".to_string(), v), ("backward".to_string(), V::F(1.5))],
        "both2" => vec![("forward".to_string(), V::F(2.5)), ("backward".to_string(), v)],
        f => panic!("unknown form {f}"),
    }
}

fn load(c: &Value) -> (Value, Option<String>) {
    let key = c["key"].as_str().unwrap().to_string();
    let form = c["form"].as_str().unwrap().to_string();
    let v = value_of(c["val"].as_str().unwrap());
    let r = util::catch(move || -> Result<(Option<NtpDuration>, Option<NtpDuration>), String> {
        if key == "accumulated-step-panic-threshold" {
            let d = if form == "number" {
                deserialize_option_accumulated_step_panic_threshold(VDe(v))
            } else {
                deserialize_option_accumulated_step_panic_threshold(MapDeserializer::<_, VErr>::new(pairs(&form, v).into_iter()))
            }
            .map_err(|e| e.to_string())?;
            Ok((d, d))
        } else {
            let t = if form == "number" {
                StepThreshold::deserialize(VDe(v))
            } else {
                StepThreshold::deserialize(MapDeserializer::<_, VErr>::new(pairs(&form, v).into_iter()))
            }
            .map_err(|e| e.to_string())?;
            Ok((t.forward, t.backward))
        }
    });
    match r {
        Ok(Ok((f, b))) => (json!({"verdict": "ok", "fwd": cls(f), "bwd": cls(b)}), None),
        Ok(Err(e)) => (json!({"verdict": "err", "fwd": "-", "bwd": "-", "error": e}), None),
        Err(p) => (json!({"verdict": "panic", "fwd": "-", "bwd": "-"}), Some(p)),
    }
}

fn replay(job: &Value) {
    let rows = util::read_ndjson(job["input"].as_str().unwrap());
    let mut out = util::NdjsonOut::create(job["output"].as_str().unwrap());
    for r in rows {
        let (obs, panic) = load(&r["act"]["c"]);
        let mut d: Vec<String> = vec![];
        if panic.is_some() {
            d.push("panic".to_string());
        }
        for k in ["verdict", "fwd", "bwd"] {
            if r["out"][k] != obs[k] {
                d.push(format!("out.{k}"));
            }
        }
        out.put(&json!({"id": r["id"], "fields": d, "observed": obs, "panic": panic}));
    }
    out.finish();
}

#[test]
fn verif_config() {
    let job = util::job();
    match job["mode"].as_str().unwrap() {
        "replay" => replay(&job),
        m => panic!("unknown mode {m}"),
    }
}
