// verification harness (compiled into ntp-proto/src/packet/extension_fields.rs under cfg(all(test, pendulum_project_ntpd_rs_verif)))
