// Harness for spec/Source.tla: drives the real `NtpSource` with the abstract actions of the specification
// (Timer / Recv / Tick), observes what it returns and its (private) state, and
//   * mode "replay": compares with the specification's expectation for every step of TLC-generated walks;
//   * mode "record": runs seeded random sessions and logs them as ndjson traces for TLC to validate.
// Compiled into ntp-proto/src/source.rs under cfg(all(test, pendulum_project_ntpd_rs_verif)).
#![allow(clippy::all, dead_code)]

use super::*;
use crate::packet::{AesSivCmac256, Cipher};
use crate::time_types::PollIntervalLimits;
use serde_json::{Value, json};
use std::collections::VecDeque;
use std::net::Ipv4Addr;
// explicit imports: do not rely on what the parent module happens to import
#[allow(unused_imports)]
use std::net::{IpAddr, SocketAddr};
#[allow(unused_imports)]
use std::sync::{Arc, Mutex};

#[path = "/verif/harness/common/util.rs"]
mod util;
#[path = "/verif/harness/common/wire.rs"]
mod wire;

// the composition Source || Server || KeySet (spec/Assoc.tla) reuses the client driver of this file
#[path = "/verif/harness/ntp_proto/assoc.rs"]
mod assoc;

use util::{Rng, b, i, s};
use wire::{Ef, Hdr};

#[derive(Default)]
struct CtlInner {
    desired: i8,
    meas: usize,
    usable: Option<bool>,
}

#[derive(Clone)]
struct RecCtl(Arc<Mutex<CtlInner>>);

impl SourceController for RecCtl {
    fn handle_measurement(&mut self, _m: Measurement) {
        self.0.lock().unwrap().meas += 1;
    }
    fn set_usable(&mut self, usable: bool) {
        self.0.lock().unwrap().usable = Some(usable);
    }
    fn desired_poll_interval(&self) -> PollInterval {
        PollInterval::from_byte(self.0.lock().unwrap().desired as u8)
    }
    fn observe(&self) -> crate::algorithm::ObservableSourceTimedata {
        Default::default()
    }
}

#[derive(Clone)]
struct ReqId {
    origin: [u8; 8],
    uid: Option<Vec<u8>>,
}

pub(crate) struct Cfg {
    mode: String,
    min_poll: i8,
    max_poll: i8,
    local_stratum: u8,
    src_local: bool,
    init_cookies: Vec<i64>,
}

impl Cfg {
    fn from(v: &Value) -> Self {
        Cfg {
            mode: s(v, "Mode"),
            min_poll: i(v, "MinPoll") as i8,
            max_poll: i(v, "MaxPoll") as i8,
            local_stratum: i(v, "LocalStratum") as u8,
            src_local: b(v, "SrcLocal"),
            init_cookies: v["init_stash"].as_array().map(|a| a.iter().map(|x| x.as_i64().unwrap()).collect()).unwrap_or_default(),
        }
    }
    fn nts(&self) -> bool {
        self.mode.starts_with("Nts")
    }
}

const LOCAL_IP: [u8; 4] = [10, 0, 0, 1];
const LOCAL_IP6: [u8; 16] = [0x20, 0x01, 0x0d, 0xb8, 0, 0, 0, 0, 0, 0, 0, 0, 0, 0, 0, 0x17];
const S2C_KEY: [u8; 32] = [7; 32];
const C2S_KEY: [u8; 32] = [9; 32];
const OTHER_KEY: [u8; 32] = [11; 32];

fn cookie_bytes(c: i64) -> Vec<u8> {
    // cookie integer = identity * 2048 + length; bytes: 8-byte big-endian integer then filler
    let len = (c % 2048) as usize;
    let mut v = vec![0xC0u8; len];
    let tag = c.to_be_bytes();
    for (k, byte) in tag.iter().enumerate() {
        if k < len {
            v[k] = *byte;
        }
    }
    v
}

fn cookie_int(bytes: &[u8]) -> i64 {
    if bytes.len() >= 8 {
        i64::from_be_bytes(bytes[..8].try_into().unwrap())
    } else {
        -3
    }
}

pub(crate) struct Sut {
    cfg: Cfg,
    src: NtpSource<RecCtl>,
    ctl: Arc<Mutex<CtlInner>>,
    cur: Option<ReqId>,
    old: Option<ReqId>,
    sent_at: tokio::time::Instant,
    rng: Rng,
    /// model-side view of which cookie identities are in the stash (only used when the expectation does not
    /// carry identities, i.e. in replay of the bounded model)
    mirror: VecDeque<i64>,
    next_cookie_id: i64,
    with_ids: bool,
}

impl Sut {
    pub(crate) fn new(cfg: Cfg, seed: u64, with_ids: bool) -> Self {
        let ctl = Arc::new(Mutex::new(CtlInner { desired: cfg.min_poll, ..Default::default() }));
        let sync = crate::config::SynchronizationConfig { local_stratum: cfg.local_stratum, ..Default::default() };
        // this daemon has an address in each family; a looping source may name either of them as its reference
        let ips: Arc<[IpAddr]> = Arc::from(vec![
            IpAddr::V6(std::net::Ipv6Addr::from(LOCAL_IP6)),
            IpAddr::V4(Ipv4Addr::from(LOCAL_IP)),
        ]);
        let mgr = crate::system::NtpManager::new(sync, ips);
        let addr = if cfg.src_local { Ipv4Addr::from(LOCAL_IP) } else { Ipv4Addr::new(10, 0, 0, 2) };
        let limits = PollIntervalLimits {
            min: PollInterval::from_byte(cfg.min_poll as u8),
            max: PollInterval::from_byte(cfg.max_poll as u8),
        };
        let scfg = SourceConfig { poll_interval_limits: limits, initial_poll_interval: limits.min };
        let pv = match cfg.mode.as_str() {
            "PlainV4" | "NtsV4" => ProtocolVersion::V4,
            "PlainV5" | "NtsV5" => ProtocolVersion::V5,
            _ => ProtocolVersion::v4_upgrading_to_v5_with_default_tries(),
        };
        let mut mirror = VecDeque::new();
        let mut next_cookie_id = 1;
        let nts = if cfg.nts() {
            let mut cookies = CookieStash::default();
            for c in &cfg.init_cookies {
                let c = if with_ids { *c } else { next_cookie_id * 2048 + (*c % 2048) };
                next_cookie_id += 1;
                cookies.store(cookie_bytes(c));
                mirror.push_back(c);
            }
            Some(Box::new(SourceNtsData {
                cookies,
                c2s: Box::new(AesSivCmac256::new(C2S_KEY.into())),
                s2c: Box::new(AesSivCmac256::new(S2C_KEY.into())),
            }))
        } else {
            None
        };
        let (src, _actions) = mgr.new_source(SocketAddr::new(IpAddr::V4(addr), 123), scfg, pv, RecCtl(ctl.clone()), nts, ClockId(1));
        Sut {
            cfg,
            src,
            ctl,
            cur: None,
            old: None,
            sent_at: tokio::time::Instant::now(),
            rng: Rng::new(seed),
            mirror,
            next_cookie_id,
            with_ids,
        }
    }

    fn state(&self) -> Value {
        let src = &self.src;
        let (proto, k) = match src.protocol_version {
            ProtocolVersion::V4 => ("V4", 0),
            ProtocolVersion::V4UpgradingToV5 { tries_left } => ("Upg", tries_left as i64),
            ProtocolVersion::UpgradedToV5 => ("Upgraded", 0),
            ProtocolVersion::V5 => ("V5", 0),
        };
        let since = if src.reach.is_reachable() { src.reach.unanswered_polls() as i64 } else { 8 };
        let now = tokio::time::Instant::now();
        let pend = match src.current_request_identifier {
            None => 0,
            Some((_, validity)) => {
                if validity > now {
                    1
                } else if validity == now {
                    2
                } else {
                    3
                }
            }
        };
        let local_ref = ReferenceId::from_ip(IpAddr::V4(Ipv4Addr::from(LOCAL_IP)));
        let local_ref6 = ReferenceId::from_ip(IpAddr::V6(std::net::Ipv6Addr::from(LOCAL_IP6)));
        json!({
            "proto": proto, "k": k, "since": since, "tries": src.tries.min(3) as i64, "pend": pend,
            "deny": src.have_deny_rstr_response,
            "remoteMin": src.remote_min_poll_interval.as_log() as i64,
            "lastPoll": src.last_poll_interval.as_log() as i64,
            "stashLen": src.nts.as_ref().map(|n| n.cookies.len() as i64).unwrap_or(0),
            "stratum": src.stratum as i64,
            "refLocal": src.reference_id == local_ref || src.reference_id == local_ref6,
            "obs_unanswered": src.observe("x".into(), ClockId(1)).unanswered_polls as i64,
        })
    }

    fn no_out() -> Value {
        json!({"actions": [], "ver": 0, "poll": 0, "marker": false, "cookie": -1, "placeholders": 0,
               "usable": "none", "meas": 0, "stored": 0, "len": 0, "timer_ok": true})
    }

    fn take_ctl(&self) -> (usize, Option<bool>) {
        let mut c = self.ctl.lock().unwrap();
        let r = (c.meas, c.usable);
        c.meas = 0;
        c.usable = None;
        r
    }

    async fn timer(&mut self, desired: i64, expect_cookie: Option<i64>) -> Result<Value, String> {
        self.ctl.lock().unwrap().desired = desired as i8;
        let src = &mut self.src;
        let actions: Vec<NtpSourceAction> = util::catch(|| src.handle_timer().collect())?;
        let mut out = Self::no_out();
        let mut names = vec![];
        for a in &actions {
            match a {
                NtpSourceAction::Send(buf) => {
                    names.push("Send");
                    self.sent_at = tokio::time::Instant::now();
                    let ver = (buf[0] >> 3) & 7;
                    out["ver"] = json!(ver);
                    out["poll"] = json!(buf[2] as i8);
                    out["len"] = json!(buf.len());
                    out["marker"] = json!(ver == 4 && &buf[16..24] == b"NTP5DRFT");
                    let origin: [u8; 8] = if ver == 5 { buf[24..32].try_into().unwrap() } else { buf[40..48].try_into().unwrap() };
                    let mut uid = None;
                    let mut placeholders = 0;
                    let mut cookie: i64 = -1;
                    let mut clen = 0usize;
                    let mut cookie_field: Vec<u8> = vec![];
                    for (ty, body) in wire::fields(buf, 48) {
                        match ty {
                            0x0104 => uid = Some(body[..32.min(body.len())].to_vec()),
                            0x0204 => {
                                cookie = cookie_int(&body);
                                clen = body.len();
                                cookie_field = body.clone();
                            }
                            0x0304 => {
                                placeholders += 1;
                                if body.len() != clen {
                                    placeholders += 1000; // placeholder of the wrong size: make it visible
                                }
                            }
                            _ => {}
                        }
                    }
                    if self.cfg.nts() {
                        // identity: the cookie sent must be the oldest one held
                        let head = self.mirror.pop_front();
                        if self.with_ids {
                            out["cookie"] = json!(cookie);
                        } else {
                            out["cookie"] = match (head, expect_cookie) {
                                (Some(h), Some(e)) if h == cookie => json!(e),
                                // cookies shorter than 8 bytes cannot carry an identity: only their length is checked
                                // (the field body is the cookie followed by padding up to the minimum field size)
                                (Some(h), Some(e)) if (h % 2048) < 8 && cookie_field.starts_with(&cookie_bytes(h)) => json!(e),
                                _ => json!(-2),
                            };
                        }
                    }
                    out["placeholders"] = json!(placeholders);
                    self.old = self.cur.take();
                    self.cur = Some(ReqId { origin, uid });
                }
                NtpSourceAction::SetTimer(d) => {
                    names.push("SetTimer");
                    let p = out["poll"].as_i64().unwrap_or(0);
                    // the timer works in whole seconds with exponents 0..=31 (68 years): larger requested
                    // intervals are scheduled at that cap (reading of C10 taken; see DESIGN.md)
                    let base = 2f64.powi(p.clamp(0, 31) as i32);
                    let secs = d.as_secs_f64();
                    out["timer_ok"] = json!(secs >= 1.01 * base - 1e-6 && secs <= 1.05 * base + 1e-6);
                }
                NtpSourceAction::Reset => names.push("Reset"),
                NtpSourceAction::Demobilize => names.push("Demobilize"),
            }
        }
        if self.cfg.nts() && !names.contains(&"Send") && names.contains(&"Reset") {
            // a cookie may have been consumed without being sent (oversized cookie): keep the mirror aligned
            let held = self.src.nts.as_ref().map(|n| n.cookies.len()).unwrap_or(0);
            while self.mirror.len() > held {
                self.mirror.pop_front();
            }
        }
        out["actions"] = json!(names);
        let (meas, usable) = self.take_ctl();
        out["meas"] = json!(meas);
        out["usable"] = json!(match usable { None => "none", Some(true) => "yes", Some(false) => "no" });
        Ok(out)
    }

    fn build(&mut self, p: &Value) -> (Vec<u8>, Vec<i64>) {
        let ver = i(p, "ver") as u8;
        if s(p, "parse") == "garbage" {
            let mut g = self.rng.bytes(47);
            g[0] = (ver << 3) | 4;
            return (g, vec![]);
        }
        let mode = if s(p, "mode") == "server" { 4 } else { 3 };
        let mut h = Hdr::new(ver, mode);
        let stratum = i(p, "stratum") as u8;
        h.stratum = stratum;
        let id = s(p, "id");
        let req = match id.as_str() {
            "cur" => self.cur.clone(),
            "old" => self.old.clone(),
            _ => None,
        };
        let random_origin: [u8; 8] = self.rng.bytes(8).try_into().unwrap();
        h.origin = match (&req, id.as_str()) {
            (Some(r), "cur") | (Some(r), "old") => r.origin,
            _ => random_origin,
        };
        h.recv = [0xE0, 0, 0, 1, 0, 0, 0, 0];
        h.xmit = [0xE0, 0, 0, 1, 0, 0, 0x10, 0];
        let code = s(p, "code");
        if ver == 5 {
            h.poll = i(p, "poll") as u8;
            let mut flags = 0u8;
            if (1..16).contains(&stratum) {
                flags |= 1;
            }
            if b(p, "authnak") {
                flags |= 4;
            }
            h.word3 = [0, 0, 0, flags];
            h.word4 = self.rng.bytes(8).try_into().unwrap();
            if stratum == 0 || stratum >= 16 {
                h.leap = 3;
            }
        } else {
            h.poll = self.src.last_poll_interval.as_byte();
            if stratum == 0 || code != "none" {
                // (a KISS code string in the reference id of a non-KISS packet is just a reference id)
                h.word3 = code.as_bytes()[..4].try_into().unwrap();
            } else if b(p, "refLocal") {
                // the reference id of either of our addresses (IPv6: first four bytes of its MD5)
                h.word3 = if self.rng.chance(1, 2) {
                    LOCAL_IP
                } else {
                    ReferenceId::from_ip(IpAddr::V6(std::net::Ipv6Addr::from(LOCAL_IP6))).to_bytes()
                };
            } else {
                h.word3 = [192, 168, 7, 7];
            }
            if b(p, "marker") {
                h.word4 = *b"NTP5DRFT";
            }
        }
        // unique identifiers: "ok" = the uid of the latest request, "bad" = another one
        let cur_uid = self.cur.as_ref().and_then(|r| r.uid.clone());
        let mut uid_for = |k: &str, rng: &mut Rng| -> Option<Ef> {
            match s(p, k).as_str() {
                "ok" => Some(Ef::Uid(cur_uid.clone().unwrap_or_else(|| rng.bytes(32)))),
                "bad" => Some(Ef::Uid(rng.bytes(32))),
                _ => None,
            }
        };
        let mut rng = Rng(self.rng.next() | 1);
        let mut auth: Vec<Ef> = vec![];
        let mut enc: Vec<Ef> = vec![];
        let mut unt: Vec<Ef> = vec![];
        if let Some(u) = uid_for("ua", &mut rng) {
            auth.push(u);
        }
        if let Some(u) = uid_for("ue", &mut rng) {
            enc.push(u);
        }
        if let Some(u) = uid_for("uu", &mut rng) {
            unt.push(u);
        }
        let mut delivered_enc = vec![];
        let mut mk_cookie = |c: &Value, me: &mut Self| -> (Ef, i64) {
            let c = c.as_i64().unwrap();
            let c = if me.with_ids && c >= 2048 {
                c
            } else {
                let id = me.next_cookie_id;
                me.next_cookie_id += 1;
                id * 2048 + (c % 2048)
            };
            (Ef::Cookie(cookie_bytes(c)), c)
        };
        for c in p["cAuth"].as_array().unwrap() {
            auth.push(mk_cookie(c, self).0);
        }
        for c in p["cEnc"].as_array().unwrap() {
            let (ef, cid) = mk_cookie(c, self);
            enc.push(ef);
            delivered_enc.push(cid);
        }
        for c in p["cUnt"].as_array().unwrap() {
            unt.push(mk_cookie(c, self).0);
        }
        let seal = s(p, "seal");
        let sealed = seal != "none";
        if ver == 5 && b(p, "draft") {
            if sealed { auth.push(Ef::Draft(wire::DRAFT.to_vec())) } else { unt.push(Ef::Draft(wire::DRAFT.to_vec())) }
        }
        let s2c = AesSivCmac256::new(S2C_KEY.into());
        let other = AesSivCmac256::new(OTHER_KEY.into());
        let (mut bytes, lay) = if sealed {
            let c: &dyn Cipher = if seal == "other" { &other } else { &s2c };
            wire::datagram(&h, &auth, Some((c, &enc)), &unt)
        } else {
            let mut all = auth.clone();
            all.extend(unt.clone());
            wire::datagram(&h, &[], None, &all)
        };
        if seal == "tampered" {
            // flip one bit somewhere in the authenticated region or the ciphertext
            let a = lay.authenticator.unwrap();
            let choices = [1usize, 40, a[4], a[5] - 1, a[2]];
            let pos = *rng.pick(&choices);
            bytes[pos] ^= 0x10;
        }
        (bytes, delivered_enc)
    }

    fn recv(&mut self, p: &Value, expect_stored: Option<i64>) -> Result<Value, String> {
        let (bytes, delivered) = self.build(p);
        let before = self.src.nts.as_ref().map(|n| n.cookies.len()).unwrap_or(0);
        let src = &mut self.src;
        let send_ts = NtpTimestamp::from_bits([0xE0, 0, 0, 0, 0xFF, 0, 0, 0]);
        let recv_ts = NtpTimestamp::from_bits([0xE0, 0, 0, 1, 0x20, 0, 0, 0]);
        let actions: Vec<NtpSourceAction> = util::catch(|| src.handle_incoming(&bytes, send_ts, recv_ts).collect())?;
        let mut out = Self::no_out();
        let names: Vec<&str> = actions
            .iter()
            .map(|a| match a {
                NtpSourceAction::Send(_) => "Send",
                NtpSourceAction::SetTimer(_) => "SetTimer",
                NtpSourceAction::Reset => "Reset",
                NtpSourceAction::Demobilize => "Demobilize",
            })
            .collect();
        out["actions"] = json!(names);
        let (meas, usable) = self.take_ctl();
        out["meas"] = json!(meas);
        out["usable"] = json!(match usable { None => "none", Some(true) => "yes", Some(false) => "no" });
        // cookies stored: observable as growth of the stash (bounded by the cap) ...
        let after = self.src.nts.as_ref().map(|n| n.cookies.len()).unwrap_or(0);
        let grew = after as i64 - before as i64;
        // ... the specification says how many it expects to be taken from the encrypted part
        let stored_model = match expect_stored {
            Some(n) => n,
            None => if meas > 0 && self.cfg.nts() { delivered.len() as i64 } else { 0 },
        };
        let cap_growth = (before as i64 + stored_model).min(8) - before as i64;
        out["stored"] = if grew == cap_growth { json!(stored_model) } else { json!(grew) };
        if self.cfg.nts() {
            for c in delivered.iter().take(stored_model.max(0) as usize) {
                self.mirror.push_back(*c);
            }
            while self.mirror.len() > 8 {
                self.mirror.pop_front();
            }
        }
        Ok(out)
    }

    async fn tick(&mut self, n: i64) -> Result<Value, String> {
        let now = tokio::time::Instant::now();
        let window_end = self.sent_at + std::time::Duration::from_secs(5);
        if n == 1 {
            if now < window_end {
                tokio::time::advance(window_end - now).await;
            }
        } else if now <= window_end {
            tokio::time::advance(window_end - now + std::time::Duration::from_millis(1)).await;
        } else {
            tokio::time::advance(std::time::Duration::from_millis(1)).await;
        }
        Ok(Self::no_out())
    }

    pub(crate) async fn apply(&mut self, act: &Value, expect_out: Option<&Value>) -> (Value, Value, Option<String>) {
        let r = match s(act, "t").as_str() {
            "Timer" => {
                let ec = expect_out.and_then(|o| o["cookie"].as_i64());
                self.timer(i(act, "desired"), ec).await
            }
            "Recv" => {
                let es = expect_out.and_then(|o| o["stored"].as_i64());
                self.recv(&act["p"], es)
            }
            "Tick" => self.tick(i(act, "n")).await,
            other => panic!("unknown action {other}"),
        };
        match r {
            Ok(out) => (self.state(), out, None),
            Err(panic) => (self.state(), Self::no_out(), Some(panic)),
        }
    }
}

/// Compares the observation with the specification's expectation; returns the names of differing observables.
fn compare(exp_post: &Value, exp_out: &Value, st: &Value, out: &Value, panic: &Option<String>) -> Vec<String> {
    let mut d = vec![];
    if panic.is_some() {
        d.push("panic".to_string());
        return d;
    }
    for k in ["proto", "k", "since", "tries", "pend", "deny", "remoteMin", "lastPoll", "stratum", "refLocal"] {
        if exp_post[k] != st[k] {
            d.push(k.to_string());
        }
    }
    if exp_post["stash"].as_array().map(|a| a.len() as i64) != st["stashLen"].as_i64() {
        d.push("stash".to_string());
    }
    if st["obs_unanswered"] != exp_post["since"] {
        d.push("since".to_string());
    }
    for k in ["actions", "ver", "poll", "marker", "cookie", "placeholders", "usable", "meas", "stored", "len"] {
        if exp_out[k] != out[k] {
            d.push(format!("out.{k}"));
        }
    }
    if out["meas"].as_i64().unwrap_or(0) > exp_out["meas"].as_i64().unwrap_or(0) {
        d.push("out.meas_over".to_string());
    }
    if out["timer_ok"] != json!(true) {
        d.push("out.timer_ok".to_string());
    }
    d.sort();
    d.dedup();
    d
}

async fn replay(job: &Value) {
    let walks = util::read_ndjson(job["input"].as_str().unwrap());
    let mut out = util::NdjsonOut::create(job["output"].as_str().unwrap());
    let seed = job["seed"].as_u64().unwrap_or(0);
    for w in walks {
        let mut cfgv = job["cfg"].clone();
        if let Some(st) = w.get("init_stash") {
            cfgv["init_stash"] = st.clone();
        }
        let cfg = Cfg::from(&cfgv);
        let mut sut = Sut::new(cfg, seed ^ w["id"].as_u64().unwrap_or(0), false);
        let steps = w["walk"].as_array().unwrap();
        let mut fail = Value::Null;
        let mut run = 0;
        for (n, st) in steps.iter().enumerate() {
            let (obs_st, obs_out, panic) = sut.apply(&st["act"], Some(&st["out"])).await;
            run = n + 1;
            let d = compare(&st["post"], &st["out"], &obs_st, &obs_out, &panic);
            if !d.is_empty() {
                fail = json!({"step": n, "fields": d, "observed": {"st": obs_st, "out": obs_out}, "panic": panic});
                break;
            }
        }
        out.put(&json!({"id": w["id"], "steps_run": run, "fail": fail}));
    }
    out.finish();
}

// ------------------------------------------------------------------------------------------------
// Random sessions recorded for trace validation
// ------------------------------------------------------------------------------------------------
fn random_packet(rng: &mut Rng, cfg: &Cfg, sut: &Sut) -> Value {
    let nts = cfg.nts();
    let expected_ver = match sut.src.protocol_version {
        ProtocolVersion::V4 | ProtocolVersion::V4UpgradingToV5 { .. } => 4,
        _ => 5,
    };
    let ver = if rng.chance(8, 10) { expected_ver } else { *rng.pick(&[3, 4, 5]) };
    let mut p = json!({
        "parse": "ok", "ver": ver, "draft": true, "mode": "server", "id": "cur",
        "seal": if nts { "s2c" } else { "none" }, "ua": if nts { "ok" } else { "none" }, "ue": "none", "uu": "none",
        "stratum": 2, "code": "none", "poll": cfg.min_poll, "authnak": false, "marker": false,
        "cEnc": [], "cAuth": [], "cUnt": [], "refLocal": false,
    });
    // kind
    let r = rng.below(100);
    if r < 55 {
        p["stratum"] = json!(*rng.pick(&[1, 2, 3, 15, 16]));
        if ver == 5 {
            p["poll"] = json!(*rng.pick(&[0i64, 3, 4, 5, 6, 7, 9, 12, 17, 20]));
        } else {
            p["refLocal"] = json!(rng.chance(1, 6));
            p["marker"] = json!(cfg.mode == "PlainAuto" && rng.chance(1, 3));
        }
        if nts {
            let n = *rng.pick(&[0u64, 1, 1, 1, 2, 3, 9]);
            let len = *rng.pick(&[64i64, 100, 104, 200, 300, 724, 728, 800]);
            let cs: Vec<i64> = (0..n).map(|_| len).collect();
            p["cEnc"] = json!(cs);
        }
    } else if r < 80 {
        p["stratum"] = json!(0);
        if ver == 5 {
            let q = *rng.pick(&[0i64, 4, 5, 7, 8, 11, 18, 127]);
            p["poll"] = json!(q);
            // authnak only together with a poll value that is neither RATE nor DENY (ambiguous otherwise)
            let own = sut.src.last_poll_interval.as_log() as i64;
            p["authnak"] = json!(q <= own && rng.chance(1, 2));
        } else {
            p["code"] = json!(*rng.pick(&["RATE", "DENY", "RSTR", "NTSN", "XXXX"]));
        }
    } else {
        p["stratum"] = json!(*rng.pick(&[17, 200]));
    }
    // deviations
    if rng.chance(1, 8) {
        p["id"] = json!(*rng.pick(&["old", "none"]));
    }
    if rng.chance(1, 15) {
        p["mode"] = json!("other");
    }
    if rng.chance(1, 25) {
        p["parse"] = json!("garbage");
    }
    if ver == 5 && rng.chance(1, 25) {
        p["draft"] = json!(false);
    }
    if nts && rng.chance(1, 3) {
        match rng.below(9) {
            0 => p["seal"] = json!("other"),
            1 => p["seal"] = json!("tampered"),
            2 => {
                p["seal"] = json!("none");
                p["ua"] = json!("none");
                p["uu"] = json!("ok");
                p["cUnt"] = p["cEnc"].clone();
                p["cEnc"] = json!([]);
                if ver == 5 && p["stratum"] == json!(0) {
                    p["authnak"] = json!(true); // the forged NAK-flavoured KISS of finding F-1
                }
            }
            3 => p["ua"] = json!("bad"),
            4 => {
                p["ua"] = json!("none");
                p["ue"] = json!("ok");
            }
            5 => {
                p["ua"] = json!("none");
                p["ue"] = json!("bad");
            }
            6 => {
                p["cAuth"] = p["cEnc"].clone();
                p["cEnc"] = json!([]);
            }
            7 => {
                // NAK markings on an unauthenticated datagram that is not a KISS packet
                p["seal"] = json!("none");
                p["ua"] = json!("none");
                p["uu"] = json!("ok");
                p["cUnt"] = p["cEnc"].clone();
                p["cEnc"] = json!([]);
                if ver == 5 {
                    p["authnak"] = json!(true);
                    if p["stratum"] == json!(0) {
                        p["poll"] = json!(0);
                    }
                } else if p["stratum"] != json!(0) {
                    p["code"] = json!("NTSN");
                }
            }
            _ => {
                p["seal"] = json!("none");
                p["ua"] = json!("none");
            }
        }
    } else if !nts && rng.chance(1, 30) {
        p["seal"] = json!("s2c");
    }
    p
}

async fn record(job: &Value) {
    let mut out = util::NdjsonOut::create(job["output"].as_str().unwrap());
    let seed = job["seed"].as_u64().unwrap_or(0);
    let sessions = job["sessions"].as_u64().unwrap_or(10);
    let steps = job["steps"].as_u64().unwrap_or(100);
    let mut rng = Rng::new(seed ^ 0x5eed);
    for sess in 0..sessions {
        let cfgv = &job["cfgs"][(sess as usize) % job["cfgs"].as_array().unwrap().len()];
        let cfg = Cfg::from(cfgv);
        let mut sut = Sut::new(cfg, seed.wrapping_add(sess), true);
        let cfg = Cfg::from(cfgv);
        out.put(&json!({"ev": "reset", "cfg": cfgv, "st": sut.state()}));
        for _ in 0..steps {
            let r = rng.below(100);
            let act = if r < 35 {
                let d = cfg.min_poll as i64 + rng.below((cfg.max_poll - cfg.min_poll + 1) as u64) as i64;
                json!({"t": "Timer", "desired": d})
            } else if r < 90 {
                let mut p = random_packet(&mut rng, &cfg, &sut);
                // give delivered cookies real identities
                for k in ["cEnc", "cAuth", "cUnt"] {
                    let arr: Vec<i64> = p[k].as_array().unwrap().iter().map(|c| {
                        let id = sut.next_cookie_id;
                        sut.next_cookie_id += 1;
                        id * 2048 + c.as_i64().unwrap() % 2048
                    }).collect();
                    p[k] = json!(arr);
                }
                json!({"t": "Recv", "p": p})
            } else {
                json!({"t": "Tick", "n": 1 + rng.below(2)})
            };
            let (st, o, panic) = sut.apply(&act, None).await;
            out.put(&json!({"ev": "step", "act": act, "st": st, "out": o, "panic": panic.clone().unwrap_or_default()}));
            if panic.is_some() {
                break;
            }
        }
    }
    out.finish();
}

#[test]
fn verif_source() {
    let job = util::job();
    let rt = tokio::runtime::Builder::new_current_thread().enable_time().start_paused(true).build().unwrap();
    rt.block_on(async {
        match job["mode"].as_str().unwrap() {
            "replay" => replay(&job).await,
            "record" => record(&job).await,
            m => panic!("unknown mode {m}"),
        }
    });
}
