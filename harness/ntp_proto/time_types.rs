// verification harness (compiled into ntp-proto/src/time_types.rs under cfg(all(test, pendulum_project_ntpd_rs_verif)))
