// Harness for spec/TimeArith.tla (C32): evaluates the real NtpTimestamp / NtpDuration / PollInterval operations on the
// images of the W = 8 model operands under the embeddings of DESIGN.md 5.1
//   "hi": x |-> x * 2^56 (ring homomorphism, preserves sign / order / wrap / saturation; MIN |-> i64::MIN, saturated MAX |-> i64::MAX)
//   "lo": x |-> x (sign extended; compared when the model did not wrap or saturate)
// each under catch_unwind, and compares with the image of the model's result.  The float / wire-format clauses are
// evaluated here in i128 / f64 on the boundary classes TLC enumerates.
// Compiled into ntp-proto/src/time_types.rs under cfg(all(test, pendulum_project_ntpd_rs_verif)).
#![allow(clippy::all, dead_code)]

use super::{NtpDuration, NtpTimestamp, PollInterval, PollIntervalLimits};
use serde_json::{Value, json};

#[path = "/verif/harness/common/util.rs"]
mod util;
use util::{i, s};

const SH: u32 = 56;

fn ts(x: u64) -> NtpTimestamp {
    NtpTimestamp { timestamp: x }
}
fn du(x: i64) -> NtpDuration {
    NtpDuration { duration: x }
}

/// image of a model duration value under "hi", honouring the saturation flag
fn img(v: i64, sat: &str) -> i64 {
    match sat {
        "max" => i64::MAX,
        "min" => i64::MIN,
        _ => v << SH,
    }
}

struct Fail {
    emb: &'static str,
    field: &'static str,
    detail: Value,
}

fn check_i64(emb: &'static str, what: &str, r: Result<i64, String>, expected: i64, fails: &mut Vec<Fail>) {
    match r {
        Err(p) => fails.push(Fail { emb, field: "panic", detail: json!({"variant": what, "panic": p, "expected": expected.to_string()}) }),
        Ok(got) if got != expected => {
            fails.push(Fail { emb, field: "v", detail: json!({"variant": what, "observed": got.to_string(), "expected": expected.to_string()}) })
        }
        _ => {}
    }
}

fn run_op(act: &Value, out: &Value) -> (Vec<Fail>, u64) {
    let op = s(act, "op");
    let a = i(act, "a");
    let b = i(act, "b");
    let v = i(out, "v");
    let sat = s(out, "sat");
    let mut f = vec![];
    let mut evals = 0u64;
    let mut chk = |emb: &'static str, what: &str, r: Result<i64, String>, e: i64, f: &mut Vec<Fail>| {
        evals += 1;
        check_i64(emb, what, r, e, f);
    };
    match op.as_str() {
        "TsSub" => {
            let (ha, hb) = ((a as u64) << SH, (b as u64) << SH);
            chk("hi", "a - b", util::catch(|| (ts(ha) - ts(hb)).duration), v << SH, &mut f);
            chk("hi", "b + (a - b)", util::catch(|| (ts(hb) + (ts(ha) - ts(hb))).timestamp as i64), ha as i64, &mut f);
            chk("hi", "a - (a - b)", util::catch(|| (ts(ha) - (ts(ha) - ts(hb))).timestamp as i64), hb as i64, &mut f);
            chk("hi", "a.is_before(b)", util::catch(|| ts(ha).is_before(ts(hb)) as i64), (v < 0) as i64, &mut f);
            if v == a - b {
                chk("lo", "a - b", util::catch(|| (ts(a as u64) - ts(b as u64)).duration), v, &mut f);
            }
            // the same pair of words placed at the top of the 64-bit range: the 64-bit era boundary lies between them
            let (la, lb) = ((a as u64).wrapping_sub(128), (b as u64).wrapping_sub(128));
            if v == a - b {
                chk("lo", "a - b across 2^64", util::catch(|| (ts(la) - ts(lb)).duration), v, &mut f);
            }
        }
        "TsAddDur" | "TsSubDur" => {
            let add = op == "TsAddDur";
            let (ht, hd) = ((a as u64) << SH, b << SH);
            let e = ((v as u64) << SH) as i64;
            if add {
                chk("hi", "t + d", util::catch(|| (ts(ht) + du(hd)).timestamp as i64), e, &mut f);
                chk("hi", "t += d", util::catch(|| { let mut t = ts(ht); t += du(hd); t.timestamp as i64 }), e, &mut f);
            } else {
                chk("hi", "t - d", util::catch(|| (ts(ht) - du(hd)).timestamp as i64), e, &mut f);
                chk("hi", "t -= d", util::catch(|| { let mut t = ts(ht); t -= du(hd); t.timestamp as i64 }), e, &mut f);
            }
            let exact = if add { a + b } else { a - b };
            if exact == v {
                if add {
                    chk("lo", "t + d", util::catch(|| (ts(a as u64) + du(b)).timestamp as i64), v, &mut f);
                } else {
                    chk("lo", "t - d", util::catch(|| (ts(a as u64) - du(b)).timestamp as i64), v, &mut f);
                }
            }
        }
        "DurAdd" | "DurSub" => {
            let add = op == "DurAdd";
            let (hx, hy) = (a << SH, b << SH);
            let e = img(v, &sat);
            if add {
                chk("hi", "x + y", util::catch(|| (du(hx) + du(hy)).duration), e, &mut f);
                chk("hi", "x += y", util::catch(|| { let mut x = du(hx); x += du(hy); x.duration }), e, &mut f);
            } else {
                chk("hi", "x - y", util::catch(|| (du(hx) - du(hy)).duration), e, &mut f);
                chk("hi", "x -= y", util::catch(|| { let mut x = du(hx); x -= du(hy); x.duration }), e, &mut f);
            }
            if sat == "no" {
                if add {
                    chk("lo", "x + y", util::catch(|| (du(a) + du(b)).duration), v, &mut f);
                } else {
                    chk("lo", "x - y", util::catch(|| (du(a) - du(b)).duration), v, &mut f);
                    chk("lo", "x.abs_diff(y)", util::catch(|| du(a).abs_diff(du(b)).duration), v.abs(), &mut f);
                }
            }
        }
        "DurMul" => {
            let hx = a << SH;
            let e = img(v, &sat);
            chk("hi", "x * k(i64)", util::catch(|| (du(hx) * b).duration), e, &mut f);
            chk("hi", "k(i64) * x", util::catch(|| (b * du(hx)).duration), e, &mut f);
            chk("hi", "x * k(i8)", util::catch(|| (du(hx) * (b as i8)).duration), e, &mut f);
            chk("hi", "x * k(i32)", util::catch(|| (du(hx) * (b as i32)).duration), e, &mut f);
            chk("hi", "x *= k(i16)", util::catch(|| { let mut x = du(hx); x *= b as i16; x.duration }), e, &mut f);
            if b >= 0 {
                chk("hi", "x * k(u8)", util::catch(|| (du(hx) * (b as u8)).duration), e, &mut f);
                chk("hi", "x * k(u32)", util::catch(|| (du(hx) * (b as u32)).duration), e, &mut f);
            }
            if sat == "no" {
                chk("lo", "x * k", util::catch(|| (du(a) * b).duration), v, &mut f);
            }
        }
        "DurNeg" => {
            chk("hi", "-x", util::catch(|| (-du(a << SH)).duration), img(v, &sat), &mut f);
            if sat == "no" {
                chk("lo", "-x", util::catch(|| (-du(a)).duration), v, &mut f);
            }
        }
        "DurAbs" => {
            chk("hi", "x.abs()", util::catch(|| du(a << SH).abs().duration), img(v, &sat), &mut f);
            if sat == "no" {
                chk("lo", "x.abs()", util::catch(|| du(a).abs().duration), v, &mut f);
            }
        }
        "PollInc" => {
            let lim = PollIntervalLimits { min: PollInterval(i8::MIN), max: PollInterval(b as i8) };
            chk("i8", "p.inc(max)", util::catch(|| PollInterval(a as i8).inc(lim).as_log() as i64), v, &mut f);
        }
        "PollDec" => {
            let lim = PollIntervalLimits { min: PollInterval(b as i8), max: PollInterval(i8::MAX) };
            chk("i8", "p.dec(min)", util::catch(|| PollInterval(a as i8).dec(lim).as_log() as i64), v, &mut f);
        }
        "PollForceInc" => {
            chk("i8", "p.force_inc()", util::catch(|| PollInterval(a as i8).force_inc().as_log() as i64), v, &mut f);
        }
        other => panic!("unknown op {other}"),
    }
    (f, evals)
}

fn nudge(x: f64, delta: i64) -> f64 {
    let bits = x.to_bits();
    match delta {
        0 => x,
        d if (d > 0) == (x > 0.0) => f64::from_bits(bits + 1),
        _ => f64::from_bits(bits - 1),
    }
}

/// float / wire clauses; returns (failures, evaluations, whether the case was non-trivial)
fn run_float(act: &Value) -> (Vec<Fail>, u64, bool) {
    let op = s(act, "op");
    let e = i(act, "e");
    let delta = i(act, "delta");
    let neg = act["neg"].as_bool().unwrap();
    let mut f = vec![];
    let int_value = || -> Option<i64> {
        let mut x: i128 = (1i128 << e) + delta as i128;
        if neg {
            x = -x;
        }
        i64::try_from(x).ok()
    };
    match op.as_str() {
        "RoundTrip" => {
            let Some(d) = int_value() else { return (f, 0, false) };
            match util::catch(|| NtpDuration::from_seconds(du(d).to_seconds()).duration) {
                Err(p) => f.push(Fail { emb: "f64", field: "panic", detail: json!({"d": d.to_string(), "panic": p}) }),
                Ok(rt) => {
                    // |rt - d| <= 1e-9 * |d| + 1, in integers
                    let diff = (rt as i128 - d as i128).abs();
                    if diff * 1_000_000_000 > (d as i128).abs() + 1_000_000_000 {
                        f.push(Fail { emb: "f64", field: "ineq", detail: json!({"d": d.to_string(), "round_trip": rt.to_string()}) });
                    }
                }
            }
            (f, 1, d != 0)
        }
        "FromSeconds" => {
            let mut x = nudge(2f64.powi(e as i32), delta);
            if neg {
                x = -x;
            }
            if !x.is_finite() {
                return (f, 0, false);
            }
            match util::catch(|| NtpDuration::from_seconds(x).duration) {
                Err(p) => f.push(Fail { emb: "f64", field: "panic", detail: json!({"seconds": x, "panic": p}) }),
                Ok(r) => {
                    let sign_ok = if x > 0.0 { r >= 0 } else if x < 0.0 { r <= 0 } else { r == 0 };
                    let sat_ok = if x >= 2147483648.0 { r == i64::MAX } else if x < -2147483648.0 { r == i64::MIN } else { true };
                    // inside the range the value is the seconds scaled by 2^32, to within 1e-9 + 2 units
                    let exact = x * 4294967296.0;
                    let in_range = x < 2147483648.0 && x >= -2147483648.0;
                    let near = !in_range || ((r as f64) - exact).abs() <= 1e-9 * exact.abs() + 2.0;
                    if !sign_ok || !sat_ok {
                        f.push(Fail { emb: "f64", field: "ineq", detail: json!({"seconds": x, "result": r.to_string(), "sign_ok": sign_ok, "saturation_ok": sat_ok}) });
                    } else if !near {
                        f.push(Fail { emb: "f64", field: "accuracy", detail: json!({"seconds": x, "result": r.to_string()}) });
                    }
                }
            }
            (f, 1, true)
        }
        "Short" | "Time32" => {
            let Some(d) = int_value() else { return (f, 0, false) };
            let (limit, unit) = if op == "Short" { (1i64 << 48, 1i64 << 16) } else { (1i64 << 36, 1i64 << 4) };
            if d < 0 || d >= limit {
                return (f, 0, false);
            }
            let r = if op == "Short" {
                util::catch(|| NtpDuration::from_bits_short(du(d).to_bits_short()).duration)
            } else {
                util::catch(|| NtpDuration::from_bits_time32(du(d).to_bits_time32()).duration)
            };
            match r {
                Err(p) => f.push(Fail { emb: "wire", field: "panic", detail: json!({"d": d.to_string(), "panic": p}) }),
                Ok(rt) => {
                    if (rt - d).abs() > unit {
                        f.push(Fail { emb: "wire", field: "ineq", detail: json!({"d": d.to_string(), "decoded": rt.to_string()}) });
                    }
                }
            }
            (f, 1, d >= unit)
        }
        other => panic!("unknown float op {other}"),
    }
}

fn replay(job: &Value) {
    let mut out = util::NdjsonOut::create(job["output"].as_str().unwrap());
    use std::io::BufRead;
    let file = std::fs::File::open(job["input"].as_str().unwrap()).expect("input");
    let (mut evals, mut cases, mut fl_evals, mut fl_nontrivial) = (0u64, 0u64, 0u64, 0u64);
    for line in std::io::BufReader::new(file).lines() {
        let line = line.unwrap();
        if line.trim().is_empty() {
            continue;
        }
        let c: Value = serde_json::from_str(&line).unwrap();
        let act = &c["act"];
        let op = s(act, "op");
        cases += 1;
        let fails = if matches!(op.as_str(), "RoundTrip" | "FromSeconds" | "Short" | "Time32") {
            let (f, n, nt) = run_float(act);
            fl_evals += n;
            fl_nontrivial += (nt && n > 0) as u64;
            f
        } else {
            let (f, n) = run_op(act, &c["out"]);
            evals += n;
            f
        };
        for x in fails {
            out.put(&json!({"id": c["id"], "act": act, "out": c["out"], "emb": x.emb, "field": x.field, "detail": x.detail}));
        }
    }
    out.put(&json!({"summary": true, "cases": cases, "evaluations": evals, "float_evaluations": fl_evals, "float_nontrivial": fl_nontrivial}));
    out.finish();
}

#[test]
fn verif_time_types() {
    let job = util::job();
    match s(&job, "mode").as_str() {
        "replay" => replay(&job),
        other => panic!("unknown mode {other}"),
    }
}
