// Harness for spec/CtlLoop.tla (C37): the wrapper layer between the source tasks and the clock controller with the
// message loop in fine-grained steps.  Real code under test: TimeSyncControllerWrapper<T>::run / add_source /
// add_one_way_source, TwoWaySourceControllerWrapper and OneWaySourceControllerWrapper (handle_measurement, set_usable,
// Drop) and the channel between them.  Mocked: the inner controller T (records the calls it receives; contract of
// KalmanClockController: add registers with usable = false, remove unregisters, update / message for an unknown id are
// ignored; answers a measurement with / without a broadcast and a timer request as scripted by the step) and the
// per-source controllers (number their measurements; handle_message reports "entered" and then waits on a gate).
//
// run() executes on a thread of its own (current-thread tokio runtime, paused clock: a requested timer update is due as
// soon as the loop is idle).  The harness thread plays the source tasks.  The loop rests only (1) in select! and (2)
// inside handle_message of the handle it holds, where the gate keeps it: Drop / Usable / Meas / Add of the model are
// executed by the harness thread while the loop thread is parked there; Leave opens the gate.
// As in kalman.rs the wrapper's own channel is relayed one message at a time into a second channel that run() reads.
// Every forwarded message is followed by a barrier (a usability change for an id nobody registered, which the mock
// only reports): when the barrier comes back the iteration that handled the message - and, because a due timer is
// waited for, the timer iteration it asked for - is over.  Every wait has a timeout; a timeout is a tool error (never a violation).
// Compiled into ntp-proto/src/algorithm/mod.rs (as a child of harness/ntp_proto/algorithm.rs) under
// cfg(all(test, pendulum_project_ntpd_rs_verif)).
#![allow(clippy::all, dead_code)]

use super::util;
use crate::algorithm::{
    InternalMeasurement, InternalSourceController, InternalStateUpdate, InternalTimeSyncController, Measurement, ObservableSourceTimedata,
    OneWaySourceControllerWrapper, SourceController, TimeSyncController, TimeSyncControllerWrapper, TwoWaySourceControllerWrapper,
    WrapperMessage,
};
use crate::clock::NtpClock;
use crate::config::{SourceConfig, SynchronizationConfig};
use crate::time_types::{NtpDuration, NtpTimestamp, PollInterval};
use crate::{ClockId, NtpLeapIndicator};
use serde_json::{Value, json};
use std::collections::{HashMap, VecDeque};
use std::sync::atomic::{AtomicU32, Ordering};
use std::sync::mpsc::{Receiver, RecvTimeoutError, Sender};
use std::sync::{Arc, Mutex};
use std::time::Duration;
use util::{b, i, s};

// generous: a wait ends early on the good path; after the first tool error the remaining walks are not run
const WAIT: Duration = Duration::from_secs(20);
const BARRIER: ClockId = ClockId(u64::MAX);

#[derive(Debug, Clone)]
struct SrcMsg {
    n: u32,
}
#[derive(Debug, Clone)]
struct CtlMsg {
    bc: u64,
}

enum Sig {
    Call { c: &'static str, id: ClockId, n: u32, b: bool, armed: bool },
    Tu,
    Entered { id: ClockId },
    Barrier,
    LoopEnded(Option<String>),
}

#[derive(Clone)]
struct NoClock;
impl NtpClock for NoClock {
    type Error = std::io::Error;
    fn now(&self) -> Result<NtpTimestamp, Self::Error> {
        Ok(NtpTimestamp::from_fixed_int(1000u64 << 32))
    }
    fn set_frequency(&self, _f: f64) -> Result<NtpTimestamp, Self::Error> {
        self.now()
    }
    fn get_frequency(&self) -> Result<f64, Self::Error> {
        Ok(0.0)
    }
    fn step_clock(&self, _o: NtpDuration) -> Result<NtpTimestamp, Self::Error> {
        self.now()
    }
    fn disable_ntp_algorithm(&self) -> Result<(), Self::Error> {
        Ok(())
    }
    fn error_estimate_update(&self, _e: NtpDuration, _m: NtpDuration) -> Result<(), Self::Error> {
        Ok(())
    }
    fn status_update(&self, _l: NtpLeapIndicator) -> Result<(), Self::Error> {
        Ok(())
    }
}

// ---- mock per-source controller -----------------------------------------------------------------------------------
struct MockSource<D> {
    id: ClockId,
    sig: Sender<Sig>,
    gate: Receiver<()>,
    meas: Arc<AtomicU32>,
    _d: std::marker::PhantomData<D>,
}

impl<D: std::fmt::Debug + Copy + Send + 'static> InternalSourceController for MockSource<D> {
    type ControllerMessage = CtlMsg;
    type SourceMessage = SrcMsg;
    type MeasurementDelay = D;
    fn handle_message(&mut self, _m: CtlMsg) {
        let _ = self.sig.send(Sig::Entered { id: self.id });
        // the harness decides when the loop leaves this handle (a closed gate sender = tear-down: go on)
        let _ = self.gate.recv_timeout(Duration::from_secs(60));
    }
    fn handle_measurement(&mut self, _m: InternalMeasurement<D>) -> Option<SrcMsg> {
        Some(SrcMsg { n: self.meas.fetch_add(1, Ordering::SeqCst) + 1 })
    }
    fn desired_poll_interval(&self) -> PollInterval {
        PollInterval::from_byte(4)
    }
    fn observe(&self) -> ObservableSourceTimedata {
        Default::default()
    }
}

// ---- mock inner controller -----------------------------------------------------------------------------------------
#[derive(Default, Clone, Copy)]
struct Known {
    reg: bool,
    usable: bool,
    proc_: u32,
}

#[derive(Default)]
struct Shared {
    src: HashMap<ClockId, Known>,
    steer: bool,
    arm: bool,
    bc: u64,
    gates: HashMap<ClockId, Sender<()>>,
    meas: HashMap<ClockId, Arc<AtomicU32>>,
}

struct MockCtl {
    sig: Option<Sender<Sig>>,
    shared: Arc<Mutex<Shared>>,
}

impl MockCtl {
    fn emit(&self, x: Sig) {
        if let Some(t) = &self.sig {
            let _ = t.send(x);
        }
    }
    fn new_source<D>(&mut self, id: ClockId) -> MockSource<D> {
        let (gt, gr) = std::sync::mpsc::channel();
        let meas = Arc::new(AtomicU32::new(0));
        {
            let mut sh = self.shared.lock().unwrap();
            sh.src.insert(id, Known { reg: true, usable: false, proc_: 0 });
            sh.gates.insert(id, gt);
            sh.meas.insert(id, meas.clone());
        }
        self.emit(Sig::Call { c: "add", id, n: 0, b: false, armed: false });
        MockSource { id, sig: self.sig.clone().expect("wired"), gate: gr, meas, _d: std::marker::PhantomData }
    }
}

impl InternalTimeSyncController for MockCtl {
    type Clock = NoClock;
    type AlgorithmConfig = ();
    type ControllerMessage = CtlMsg;
    type SourceMessage = SrcMsg;
    type NtpSourceController = MockSource<NtpDuration>;
    type OneWaySourceController = MockSource<()>;

    fn new(_c: NoClock, _s: SynchronizationConfig, _a: ()) -> Result<Self, std::io::Error> {
        Ok(MockCtl { sig: None, shared: Default::default() })
    }
    fn take_control(&mut self) -> Result<(), std::io::Error> {
        Ok(())
    }
    fn add_source(&mut self, id: ClockId, _c: SourceConfig) -> MockSource<NtpDuration> {
        self.new_source(id)
    }
    fn add_one_way_source(&mut self, id: ClockId, _c: SourceConfig, _n: f64, _a: f64, _p: Option<f64>) -> MockSource<()> {
        self.new_source(id)
    }
    fn remove_source(&mut self, id: ClockId) {
        if let Some(k) = self.shared.lock().unwrap().src.get_mut(&id) {
            k.reg = false;
            k.usable = false;
        }
        self.emit(Sig::Call { c: "rm", id, n: 0, b: false, armed: false });
    }
    fn source_update(&mut self, id: ClockId, usable: bool) {
        if id == BARRIER {
            self.emit(Sig::Barrier);
            return;
        }
        if let Some(k) = self.shared.lock().unwrap().src.get_mut(&id) {
            if k.reg {
                k.usable = usable;
            }
        }
        self.emit(Sig::Call { c: "su", id, n: 0, b: usable, armed: false });
    }
    fn source_message(&mut self, id: ClockId, m: SrcMsg) -> InternalStateUpdate<CtlMsg> {
        let mut up = InternalStateUpdate::default();
        let mut armed = false;
        {
            let mut sh = self.shared.lock().unwrap();
            let known = sh.src.get(&id).map(|k| k.reg).unwrap_or(false);
            if known {
                sh.src.get_mut(&id).unwrap().proc_ = m.n;
                if sh.steer {
                    sh.bc += 1;
                    up.source_message = Some(CtlMsg { bc: sh.bc });
                }
                if sh.arm {
                    armed = true;
                    up.next_update = Some(Duration::from_millis(1));
                }
            }
            sh.steer = false;
            sh.arm = false;
        }
        self.emit(Sig::Call { c: "sm", id, n: m.n, b: false, armed });
        up
    }
    fn time_update(&mut self) -> InternalStateUpdate<CtlMsg> {
        let mut up = InternalStateUpdate::default();
        {
            let mut sh = self.shared.lock().unwrap();
            sh.bc += 1;
            up.source_message = Some(CtlMsg { bc: sh.bc });
        }
        self.emit(Sig::Tu);
        up
    }
}

// ---- the world -----------------------------------------------------------------------------------------------------
type Wrapper = TimeSyncControllerWrapper<MockCtl>;
type Wire = (ClockId, WrapperMessage<SrcMsg>);

enum Handle {
    One(OneWaySourceControllerWrapper<MockSource<()>>),
    Two(TwoWaySourceControllerWrapper<MockSource<NtpDuration>>),
}

#[derive(Default)]
struct Slot {
    id: Option<ClockId>,
    handle: Option<Handle>,
}

struct World {
    w: Arc<Wrapper>,
    shared: Arc<Mutex<Shared>>,
    sig_rx: Receiver<Sig>,
    from_sources: tokio::sync::mpsc::UnboundedReceiver<Wire>,
    to_loop: tokio::sync::mpsc::UnboundedSender<Wire>,
    stop: Option<tokio::sync::oneshot::Sender<()>>,
    chan: VecDeque<Wire>,
    slots: Vec<Slot>,
    oneway: Vec<bool>,
    slot_of: HashMap<ClockId, usize>,
    next_id: u64,
    parked: Option<ClockId>,
    barriers: u32,
    timer_pending: bool,
    ended: Option<Option<String>>,
    calls: Vec<Value>,
    tu: bool,
}

fn lock<T>(m: &Mutex<T>) -> std::sync::MutexGuard<'_, T> {
    m.lock().unwrap_or_else(|e| e.into_inner())
}

impl World {
    fn new(cfg: &Value) -> World {
        let n = i(cfg, "N") as usize;
        let ow: Vec<i64> = cfg["OneWay"].as_array().map(|a| a.iter().filter_map(|x| x.as_i64()).collect()).unwrap_or_default();
        let w = Wrapper::new(NoClock, SynchronizationConfig::default(), ()).expect("wrapper");
        let (sig_tx, sig_rx) = std::sync::mpsc::channel();
        let shared = {
            let mut g = w.inner.lock().unwrap();
            g.sig = Some(sig_tx.clone());
            g.shared.clone()
        };
        let (to_loop, loop_rx) = tokio::sync::mpsc::unbounded_channel();
        let from_sources = w.messages_for_system.lock().unwrap().replace(loop_rx).expect("receiver");
        let w = Arc::new(w);
        let (stop_tx, stop_rx) = tokio::sync::oneshot::channel::<()>();
        let w2 = w.clone();
        std::thread::spawn(move || {
            let r = util::catch(|| {
                let rt = tokio::runtime::Builder::new_current_thread().enable_all().start_paused(true).build().expect("runtime");
                rt.block_on(async {
                    tokio::select! {
                        _ = w2.run() => {},
                        _ = stop_rx => {},
                    }
                });
            });
            let _ = sig_tx.send(Sig::LoopEnded(r.err()));
        });
        World {
            w,
            shared,
            sig_rx,
            from_sources,
            to_loop,
            stop: Some(stop_tx),
            chan: Default::default(),
            slots: (0..n).map(|_| Slot::default()).collect(),
            oneway: (1..=n as i64).map(|k| ow.contains(&k)).collect(),
            slot_of: Default::default(),
            next_id: 100,
            parked: None,
            barriers: 0,
            timer_pending: false,
            ended: None,
            calls: vec![],
            tu: false,
        }
    }

    fn slot_no(&self, id: ClockId) -> i64 {
        self.slot_of.get(&id).map(|k| *k as i64 + 1).unwrap_or(0)
    }

    fn on_sig(&mut self, x: Sig) {
        match x {
            Sig::Call { c, id, n, b, armed } => {
                self.calls.push(json!({"c": c, "i": self.slot_no(id), "n": n, "b": b}));
                if armed {
                    self.timer_pending = true;
                }
            }
            Sig::Tu => {
                self.tu = true;
                self.timer_pending = false;
                if self.barriers == 0 {
                    // the barrier sent with the message was consumed before the timer fired: close the timer iteration too
                    let _ = self.to_loop.send((BARRIER, WrapperMessage::UsabilityChange(false)));
                    self.barriers += 1;
                }
            }
            Sig::Entered { id } => self.parked = Some(id),
            Sig::Barrier => self.barriers = self.barriers.saturating_sub(1),
            Sig::LoopEnded(e) => self.ended = Some(e),
        }
    }

    fn drain(&mut self) {
        while let Ok(m) = self.from_sources.try_recv() {
            self.chan.push_back(m);
        }
        while let Ok(x) = self.sig_rx.try_recv() {
            self.on_sig(x);
        }
    }

    /// waits until the loop rests: parked inside a handle, or idle with nothing pending.  Err = tool error (timeout).
    fn settle(&mut self) -> Result<(), String> {
        loop {
            if self.ended.is_some() || self.parked.is_some() || (self.barriers == 0 && !self.timer_pending) {
                return Ok(());
            }
            match self.sig_rx.recv_timeout(WAIT) {
                Ok(x) => self.on_sig(x),
                Err(RecvTimeoutError::Timeout) => {
                    return Err(format!("timeout waiting for the loop (barriers outstanding {}, timer pending {})", self.barriers, self.timer_pending));
                }
                Err(RecvTimeoutError::Disconnected) => return Err("signal channel closed".into()),
            }
        }
    }

    fn measure(&mut self, k: usize) {
        let id = self.slots[k].id.unwrap();
        let t = |x: u64| NtpTimestamp::from_fixed_int(x << 32);
        let zero = NtpDuration::from_fixed_int(0);
        let m = |sender, receiver, s_ts, r_ts| Measurement {
            sender_id: sender,
            receiver_id: receiver,
            sender_ts: s_ts,
            receiver_ts: r_ts,
            root_delay: zero,
            root_dispersion: zero,
            leap: NtpLeapIndicator::NoWarning,
            precision: 0,
        };
        match self.slots[k].handle.as_mut().unwrap() {
            Handle::One(h) => h.handle_measurement(m(id, ClockId::SYSTEM, t(1001), t(1000))),
            Handle::Two(h) => {
                h.handle_measurement(m(ClockId::SYSTEM, id, t(999), t(1000)));
                h.handle_measurement(m(id, ClockId::SYSTEM, t(1000), t(1001)));
            }
        }
    }

    /// one action of the model; Ok(panic message of the code under test, if any), Err = tool error
    fn act(&mut self, a: &Value) -> Result<Option<String>, String> {
        self.calls.clear();
        self.tu = false;
        let t = s(a, "t");
        let k = a.get("i").and_then(|x| x.as_i64()).map(|x| x as usize - 1);
        let mut panic = None;
        match t.as_str() {
            "Add" => {
                let k = k.unwrap();
                let id = ClockId(self.next_id);
                self.next_id += 1;
                self.slot_of.insert(id, k);
                let w = self.w.clone();
                let one = self.oneway[k];
                match util::catch(|| {
                    if one {
                        Handle::One(w.add_one_way_source(id, SourceConfig::default(), 1e-6, 1e-6, None))
                    } else {
                        Handle::Two(w.add_source(id, SourceConfig::default()))
                    }
                }) {
                    Ok(h) => self.slots[k] = Slot { id: Some(id), handle: Some(h) },
                    Err(p) => panic = Some(p),
                }
                self.drain();
            }
            "Meas" => {
                let k = k.unwrap();
                panic = util::catch(|| self.measure(k)).err();
                self.drain();
            }
            "Usable" => {
                let v = b(a, "b");
                let h = self.slots[k.unwrap()].handle.as_mut().unwrap();
                panic = util::catch(|| match h {
                    Handle::One(h) => h.set_usable(v),
                    Handle::Two(h) => h.set_usable(v),
                })
                .err();
                self.drain();
            }
            "Drop" => {
                let h = self.slots[k.unwrap()].handle.take();
                panic = util::catch(move || drop(h)).err();
                self.drain();
            }
            "Recv" => {
                if self.parked.is_some() {
                    return Err("Recv while the loop is parked".into());
                }
                let Some(m) = self.chan.pop_front() else {
                    return Err("Recv on an empty channel".into());
                };
                {
                    let mut sh = lock(&self.shared);
                    sh.steer = b(a, "steer");
                    sh.arm = b(a, "arm");
                }
                let _ = self.to_loop.send(m);
                let _ = self.to_loop.send((BARRIER, WrapperMessage::UsabilityChange(false)));
                self.barriers += 1;
                self.settle()?;
                self.drain();
            }
            "Leave" => {
                let Some(id) = self.parked.take() else {
                    return Err("Leave while the loop is not parked".into());
                };
                let gate = lock(&self.shared).gates.get(&id).cloned();
                match gate {
                    Some(g) => {
                        let _ = g.send(());
                    }
                    None => return Err("no gate for the handle the loop holds".into()),
                }
                self.settle()?;
                self.drain();
            }
            other => return Err(format!("unknown action {other}")),
        }
        if let Some(Some(p)) = &self.ended {
            panic = Some(format!("run(): {p}"));
        } else if let Some(None) = &self.ended {
            panic = Some("run() returned".into());
        }
        Ok(panic)
    }

    fn observe(&self) -> (Value, Value) {
        let sh = lock(&self.shared);
        let src: Vec<Value> = self
            .slots
            .iter()
            .map(|sl| {
                let k = sl.id.and_then(|id| sh.src.get(&id).copied()).unwrap_or_default();
                let sent = sl.id.and_then(|id| sh.meas.get(&id).map(|m| m.load(Ordering::SeqCst))).unwrap_or(0);
                json!({"alive": sl.handle.is_some(), "reg": k.reg, "usable": k.usable, "sent": sent, "proc": k.proc_})
            })
            .collect();
        let chan: Vec<Value> = self
            .chan
            .iter()
            .map(|(id, m)| {
                let i = self.slot_no(*id);
                match m {
                    WrapperMessage::SourceMessage(x) => json!({"k": "M", "i": i, "n": x.n, "b": false}),
                    WrapperMessage::UsabilityChange(v) => json!({"k": "U", "i": i, "n": 0, "b": v}),
                    WrapperMessage::Dropped => json!({"k": "D", "i": i, "n": 0, "b": false}),
                }
            })
            .collect();
        let (pc, cur) = match self.parked {
            None => ("idle", 0),
            Some(id) => {
                let c = self.slot_no(id);
                (if c >= 1 && self.oneway[c as usize - 1] { "ow" } else { "tw" }, c)
            }
        };
        (json!({"src": src, "chan": chan, "pc": pc, "cur": cur}), json!({"calls": self.calls, "tu": self.tu}))
    }

    /// lets the loop thread run to its end: every gate opens, run() is cancelled at its next await
    fn teardown(mut self) -> Result<(), String> {
        self.parked = None;
        lock(&self.shared).gates.clear();
        if let Some(st) = self.stop.take() {
            let _ = st.send(());
        }
        let deadline = std::time::Instant::now() + WAIT;
        while self.ended.is_none() {
            let left = deadline.saturating_duration_since(std::time::Instant::now());
            match self.sig_rx.recv_timeout(left) {
                Ok(x) => self.on_sig(x),
                Err(_) => return Err("the loop thread did not end".into()),
            }
        }
        Ok(())
    }
}

fn diff(post: &Value, out: &Value, st: &Value, o: &Value) -> Vec<String> {
    let mut d = vec![];
    let (mut ctl, mut src) = (false, false);
    let (es, os) = (post["src"].as_array().unwrap(), st["src"].as_array().unwrap());
    for (e, x) in es.iter().zip(os.iter()) {
        for f in ["reg", "usable", "proc"] {
            ctl |= e[f] != x[f];
        }
        for f in ["alive", "sent"] {
            src |= e[f] != x[f];
        }
    }
    if ctl || es.len() != os.len() {
        d.push("ctl".to_string());
    }
    if src {
        d.push("src".to_string());
    }
    if post["chan"] != st["chan"] {
        d.push("chan".to_string());
    }
    if post["pc"] != st["pc"] || post["cur"] != st["cur"] {
        d.push("loop".to_string());
    }
    if out["calls"] != o["calls"] {
        d.push("calls".to_string());
    }
    if out["tu"] != o["tu"] {
        d.push("tu".to_string());
    }
    d
}

fn replay_walk(cfg: &Value, walk: &Value) -> Value {
    let mut wd = World::new(cfg);
    let mut fail = Value::Null;
    let mut run = 0;
    for (n, step) in walk["walk"].as_array().unwrap().iter().enumerate() {
        run = n + 1;
        match wd.act(&step["act"]) {
            Err(tool) => {
                let (st, o) = wd.observe();
                fail = json!({"step": n, "fields": [], "observed": {"st": st, "out": o}, "panic": Value::Null, "tool": tool});
                break;
            }
            Ok(panic) => {
                let (st, o) = wd.observe();
                let mut d = diff(&step["post"], &step["out"], &st, &o);
                if panic.is_some() {
                    d.push("panic".to_string());
                }
                if !d.is_empty() {
                    fail = json!({"step": n, "fields": d, "observed": {"st": st, "out": o}, "panic": panic, "tool": Value::Null});
                    break;
                }
            }
        }
    }
    if let Err(tool) = wd.teardown() {
        if fail.is_null() {
            fail = json!({"step": run.max(1) - 1, "fields": [], "observed": Value::Null, "panic": Value::Null, "tool": tool});
        }
    }
    json!({"id": walk["id"], "steps_run": run, "fail": fail})
}

#[test]
fn verif_ctlloop() {
    let job = util::job();
    match s(&job, "mode").as_str() {
        "replay" => {
            let walks = util::read_ndjson(job["input"].as_str().unwrap());
            let mut out = util::NdjsonOut::create(job["output"].as_str().unwrap());
            let mut tool_error = false;
            for w in walks {
                if tool_error {
                    out.put(&json!({"id": w["id"], "steps_run": 0, "fail": {"step": 0, "fields": [], "observed": Value::Null, "panic": Value::Null,
                                                                           "tool": "not run: an earlier walk ended in a tool error"}}));
                    continue;
                }
                let r = replay_walk(&job["cfg"], &w);
                tool_error = r["fail"].get("tool").map(|t| !t.is_null()).unwrap_or(false);
                out.put(&r);
            }
            out.finish();
        }
        other => panic!("unknown mode {other}"),
    }
}
