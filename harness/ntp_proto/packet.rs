// verification harness (compiled into ntp-proto/src/packet/mod.rs under cfg(all(test, pendulum_project_ntpd_rs_verif)))
// Harness for spec/Packet.tla.  TLC enumerates datagram layouts (runs of byte classes) together with the transcribed
// decoder's / encoder's prediction; this module concretises every layout into real bytes and runs the REAL codec:
//   mode "cases":  decode in the requested key contexts (none / client cipher / server key set), compare the result
//                  class with the prediction; without keys, run the round-trip chain decode -> encode -> decode ->
//                  encode and compare the re-encoded bytes with the model's; optional seeded byte mutations
//                  (totality only).  Panics are data.
//   mode "sealed": builds real NTS-protected datagrams (harness/common/wire.rs + the real cipher and real cookies),
//                  measures the byte range of every region, then flips EVERY bit and sets every byte of every length
//                  word to all other values, decoding each variant with the right key.
#![allow(clippy::all, dead_code)]

use super::*;
// explicit imports: do not rely on what the parent module happens to import
#[allow(unused_imports)]
use std::io::Cursor;
use crate::keyset::{DecodedServerCookie, KeySet, KeySetProvider};
use crate::nts::AeadAlgorithm;
use serde_json::{Value, json};
use std::sync::Arc;

#[path = "/verif/harness/common/util.rs"]
mod util;
#[path = "/verif/harness/common/wire.rs"]
mod wire;
use util::Rng;
use wire::{Ef, Hdr};

fn type_of(kind: &str) -> u16 {
    match kind {
        "uid" => 0x0104,
        "cookie" => 0x0204,
        "ph" => 0x0304,
        "enc" => 0x0404,
        "unk" => 0x1234,
        "draft" => 0xF5FF,
        "pad" => 0xF501,
        "rreq" => 0xF503,
        "rresp" => 0xF504,
        k => panic!("unknown kind {k}"),
    }
}

fn header_bytes(ver: u8, hc: &Value) -> Vec<u8> {
    let mode = hc["mode"].as_u64().unwrap() as u8;
    let leap = hc["leap"].as_u64().unwrap() as u8;
    let mut h = Hdr::new(ver, mode);
    h.leap = leap;
    h.poll = 6;
    h.word4 = [1, 2, 3, 4, 5, 6, 7, 8];
    h.origin = [9, 10, 11, 12, 13, 14, 15, 16];
    h.recv = [17, 18, 19, 20, 21, 22, 23, 24];
    h.xmit = [25, 26, 27, 28, 29, 30, 31, 32];
    if ver == 5 {
        let sync = hc["sync"].as_bool().unwrap() as u8;
        let scale = if hc["scaleOk"].as_bool().unwrap() { 1 } else { 9 };
        let flags = if hc["flagsOk"].as_bool().unwrap() { sync } else { 0x08 | sync };
        h.word3 = [scale, 0, 0, flags];
    } else {
        h.word3 = [10, 1, 2, 3];
    }
    h.bytes()
}

fn runs_bytes(runs: &Value, out: &mut Vec<u8>) {
    for r in runs.as_array().unwrap() {
        let n = r["n"].as_u64().unwrap() as usize;
        match r["c"].as_str().unwrap() {
            "Z" => out.extend(std::iter::repeat(0u8).take(n)),
            "D" => out.extend(std::iter::repeat(0xA5u8).take(n)),
            "W" => out.extend(std::iter::repeat(b'x').take(n)),
            "G" => out.extend_from_slice(&wire::DRAFT[..n]),
            c @ ("H" | "X") => {
                let mut h = vec![];
                h.extend_from_slice(&type_of(r["k"].as_str().unwrap()).to_be_bytes());
                h.extend_from_slice(&(r["dl"].as_u64().unwrap() as u16).to_be_bytes());
                let _ = c;
                out.extend_from_slice(&h[..n]);
            }
            c => panic!("unknown run class {c}"),
        }
    }
}

fn concretise(ver: u8, hc: &Value, body: &Value, total: usize) -> Vec<u8> {
    let mut d = header_bytes(ver, hc);
    if total < 48 {
        d.truncate(total);
        return d;
    }
    runs_bytes(body, &mut d);
    assert_eq!(d.len(), total, "model length and concretised length differ");
    d
}

fn class_of<T>(e: &ParsingError<T>) -> &'static str {
    match e {
        ParsingError::InvalidVersion(_) => "err:version",
        ParsingError::IncorrectLength => "err:len",
        ParsingError::MalformedNtsExtensionFields => "err:nts",
        ParsingError::MalformedNonce => "err:nonce",
        ParsingError::MalformedCookiePlaceholder => "err:placeholder",
        ParsingError::DecryptError(_) => "err:decrypt",
        ParsingError::V5(v5::V5Error::InvalidDraftIdentification) => "err:v5draft",
        ParsingError::V5(v5::V5Error::MalformedTimescale) => "err:v5scale",
        ParsingError::V5(v5::V5Error::MalformedMode) => "err:v5mode",
        ParsingError::V5(v5::V5Error::InvalidFlags) => "err:v5flags",
    }
}

enum Ctx {
    NoKeys,
    Cipher(Box<dyn Cipher>),
    Keys(Arc<KeySet>),
    /// the server's cookie keys, and every cookie field of the datagram names a key the set currently holds
    /// (its first four body bytes are overwritten with that key's id, the ciphertext length with `ct_len`)
    KeysLive(Arc<KeySet>, [u8; 4], [u8; 2]),
}

/// overwrite the head of every NTS cookie field body (lenient walk over the extension fields)
fn name_live_key(d: &[u8], id: &[u8; 4], ct_len: &[u8; 2]) -> Vec<u8> {
    let mut x = d.to_vec();
    let mut p = 48;
    while p + 4 <= x.len() {
        let ty = u16::from_be_bytes([x[p], x[p + 1]]);
        let len = u16::from_be_bytes([x[p + 2], x[p + 3]]) as usize;
        if ty == 0x0204 {
            let end = x.len().min(p + len.max(4));
            for (k, b) in id.iter().chain(ct_len.iter()).enumerate() {
                if p + 4 + k < end {
                    x[p + 4 + k] = *b;
                }
            }
        }
        if len < 4 {
            break;
        }
        p += len.div_ceil(4) * 4;
    }
    x
}

impl Ctx {
    fn decode<'a>(&self, d: &'a [u8]) -> Result<(NtpPacket<'a>, Option<DecodedServerCookie>), PacketParsingError<'a>> {
        match self {
            Ctx::NoKeys => NtpPacket::deserialize(d, &NoCipher),
            Ctx::Cipher(c) => NtpPacket::deserialize(d, c.as_ref()),
            Ctx::Keys(k) | Ctx::KeysLive(k, _, _) => NtpPacket::deserialize(d, k.as_ref()),
        }
    }
    /// result class; a panic is data
    fn class(&self, d: &[u8]) -> String {
        let live;
        let d = if let Ctx::KeysLive(_, id, ct) = self {
            live = name_live_key(d, id, ct);
            &live[..]
        } else {
            d
        };
        match util::catch(|| match self.decode(d) {
            Ok(_) => "ok".to_string(),
            Err(e) => class_of(&e).to_string(),
        }) {
            Ok(c) => c,
            Err(p) => format!("panic:{p}"),
        }
    }
}

fn encode(p: &NtpPacket<'_>, buf: &mut Vec<u8>) -> Result<Vec<u8>, String> {
    let r = util::catch(|| {
        let mut cursor = Cursor::new(buf.as_mut_slice());
        p.serialize(&mut cursor, &NoCipher, None).map(|_| cursor.position() as usize)
    });
    match r {
        Err(p) => Err(format!("encode_panic:{p}")),
        Ok(Err(e)) => Err(format!("encode_err:{e}")),
        Ok(Ok(n)) => Ok(buf[..n].to_vec()),
    }
}

/// decode -> encode -> decode -> encode; returns (verdict, first re-encoding)
fn chain(d: &[u8], buf: &mut Vec<u8>) -> (String, Option<Vec<u8>>) {
    let p = match util::catch(|| NtpPacket::deserialize(d, &NoCipher).ok().map(|x| x.0)) {
        Ok(Some(p)) => p,
        _ => return ("n/a".into(), None),
    };
    let d1 = match encode(&p, buf) {
        Ok(x) => x,
        Err(e) => return (e, None),
    };
    let r = util::catch(|| {
        let p1 = match NtpPacket::deserialize(&d1, &NoCipher) {
            Ok((p1, _)) => p1,
            Err(e) => return format!("redecode:{}", class_of(&e)),
        };
        let d2 = match encode(&p1, buf) {
            Ok(x) => x,
            Err(e) => return format!("unstable:{e}"),
        };
        if d2 != d1 {
            return "unstable:bytes".into();
        }
        match NtpPacket::deserialize(&d2, &NoCipher) {
            Ok((p2, _)) if p2 == p1 => "ok".into(),
            _ => "unstable:packet".into(),
        }
    });
    match r {
        Ok(v) => (v, Some(d1)),
        Err(p) => (format!("panic:{p}"), Some(d1)),
    }
}

fn hex(b: &[u8]) -> String {
    b.iter().map(|x| format!("{x:02x}")).collect()
}

fn contexts(names: &Value, rng: &mut Rng) -> Vec<(String, Ctx)> {
    names.as_array().unwrap().iter().map(|n| {
        let n = n.as_str().unwrap();
        let c = match n {
            "none" => Ctx::NoKeys,
            "cipher" => Ctx::Cipher(Box::new(AesSivCmac256::try_from(&rng.bytes(32)[..]).unwrap())),
            "keyset" => Ctx::Keys(KeySetProvider::new(1).get()),
            "keyset_live" | "keyset_live_ct" => {
                // a key set with some history, so that live ids are not 0
                let mut prov = KeySetProvider::new(2);
                for _ in 0..5 {
                    prov.rotate();
                }
                let keys = prov.get();
                let c = keys.encode_cookie(&DecodedServerCookie {
                    algorithm: AeadAlgorithm::AeadAesSivCmac256,
                    s2c: Box::new(AesSivCmac256::try_from(&rng.bytes(32)[..]).unwrap()),
                    c2s: Box::new(AesSivCmac256::try_from(&rng.bytes(32)[..]).unwrap()),
                });
                let id: [u8; 4] = c[..4].try_into().unwrap();
                assert!(id != [0; 4] && id != [0xA5; 4]);
                let ct = if n == "keyset_live" { [0, 0] } else { [c[4], c[5]] };
                Ctx::KeysLive(keys, id, ct)
            }
            x => panic!("unknown context {x}"),
        };
        (n.to_string(), c)
    }).collect()
}

fn cases(job: &Value) {
    let input = util::read_ndjson(job["input"].as_str().unwrap());
    let mut out = util::NdjsonOut::create(job["output"].as_str().unwrap());
    let mut rng = Rng::new(job["seed"].as_u64().unwrap_or(0) ^ 0x7061);
    let ctxs = contexts(&job["contexts"], &mut rng);
    let do_chain = job["chain"].as_bool().unwrap_or(false);
    let mutations = job["mutations"].as_u64().unwrap_or(0);
    let mut buf = vec![0u8; 140_000];
    for c in input {
        let ver = c["ver"].as_u64().unwrap() as u8;
        let d = concretise(ver, &c["hc"], &c["body"], c["total"].as_u64().unwrap() as usize);
        let mut obs = serde_json::Map::new();
        for (n, cx) in &ctxs {
            obs.insert(n.clone(), json!(cx.class(&d)));
        }
        let mut res = json!({"id": c["id"], "obs": obs, "len": d.len()});
        if do_chain {
            let (verdict, d1) = chain(&d, &mut buf);
            res["chain"] = json!(verdict);
            // the model's re-encoding, concretised the same way
            if let Some(d1) = d1 {
                if c["enc"] == json!("ok") {
                    let mut hc1 = c["hc"].clone();
                    hc1["leap"] = c["leap1"].clone();
                    let mut m = header_bytes(ver, &hc1);
                    runs_bytes(&c["d1"], &mut m);
                    res["d1_equal"] = json!(m == d1);
                    if m != d1 {
                        res["d1_real"] = json!(hex(&d1));
                        res["d1_model"] = json!(hex(&m));
                    }
                }
            }
        }
        // seeded mutations: totality only
        let mut panics = vec![];
        for _ in 0..mutations {
            let mut x = d.clone();
            match rng.below(5) {
                0 if !x.is_empty() => {
                    let i = rng.below(x.len() as u64) as usize;
                    x[i] ^= 1 << rng.below(8);
                }
                1 if !x.is_empty() => {
                    let i = rng.below(x.len() as u64) as usize;
                    x[i] = rng.next() as u8;
                }
                2 if x.len() > 48 => {
                    // a length word
                    let i = 48 + 4 * rng.below(((x.len() - 48) / 4).max(1) as u64) as usize;
                    if i + 4 <= x.len() {
                        let v = *rng.pick(&[0u16, 1, 3, 4, 5, 8, 16, 24, 28, 0xFFFF, (x.len() - i) as u16, (x.len() - i + 1) as u16]);
                        x[i + 2..i + 4].copy_from_slice(&v.to_be_bytes());
                    }
                }
                3 => {
                    let n = rng.below(x.len() as u64 + 1) as usize;
                    x.truncate(n);
                }
                _ => {
                    let n = rng.below(40) as usize;
                    x.extend(rng.bytes(n));
                }
            }
            for (n, cx) in &ctxs {
                let r = cx.class(&x);
                if r.starts_with("panic") {
                    panics.push(json!({"ctx": n, "input": hex(&x), "panic": r}));
                }
            }
        }
        res["mutations"] = json!(mutations);
        if !panics.is_empty() {
            res["mutation_panics"] = json!(panics);
        }
        out.put(&res);
    }
    out.finish();
}

// ------------------------------------------------------------------------------------------------------------
// sealed datagrams
// ------------------------------------------------------------------------------------------------------------
fn cipher_of(alg: u64, key: &[u8]) -> Box<dyn Cipher> {
    if alg == 256 {
        Box::new(AesSivCmac256::try_from(key).unwrap())
    } else {
        Box::new(AesSivCmac512::try_from(key.iter()).unwrap())
    }
}

struct View {
    auth: Vec<ExtensionField<'static>>,
    enc: Vec<ExtensionField<'static>>,
    cookie: Option<(Vec<u8>, Vec<u8>)>,
}

fn view(cx: &Ctx, d: &[u8]) -> Result<Option<View>, String> {
    util::catch(|| {
        let (p, cookie) = match cx.decode(d) {
            Ok((p, c)) => (p, c),
            Err(ParsingError::DecryptError(p)) => (p, None),
            Err(_) => return None,
        };
        let p = p.into_owned();
        Some(View {
            auth: p.efdata.authenticated.clone(),
            enc: p.efdata.encrypted.clone(),
            cookie: cookie.map(|c| (c.s2c.key_bytes().to_vec(), c.c2s.key_bytes().to_vec())),
        })
    })
}

fn outcome(base: &View, v: &Option<View>) -> &'static str {
    match v {
        None => "none",
        Some(v) if v.auth.is_empty() && v.enc.is_empty() && v.cookie.is_none() => "none",
        Some(v) if v.auth == base.auth && v.enc == base.enc && v.cookie == base.cookie => "same",
        Some(_) => "other",
    }
}

fn sealed(job: &Value) {
    let input = util::read_ndjson(job["input"].as_str().unwrap());
    let mut out = util::NdjsonOut::create(job["output"].as_str().unwrap());
    let seed = job["seed"].as_u64().unwrap_or(0);
    let tamper = job["tamper"].as_bool().unwrap_or(true);
    for (idx, c) in input.iter().enumerate() {
        let mut rng = Rng::new(seed ^ ((idx as u64 + 1) << 20) ^ 0x5ea1);
        let ver = c["ver"].as_u64().unwrap() as u8;
        let alg = c["alg"].as_u64().unwrap();
        let dir = c["dir"].as_str().unwrap();
        let npre = c["npre"].as_u64().unwrap();
        let trailing = c["trailing"].as_bool().unwrap();
        let klen = if alg == 256 { 32 } else { 64 };
        let (c2s, s2c) = (rng.bytes(klen), rng.bytes(klen));
        let keyset = KeySetProvider::new(1).get();
        let mk_cookie = || {
            keyset.encode_cookie(&DecodedServerCookie {
                algorithm: if alg == 256 { AeadAlgorithm::AeadAesSivCmac256 } else { AeadAlgorithm::AeadAesSivCmac512 },
                s2c: cipher_of(alg, &s2c),
                c2s: cipher_of(alg, &c2s),
            })
        };
        let mut pre = vec![];
        if ver == 5 {
            pre.push(Ef::Draft(wire::DRAFT.to_vec()));
        }
        if npre >= 1 {
            pre.push(Ef::Uid(rng.bytes(32)));
        }
        if npre >= 2 {
            pre.push(Ef::Cookie(mk_cookie()));
        }
        if npre >= 3 {
            pre.push(Ef::Unknown(0x1234, rng.bytes(8)));
        }
        let inner = if dir == "s2c" { vec![Ef::Cookie(mk_cookie())] } else { vec![] };
        let unt = if trailing { vec![Ef::Unknown(0x4321, rng.bytes(24))] } else { vec![] };
        let seal_key = cipher_of(alg, if dir == "c2s" { &c2s } else { &s2c });
        let mut hdr = Hdr::new(ver, if dir == "c2s" { 3 } else { 4 });
        hdr.xmit = [1, 2, 3, 4, 5, 6, 7, 8];
        if ver == 5 {
            hdr.word3 = [0, 0, 0, 1];
        }
        let (d, lay) = wire::datagram(&hdr, &pre, Some((seal_key.as_ref(), &inner)), &unt);
        let a = lay.authenticator.unwrap();
        let pre_span = (48usize, a[0]);
        let regions: Vec<(&str, usize, usize)> = vec![
            ("header", 0, 48), ("pre", pre_span.0, pre_span.1), ("ahdr", a[0], a[1]), ("lens", a[1], a[2]), ("nonce", a[2], a[3]),
            ("npad", a[3], a[4]), ("ct", a[4], a[5]), ("cpad", a[5], a[6]), ("after", a[6], d.len()),
        ];
        let region_of = |off: usize| regions.iter().find(|r| r.1 <= off && off < r.2).map(|r| r.0).unwrap_or("?");
        // length words: of every field before the authenticator, of the authenticator, and its two inner lengths
        let mut len_bytes: Vec<usize> = vec![];
        for (s, _) in &lay.auth_fields {
            len_bytes.extend([s + 2, s + 3]);
        }
        len_bytes.extend([a[0] + 2, a[0] + 3, a[1], a[1] + 1, a[1] + 2, a[1] + 3]);
        if trailing {
            len_bytes.extend([a[6] + 2, a[6] + 3]);
        }
        // key contexts: the right one(s), none, a wrong one
        let mut right: Vec<(&str, Ctx)> = vec![("cipher", Ctx::Cipher(cipher_of(alg, if dir == "c2s" { &c2s } else { &s2c })))];
        if dir == "c2s" && npre >= 2 {
            right.push(("keyset", Ctx::Keys(keyset.clone())));
        }
        let wrong = Ctx::Cipher(cipher_of(alg, &rng.bytes(klen)));
        let mut res = json!({"id": idx, "case": c, "len": d.len(),
            "regions": regions.iter().map(|r| json!([r.0, r.1, r.2])).collect::<Vec<_>>(),
            "class_none": Ctx::NoKeys.class(&d), "class_wrong": wrong.class(&d),
            "class_right": right.iter().map(|(n, cx)| json!([n, cx.class(&d)])).collect::<Vec<_>>()});
        // totality under edits of whole 16-bit length words (field lengths, authenticator length, nonce length,
        // ciphertext length), each set to boundary values, decoded in every key context
        let mut word_offsets: Vec<usize> = lay.auth_fields.iter().map(|(s, _)| s + 2).collect();
        word_offsets.extend([a[0] + 2, a[1], a[1] + 2]);
        if trailing {
            word_offsets.push(a[6] + 2);
        }
        let mut word_panics = vec![];
        let mut word_decodes = 0u64;
        for &off in &word_offsets {
            let orig = u16::from_be_bytes([d[off], d[off + 1]]);
            for v in [0u16, 1, 3, 4, 5, 8, 15, 16, 17, 24, 28, 0x00FF, 0x0100, 0x7FFF, 0x8000, 0xFF00, 0xFFFB, 0xFFFC, 0xFFFD, 0xFFFE, 0xFFFF,
                      orig.wrapping_sub(1), orig.wrapping_add(1), orig.wrapping_add(4)] {
                if v == orig {
                    continue;
                }
                let mut x = d.clone();
                x[off..off + 2].copy_from_slice(&v.to_be_bytes());
                let mut all: Vec<(&str, &Ctx)> = right.iter().map(|(n, c)| (*n, c)).collect();
                all.push(("none", &Ctx::NoKeys));
                all.push(("wrong", &wrong));
                for (n, cx) in all {
                    word_decodes += 1;
                    let r = cx.class(&x);
                    if r.starts_with("panic") && word_panics.len() < 8 {
                        word_panics.push(json!({"ctx": n, "offset": off, "region": region_of(off), "value": v, "panic": r}));
                    }
                }
            }
        }
        // totality with a cut cookie: the cookie field in front of the authenticator is rebuilt with only the first L
        // bytes of the real cookie (it still names a key the server holds), the datagram re-sealed around it
        if let Some(ci) = pre.iter().position(|f| matches!(f, Ef::Cookie(_))) {
            let Ef::Cookie(full) = pre[ci].clone() else { unreachable!() };
            for cut in (0..=28usize).chain([full.len() - 17, full.len() - 16, full.len() - 1]) {
                for exact in [false, true] {
                    // `exact`: the length word says 4 + L (v4: rounded up to a word); otherwise padded up to the NTS minimum of 16
                    let mut pre2 = pre.clone();
                    pre2[ci] = if exact {
                        let unp = 4 + cut;
                        let wire_len = unp.div_ceil(4) * 4;
                        let mut raw = vec![0x02, 0x04];
                        raw.extend_from_slice(&((if ver == 5 { unp } else { wire_len }) as u16).to_be_bytes());
                        raw.extend_from_slice(&full[..cut]);
                        raw.resize(wire_len, 0);
                        Ef::Raw(raw)
                    } else {
                        Ef::Cookie(full[..cut].to_vec())
                    };
                    let (x, _) = wire::datagram(&hdr, &pre2, Some((seal_key.as_ref(), &inner)), &unt);
                    let mut all: Vec<(&str, &Ctx)> = right.iter().map(|(n, c)| (*n, c)).collect();
                    all.push(("none", &Ctx::NoKeys));
                    for (n, cx) in all {
                        word_decodes += 1;
                        let r = cx.class(&x);
                        if r.starts_with("panic") && word_panics.len() < 8 {
                            word_panics.push(json!({"ctx": n, "offset": lay.auth_fields[ci].0, "region": "cookie cut", "value": cut, "panic": r}));
                        }
                    }
                }
            }
        }
        res["word_decodes"] = json!(word_decodes);
        res["word_panics"] = json!(word_panics);
        let mut stats: std::collections::BTreeMap<String, [u64; 3]> = Default::default();
        let mut bad = vec![];
        let mut baseline = "ok".to_string();
        let mut decodes = 0u64;
        for (cname, cx) in &right {
            let base = match view(cx, &d) {
                Ok(Some(v)) => v,
                _ => {
                    baseline = format!("{cname}: the unmodified datagram does not decode");
                    continue;
                }
            };
            let want_cookie = *cname == "keyset";
            if base.auth.len() != pre.len() || base.enc.len() != inner.len() || base.cookie.is_some() != want_cookie {
                baseline = format!("{cname}: unexpected baseline auth={} enc={} cookie={}", base.auth.len(), base.enc.len(), base.cookie.is_some());
                // more fields reported as authenticated / decrypted than were put under the authenticator
                if base.auth.len() > pre.len() || base.enc.len() > inner.len() {
                    res["baseline_excess"] = json!({"ctx": cname, "authenticated": base.auth.len(), "sealed_in_front": pre.len(),
                                                    "encrypted": base.enc.len(), "sealed_inside": inner.len()});
                }
                continue;
            }
            if !tamper {
                continue;
            }
            let mut try_one = |x: &[u8], off: usize, what: String, stats: &mut std::collections::BTreeMap<String, [u64; 3]>, bad: &mut Vec<Value>| {
                let r = region_of(off);
                let (o, panic) = match view(cx, x) {
                    Ok(v) => (outcome(&base, &v), None),
                    Err(p) => ("panic", Some(p)),
                };
                let e = stats.entry(r.to_string()).or_insert([0; 3]);
                match o {
                    "none" => e[0] += 1,
                    "same" => e[1] += 1,
                    _ => e[2] += 1,
                }
                if (o == "other" || o == "panic" || (o == "same" && matches!(r, "header" | "pre" | "nonce" | "ct"))) && bad.len() < 8 {
                    bad.push(json!({"ctx": cname, "offset": off, "region": r, "change": what, "observed": o, "panic": panic}));
                }
            };
            let mut x = d.clone();
            for off in 0..d.len() {
                for bit in 0..8 {
                    x[off] ^= 1 << bit;
                    try_one(&x, off, format!("bit{bit}"), &mut stats, &mut bad);
                    x[off] ^= 1 << bit;
                    decodes += 1;
                }
            }
            for &off in &len_bytes {
                for v in 0..=255u8 {
                    if v != d[off] {
                        x[off] = v;
                        try_one(&x, off, format!("byte={v}"), &mut stats, &mut bad);
                        decodes += 1;
                    }
                }
                x[off] = d[off];
            }
        }
        res["baseline"] = json!(baseline);
        res["decodes"] = json!(decodes);
        res["stats"] = json!(stats.iter().map(|(k, v)| (k.clone(), json!({"none": v[0], "same": v[1], "other": v[2]}))).collect::<serde_json::Map<_, _>>());
        res["bad"] = json!(bad);
        out.put(&res);
    }
    out.finish();
}

#[test]
fn verif_packet() {
    let job = util::job();
    match job["mode"].as_str().unwrap() {
        "cases" => cases(&job),
        "sealed" => sealed(&job),
        m => panic!("unknown mode {m}"),
    }
}
