// verification harness (compiled into ntp-proto/src/packet/mod.rs under cfg(all(test, pendulum_project_ntpd_rs_verif)))
