// verification harness (compiled into ntp-proto/src/packet/v5/server_reference_id.rs under cfg(all(test, pendulum_project_ntpd_rs_verif)))
