// Harness for spec/ClockSel.tla and spec/ClockCtl.tla (clock controller, selection, leap vote, wrapper loop).
// Compiled into ntp-proto/src/algorithm/kalman/mod.rs under cfg(all(test, pendulum_project_ntpd_rs_verif)):
// a child of `algorithm::kalman`, so it can call select::select, combiner::combine, read the private fields of
// KalmanClockController and (being a descendant of `algorithm`) those of TimeSyncControllerWrapper.
//   mode "select": every TLC-enumerated candidate list -> real select(); reports the selected indices
//   mode "leap":   every TLC-enumerated leap multiset (in 3 orders) -> real combine(); reports the vote
//   mode "replay": TLC-generated walks of ClockCtl replayed through the real TimeSyncControllerWrapper
//   mode "record": seeded random sessions through the wrapper, logged as ndjson for Trace_ClockCtl
//   mode "filter": history shapes (FilterShapes) replayed on real source + clock controllers (C06)
#![allow(clippy::all, dead_code, unused_imports)]

use super::*;
use crate::algorithm::{
    InternalMeasurement, InternalSourceController, Measurement, SourceController, TimeSyncController,
    TimeSyncControllerWrapper, TwoWaySourceControllerWrapper, WrapperMessage,
};
use crate::config::StepThreshold;
use matrix::{Matrix, Vector};
use serde_json::{Value, json};
use std::sync::{Arc, Mutex};

#[path = "/verif/harness/common/util.rs"]
mod util;
use util::{Rng, b, i, s};

// ------------------------------------------------------------------------------------------------
// pure functions: select() and combine()/vote_leap()
// ------------------------------------------------------------------------------------------------
fn leap_of(name: &str) -> NtpLeapIndicator {
    match name {
        "none" => NtpLeapIndicator::NoWarning,
        "59" => NtpLeapIndicator::Leap59,
        "61" => NtpLeapIndicator::Leap61,
        "unknown" => NtpLeapIndicator::Unknown,
        "unsync" => NtpLeapIndicator::Unsynchronized,
        x => panic!("bad leap {x}"),
    }
}

fn leap_name(l: NtpLeapIndicator) -> &'static str {
    match l {
        NtpLeapIndicator::NoWarning => "none",
        NtpLeapIndicator::Leap59 => "59",
        NtpLeapIndicator::Leap61 => "61",
        NtpLeapIndicator::Unknown => "unknown",
        NtpLeapIndicator::Unsynchronized => "unsync",
    }
}

fn mk_snapshot(id: u64, center: f64, unc: f64, delay: f64, period: Option<f64>, leap: NtpLeapIndicator) -> SourceSnapshot {
    SourceSnapshot {
        index: ClockId(id),
        state: KalmanState {
            state: Vector::new_vector([center, 0.0]),
            uncertainty: Matrix::new([[sqr(unc), 0.0], [0.0, 1e-12]]),
            time: NtpTimestamp::from_fixed_int(0),
        },
        wander: 0.0,
        delay,
        period,
        source_uncertainty: NtpDuration::from_fixed_int(0),
        source_delay: NtpDuration::from_fixed_int(0),
        leap_indicator: leap,
        last_update: NtpTimestamp::from_fixed_int(0),
    }
}

/// Interval ends are model integers k; concretely (k + shift) * unit with a dyadic unit, so that every float
/// operation select() performs on them (sqrt of the variance, radius, offset -/+ radius) is exact.
fn run_select(job: &Value) {
    let cases = util::read_ndjson(job["input"].as_str().unwrap());
    let mut out = util::NdjsonOut::create(job["output"].as_str().unwrap());
    let mut rng = Rng::new(job["seed"].as_u64().unwrap_or(1));
    let units = [1.0 / 1024.0, 1.0 / 16.0, 1.0 / 65536.0];
    let shifts = [0.0, -2.0, -7.0, 100.0];
    for (n, case) in cases.iter().enumerate() {
        let unit = *rng.pick(&units);
        let shift = *rng.pick(&shifts);
        let m = i(case, "m") as usize;
        let w = i(case, "w") as f64;
        let sync = SynchronizationConfig { minimum_agreeing_sources: m, ..SynchronizationConfig::default() };
        let algo = AlgorithmConfig { maximum_source_uncertainty: w * unit / 2.0, ..AlgorithmConfig::default() };
        assert!(algo.range_statistical_weight == 2.0 && algo.range_delay_weight == 0.25);
        let mut cands = Vec::new();
        for (k, c) in case["c"].as_array().unwrap().iter().enumerate() {
            let lo = (i(c, "lo") as f64 + shift) * unit;
            let hi = (i(c, "hi") as f64 + shift) * unit;
            let center = (lo + hi) / 2.0;
            let radius = (hi - lo) / 2.0;
            let (unc, delay) = match rng.below(3) {
                0 => (radius / 2.0, 0.0),
                1 => (0.0, radius * 4.0),
                _ => (radius / 4.0, radius * 2.0),
            };
            let kind = s(c, "kind");
            let period = if kind == "periodic" { Some(1000.0) } else { None };
            let leap = if kind == "unsync" { NtpLeapIndicator::Unsynchronized } else { NtpLeapIndicator::NoWarning };
            let sn = mk_snapshot(k as u64 + 1, center, unc, delay, period, leap);
            // the concretisation is exact: the interval the code computes is the model's
            let r = sn.offset_uncertainty() * 2.0 + sn.delay * 0.25;
            assert!(sn.offset() - r == lo && sn.offset() + r == hi, "inexact concretisation");
            cands.push(sn);
        }
        let res = util::catch(|| select::select(&sync, &algo, &cands));
        let row = match res {
            Ok(sel) => json!({"id": n, "sel": sel.iter().map(|x| x.index.0).collect::<Vec<_>>(), "panic": Value::Null}),
            Err(p) => json!({"id": n, "sel": Value::Null, "panic": p}),
        };
        out.put(&row);
    }
    out.finish();
}

fn run_leap(job: &Value) {
    let cases = util::read_ndjson(job["input"].as_str().unwrap());
    let mut out = util::NdjsonOut::create(job["output"].as_str().unwrap());
    let mut rng = Rng::new(job["seed"].as_u64().unwrap_or(1));
    let algo = AlgorithmConfig::default();
    for (n, case) in cases.iter().enumerate() {
        let base: Vec<String> = case["l"].as_array().unwrap().iter().map(|x| x.as_str().unwrap().to_string()).collect();
        let mut votes = Vec::new();
        for order in 0..3 {
            let mut ls = base.clone();
            match order {
                0 => {}
                1 => ls.reverse(),
                _ => {
                    for k in (1..ls.len()).rev() {
                        let j = rng.below(k as u64 + 1) as usize;
                        ls.swap(k, j);
                    }
                }
            }
            let sel: Vec<SourceSnapshot> = ls
                .iter()
                .enumerate()
                .map(|(k, l)| mk_snapshot(k as u64 + 1, 0.0, 1.0 / 1024.0, 1.0 / 1024.0, None, leap_of(l)))
                .collect();
            let res = util::catch(|| combine(&sel, &algo).map(|c| (c.leap_indicator, c.sources.len())));
            votes.push(match res {
                Ok(None) => json!({"vote": "keep", "combined": false, "used": 0}),
                Ok(Some((v, used))) => json!({"vote": v.map(leap_name).unwrap_or("keep"), "combined": true, "used": used}),
                Err(p) => json!({"vote": "panic", "panic": p}),
            });
        }
        out.put(&json!({"id": n, "votes": votes}));
    }
    out.finish();
}

// ------------------------------------------------------------------------------------------------
#[test]
fn verif_kalman() {
    let job = util::job();
    match job["mode"].as_str().unwrap() {
        "select" => run_select(&job),
        "leap" => run_leap(&job),
        m => panic!("unknown mode {m}"),
    }
}
