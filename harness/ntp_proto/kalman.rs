// verification harness (compiled into ntp-proto/src/algorithm/kalman/mod.rs under cfg(all(test, pendulum_project_ntpd_rs_verif)))
