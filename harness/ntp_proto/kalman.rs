// Harness for spec/ClockSel.tla and spec/ClockCtl.tla (clock controller, selection, leap vote, wrapper loop).
// Compiled into ntp-proto/src/algorithm/kalman/mod.rs under cfg(all(test, pendulum_project_ntpd_rs_verif)):
// a child of `algorithm::kalman`, so it can call select::select, combiner::combine, read the private fields of
// KalmanClockController and (being a descendant of `algorithm`) those of TimeSyncControllerWrapper.
//   mode "select": every TLC-enumerated candidate list -> real select(); reports the selected indices
//   mode "leap":   every TLC-enumerated leap multiset (in 3 orders) -> real combine(); reports the vote
//   mode "replay": TLC-generated walks of ClockCtl replayed through the real TimeSyncControllerWrapper (public API:
//                  add_source / handle_measurement / set_usable / drop / run) with a recording NtpClock; the run()
//                  future is polled by hand once per delivered message, "Threshold exceeded" panics are the Exit
//   mode "filter": history shapes (FilterShapes) replayed on real source + clock controllers (C06)
// (no "record" mode: trace validation of random sessions against ClockCtl is not implemented)
#![allow(clippy::all, dead_code, unused_imports)]

use super::*;
use crate::algorithm::{
    InternalMeasurement, InternalSourceController, Measurement, SourceController, TimeSyncController,
    TimeSyncControllerWrapper, TwoWaySourceControllerWrapper, WrapperMessage,
};
use crate::config::StepThreshold;
use matrix::{Matrix, Vector};
use serde_json::{Value, json};
use std::sync::{Arc, Mutex};

#[path = "/verif/harness/common/util.rs"]
mod util;
use util::{Rng, b, i, s};

// ------------------------------------------------------------------------------------------------
// pure functions: select() and combine()/vote_leap()
// ------------------------------------------------------------------------------------------------
fn leap_of(name: &str) -> NtpLeapIndicator {
    match name {
        "none" => NtpLeapIndicator::NoWarning,
        "59" => NtpLeapIndicator::Leap59,
        "61" => NtpLeapIndicator::Leap61,
        "unknown" => NtpLeapIndicator::Unknown,
        "unsync" => NtpLeapIndicator::Unsynchronized,
        x => panic!("bad leap {x}"),
    }
}

fn leap_name(l: NtpLeapIndicator) -> &'static str {
    match l {
        NtpLeapIndicator::NoWarning => "none",
        NtpLeapIndicator::Leap59 => "59",
        NtpLeapIndicator::Leap61 => "61",
        NtpLeapIndicator::Unknown => "unknown",
        NtpLeapIndicator::Unsynchronized => "unsync",
    }
}

fn mk_snapshot(id: u64, center: f64, unc: f64, delay: f64, period: Option<f64>, leap: NtpLeapIndicator) -> SourceSnapshot {
    SourceSnapshot {
        index: ClockId(id),
        state: KalmanState {
            state: Vector::new_vector([center, 0.0]),
            uncertainty: Matrix::new([[sqr(unc), 0.0], [0.0, 1e-12]]),
            time: NtpTimestamp::from_fixed_int(0),
        },
        wander: 0.0,
        delay,
        period,
        source_uncertainty: NtpDuration::from_fixed_int(0),
        source_delay: NtpDuration::from_fixed_int(0),
        leap_indicator: leap,
        last_update: NtpTimestamp::from_fixed_int(0),
    }
}

/// Interval ends are model integers k; concretely (k + shift) * unit with a dyadic unit, so that every float
/// operation select() performs on them (sqrt of the variance, radius, offset -/+ radius) is exact.
fn run_select(job: &Value) {
    let cases = util::read_ndjson(job["input"].as_str().unwrap());
    let mut out = util::NdjsonOut::create(job["output"].as_str().unwrap());
    let mut rng = Rng::new(job["seed"].as_u64().unwrap_or(1));
    let units = [1.0 / 1024.0, 1.0 / 16.0, 1.0 / 65536.0];
    let shifts = [0.0, -2.0, -7.0, 100.0];
    for (n, case) in cases.iter().enumerate() {
        let unit = *rng.pick(&units);
        let shift = *rng.pick(&shifts);
        let m = i(case, "m") as usize;
        let w = i(case, "w") as f64;
        let sync = SynchronizationConfig { minimum_agreeing_sources: m, ..SynchronizationConfig::default() };
        let algo = AlgorithmConfig { maximum_source_uncertainty: w * unit / 2.0, ..AlgorithmConfig::default() };
        assert!(algo.range_statistical_weight == 2.0 && algo.range_delay_weight == 0.25);
        let mut cands = Vec::new();
        for (k, c) in case["c"].as_array().unwrap().iter().enumerate() {
            let lo = (i(c, "lo") as f64 + shift) * unit;
            let hi = (i(c, "hi") as f64 + shift) * unit;
            let center = (lo + hi) / 2.0;
            let radius = (hi - lo) / 2.0;
            let (unc, delay) = match rng.below(3) {
                0 => (radius / 2.0, 0.0),
                1 => (0.0, radius * 4.0),
                _ => (radius / 4.0, radius * 2.0),
            };
            let kind = s(c, "kind");
            let period = if kind == "periodic" { Some(1000.0) } else { None };
            let leap = if kind == "unsync" { NtpLeapIndicator::Unsynchronized } else { NtpLeapIndicator::NoWarning };
            let sn = mk_snapshot(k as u64 + 1, center, unc, delay, period, leap);
            // the concretisation is exact: the interval the code computes is the model's
            let r = sn.offset_uncertainty() * 2.0 + sn.delay * 0.25;
            assert!(sn.offset() - r == lo && sn.offset() + r == hi, "inexact concretisation");
            cands.push(sn);
        }
        let res = util::catch(|| select::select(&sync, &algo, &cands));
        let row = match res {
            Ok(sel) => json!({"id": n, "sel": sel.iter().map(|x| x.index.0).collect::<Vec<_>>(), "panic": Value::Null}),
            Err(p) => json!({"id": n, "sel": Value::Null, "panic": p}),
        };
        out.put(&row);
    }
    out.finish();
}

fn run_leap(job: &Value) {
    let cases = util::read_ndjson(job["input"].as_str().unwrap());
    let mut out = util::NdjsonOut::create(job["output"].as_str().unwrap());
    let mut rng = Rng::new(job["seed"].as_u64().unwrap_or(1));
    let algo = AlgorithmConfig::default();
    for (n, case) in cases.iter().enumerate() {
        let base: Vec<String> = case["l"].as_array().unwrap().iter().map(|x| x.as_str().unwrap().to_string()).collect();
        let mut votes = Vec::new();
        for order in 0..3 {
            let mut ls = base.clone();
            match order {
                0 => {}
                1 => ls.reverse(),
                _ => {
                    for k in (1..ls.len()).rev() {
                        let j = rng.below(k as u64 + 1) as usize;
                        ls.swap(k, j);
                    }
                }
            }
            let sel: Vec<SourceSnapshot> = ls
                .iter()
                .enumerate()
                .map(|(k, l)| mk_snapshot(k as u64 + 1, 0.0, 1.0 / 1024.0, 1.0 / 1024.0, None, leap_of(l)))
                .collect();
            let res = util::catch(|| combine(&sel, &algo).map(|c| (c.leap_indicator, c.sources.len())));
            votes.push(match res {
                Ok(None) => json!({"vote": "keep", "combined": false, "used": 0}),
                Ok(Some((v, used))) => json!({"vote": v.map(leap_name).unwrap_or("keep"), "combined": true, "used": used}),
                Err(p) => json!({"vote": "panic", "panic": p}),
            });
        }
        out.put(&json!({"id": n, "votes": votes}));
    }
    out.finish();
}

// ------------------------------------------------------------------------------------------------
// ClockCtl: the real wrapper + controller + source controllers behind a recording clock
// ------------------------------------------------------------------------------------------------
#[derive(Default)]
struct ClockLog {
    steps: Vec<NtpDuration>,
    freqs: Vec<f64>,
    errs: Vec<(NtpDuration, NtpDuration)>,
    status: Vec<NtpLeapIndicator>,
    stepped: NtpDuration, // sum of all steps
    mono: NtpDuration,    // monotonic time elapsed (stays 0 in the ClockCtl replays): local clock = base + mono + stepped
    freq: f64,
}

#[derive(Clone)]
struct MockClock {
    log: Arc<Mutex<ClockLog>>,
    base: NtpTimestamp,
}

impl MockClock {
    fn new(freq0: f64) -> Self {
        MockClock {
            log: Arc::new(Mutex::new(ClockLog { freq: freq0, ..Default::default() })),
            base: NtpTimestamp::from_fixed_int(1000u64 << 32),
        }
    }
    fn local(&self) -> NtpTimestamp {
        let l = self.log.lock().unwrap();
        self.base + l.mono + l.stepped
    }
}

impl NtpClock for MockClock {
    type Error = std::io::Error;
    fn now(&self) -> Result<NtpTimestamp, Self::Error> {
        Ok(self.local())
    }
    fn set_frequency(&self, freq: f64) -> Result<NtpTimestamp, Self::Error> {
        let mut l = self.log.lock().unwrap();
        l.freqs.push(freq);
        l.freq = freq;
        Ok(self.base + l.mono + l.stepped)
    }
    fn get_frequency(&self) -> Result<f64, Self::Error> {
        Ok(self.log.lock().unwrap().freq)
    }
    fn step_clock(&self, offset: NtpDuration) -> Result<NtpTimestamp, Self::Error> {
        let mut l = self.log.lock().unwrap();
        l.steps.push(offset);
        l.stepped = l.stepped + offset;
        Ok(self.base + l.mono + l.stepped)
    }
    fn disable_ntp_algorithm(&self) -> Result<(), Self::Error> {
        Ok(())
    }
    fn error_estimate_update(&self, est_error: NtpDuration, max_error: NtpDuration) -> Result<(), Self::Error> {
        self.log.lock().unwrap().errs.push((est_error, max_error));
        Ok(())
    }
    fn status_update(&self, leap_status: NtpLeapIndicator) -> Result<(), Self::Error> {
        self.log.lock().unwrap().status.push(leap_status);
        Ok(())
    }
}

type Ctl = KalmanClockController<MockClock>;
type Wrapper = TimeSyncControllerWrapper<Ctl>;
type SrcHandle = TwoWaySourceControllerWrapper<TwoWayKalmanSourceController>;
type Wire = (ClockId, WrapperMessage<KalmanSourceMessage>);

const INF: i64 = 9999;
const UNIT: i64 = 1 << 32;

/// raw 32.32 fixed-point value of a duration (NtpDuration has no crate-visible accessor: 0 + d round-trips it)
fn fixed(d: NtpDuration) -> i64 {
    i64::from_be_bytes((NtpTimestamp::from_fixed_int(0) + d).to_bits())
}

/// whole seconds of a fixed-point duration if it is a whole number of seconds, else a tagged raw value
fn secs_json(d: NtpDuration) -> Value {
    let f = fixed(d);
    if f % UNIT == 0 { json!(f / UNIT) } else { json!(format!("raw:{f}")) }
}

fn secs_f64_json(x: f64) -> Value {
    if x.fract() == 0.0 && x.abs() < 1e9 { json!(x as i64) } else { json!(format!("f64:{x:e}")) }
}

struct CtlCfg {
    n: usize,
    sync: SynchronizationConfig,
    algo: AlgorithmConfig,
    f0: f64,
    ghosts: bool,
}

fn thr(v: i64, rng: &mut Rng) -> Option<NtpDuration> {
    if v == INF {
        None
    } else if v % 2 == 0 {
        Some(NtpDuration::from_fixed_int((v / 2) * UNIT))
    } else if rng.chance(1, 2) {
        Some(NtpDuration::from_fixed_int((v / 2) * UNIT + 1)) // one unit above k seconds
    } else {
        Some(NtpDuration::from_fixed_int((v / 2 + 1) * UNIT - 1)) // one unit below k+1 seconds
    }
}

impl CtlCfg {
    fn from(c: &Value, rng: &mut Rng) -> Self {
        let sync = SynchronizationConfig {
            minimum_agreeing_sources: i(c, "MinAgree") as usize,
            single_step_panic_threshold: StepThreshold { forward: thr(i(c, "Fwd2"), rng), backward: thr(i(c, "Bwd2"), rng) },
            startup_step_panic_threshold: StepThreshold { forward: thr(i(c, "SFwd2"), rng), backward: thr(i(c, "SBwd2"), rng) },
            accumulated_step_panic_threshold: thr(i(c, "Acc2"), rng),
            ..SynchronizationConfig::default()
        };
        let algo = AlgorithmConfig {
            step_threshold: i(c, "StepThresh") as f64,
            steer_offset_leftover: 0.0,
            maximum_frequency_steer: i(c, "MaxSteer") as f64 * 1e-6,
            slew_maximum_frequency_offset: i(c, "SlewMax") as f64 * 1e-6,
            ..AlgorithmConfig::default()
        };
        let f0 = i(c, "F0") as f64 * 1e-6 * if b(c, "F0Neg") { -1.0 } else { 1.0 };
        CtlCfg { n: i(c, "N") as usize, sync, algo, f0, ghosts: b(c, "Ghosts") }
    }
}

struct Slot {
    id: Option<ClockId>,
    handle: Option<SrcHandle>,
    samples: usize,
    stash: Option<KalmanSourceMessage>,
}

struct World {
    cfg: CtlCfg,
    clock: MockClock,
    w: Arc<Wrapper>,
    from_sources: tokio::sync::mpsc::UnboundedReceiver<Wire>,
    to_loop: tokio::sync::mpsc::UnboundedSender<Wire>,
    chan: std::collections::VecDeque<Wire>,
    slots: Vec<Slot>,
    next_id: u64,
    dead: bool,
}

impl World {
    fn new(cfg: CtlCfg) -> World {
        let clock = MockClock::new(cfg.f0);
        let w = Wrapper::new(clock.clone(), cfg.sync, cfg.algo).expect("wrapper");
        // The sources write into the wrapper's own channel; the harness relays its messages one at a time
        // into a second channel that run() reads, so that "the loop consumes exactly one message" is a step.
        let (to_loop, loop_rx) = tokio::sync::mpsc::unbounded_channel();
        let from_sources = w.messages_for_system.lock().unwrap().replace(loop_rx).expect("receiver");
        w.take_control().expect("take_control");
        let slots = (0..cfg.n).map(|_| Slot { id: None, handle: None, samples: 0, stash: None }).collect();
        let mut wd = World { cfg, clock, w: Arc::new(w), from_sources, to_loop, chan: Default::default(), slots, next_id: 100, dead: false };
        wd.take_log();
        wd
    }

    fn take_log(&mut self) -> ClockLog {
        let mut l = self.clock.log.lock().unwrap();
        let out = ClockLog {
            steps: std::mem::take(&mut l.steps),
            freqs: std::mem::take(&mut l.freqs),
            errs: std::mem::take(&mut l.errs),
            status: std::mem::take(&mut l.status),
            stepped: l.stepped,
            mono: l.mono,
            freq: l.freq,
        };
        out
    }

    fn drain(&mut self) {
        while let Ok(m) = self.from_sources.try_recv() {
            self.chan.push_back(m);
        }
    }

    fn slot_of(&self, id: ClockId) -> Option<usize> {
        self.slots.iter().position(|s| s.id == Some(id))
    }

    fn measure(&mut self, k: usize, off: i64, leap: NtpLeapIndicator, wide: bool) {
        let now = self.clock.local();
        let id = self.slots[k].id.unwrap();
        let d = if wide { UNIT } else { 1 << 14 }; // 1 s or 2^-18 s (MIN_DELAY)
        // a fixed-point offset of off * (2^32 - 1) units converts to exactly `off` seconds as f64
        let off_fixed = off * (UNIT - 1);
        let t1 = now - NtpDuration::from_fixed_int(d);
        let t2 = t1 + NtpDuration::from_fixed_int(off_fixed + d / 2);
        let zero = NtpDuration::from_fixed_int(0);
        let outgoing = Measurement { sender_id: ClockId::SYSTEM, receiver_id: id, sender_ts: t1, receiver_ts: t2,
                                     root_delay: zero, root_dispersion: zero, leap, precision: 0 };
        let incoming = Measurement { sender_id: id, receiver_id: ClockId::SYSTEM, sender_ts: t2, receiver_ts: now,
                                     root_delay: zero, root_dispersion: zero, leap, precision: 0 };
        let h = self.slots[k].handle.as_mut().unwrap();
        h.handle_measurement(outgoing);
        h.handle_measurement(incoming);
        self.slots[k].samples += 1;
    }

    /// one source-side or timer action; controller-loop polling is done by the caller
    fn source_action(&mut self, a: &Value) {
        let t = s(a, "t");
        let k = a.get("i").and_then(|x| x.as_i64()).map(|x| x as usize - 1);
        match t.as_str() {
            "Add" => {
                let k = k.unwrap();
                let id = ClockId(self.next_id);
                self.next_id += 1;
                let h = self.w.add_source(id, SourceConfig::default());
                self.slots[k] = Slot { id: Some(id), handle: Some(h), samples: 0, stash: None };
            }
            "Meas" => self.measure(k.unwrap(), i(a, "off"), leap_of(&s(a, "leap")), b(a, "wide")),
            "Usable" => self.slots[k.unwrap()].handle.as_mut().unwrap().set_usable(b(a, "b")),
            "Drop" => {
                let k = k.unwrap();
                self.slots[k].handle = None;
                self.slots[k].samples = 0;
            }
            _ => unreachable!(),
        }
        self.drain();
    }

    fn radius(&self, sn: &SourceSnapshot) -> f64 {
        sn.offset_uncertainty() * self.cfg.algo.range_statistical_weight + sn.delay * self.cfg.algo.range_delay_weight
    }

    fn time_json(&self, t: NtpTimestamp) -> Value {
        secs_json(t - self.clock.base)
    }

    fn snap_json(&self, sn: Option<&SourceSnapshot>) -> Value {
        match sn {
            None => json!({"has": false, "off": 0, "t": 0, "leap": "none", "wide": false}),
            Some(sn) => {
                let wide = !(self.radius(sn) <= self.cfg.algo.maximum_source_uncertainty);
                json!({"has": true, "off": if wide { json!(0) } else { secs_f64_json(sn.offset()) }, "t": self.time_json(sn.state.time),
                       "leap": leap_name(sn.leap_indicator), "wide": wide})
            }
        }
    }

    fn msg_json(&self, m: &Wire) -> Value {
        let slot = self.slot_of(m.0).map(|x| x as i64 + 1).unwrap_or(-1);
        match &m.1 {
            WrapperMessage::SourceMessage(sm) => {
                let sn = &sm.inner;
                let wide = !(self.radius(sn) <= self.cfg.algo.maximum_source_uncertainty);
                json!({"i": slot, "k": "M", "off": secs_f64_json(sn.offset()), "tm": self.time_json(sn.last_update),
                       "leap": leap_name(sn.leap_indicator), "wide": wide, "b": false})
            }
            WrapperMessage::UsabilityChange(u) => json!({"i": slot, "k": "U", "off": 0, "tm": 0, "leap": "none", "wide": false, "b": u}),
            WrapperMessage::Dropped => json!({"i": slot, "k": "D", "off": 0, "tm": 0, "leap": "none", "wide": false, "b": false}),
        }
    }

    /// projection of the real state onto the specification's state record (`expected` supplies the
    /// fields that have no counterpart in the implementation)
    fn observe(&self, expected: &Value) -> Value {
        if self.dead {
            let mut o = expected.clone();
            o["dead"] = json!(true);
            return o;
        }
        let ctl = self.w.inner.lock().unwrap();
        let (snapshot, used) = self.w.synchronization_state();
        let mut src = Vec::new();
        for (k, sl) in self.slots.iter().enumerate() {
            let entry = sl.id.and_then(|id| ctl.sources.get(&id));
            let sv = match &sl.handle {
                Some(h) if sl.samples > 0 => {
                    let o = h.observe();
                    json!({"n": sl.samples, "off": secs_json(o.offset), "wide": fixed(o.delay) >= UNIT})
                }
                _ => json!({"n": 0, "off": 0, "wide": false}),
            };
            src.push(json!({
                "alive": sl.handle.is_some(),
                "reg": entry.is_some(),
                "usable": entry.map(|e| e.1).unwrap_or(false),
                "had": expected["src"][k]["had"].clone(),
                "was": expected["src"][k]["was"].clone(),
                "sv": sv,
                "snap": self.snap_json(entry.and_then(|e| e.0.as_ref())),
            }));
        }
        // ids of earlier occupants of a re-used slot may linger in the published list until the next estimate
        let mut used_slots: Vec<i64> = used.iter().filter_map(|id| self.slot_of(*id).map(|x| x as i64 + 1)).collect();
        used_slots.sort();
        let des = ctl.desired_freq;
        json!({
            "src": src,
            "chan": self.chan.iter().map(|m| self.msg_json(m)).collect::<Vec<_>>(),
            "inStartup": ctl.in_startup,
            "acc": secs_json(ctl.timedata.accumulated_steps),
            "slew": if des == 0.0 { 0 } else if des < 0.0 { 1 } else { -1 },
            "leap": leap_name(snapshot.leap_indicator),
            "used": used_slots,
            "dead": false,
            "clk": self.time_json(self.clock.local()),
            "f": (ctl.freq_offset * 1e6).round() as i64,
        })
    }

    fn out_json(&mut self, exit: bool) -> Value {
        let l = self.take_log();
        let max = self.cfg.algo.maximum_frequency_steer;
        let mut freq_ok = l.freqs.iter().all(|f| f.is_finite() && f.abs() <= max);
        if !self.dead {
            let ctl = self.w.inner.lock().unwrap();
            freq_ok &= ctl.desired_freq.abs() <= self.cfg.algo.slew_maximum_frequency_offset;
            freq_ok &= ctl.freq_offset.abs() <= max || (l.freqs.is_empty() && ctl.freq_offset == self.cfg.f0);
        }
        json!({
            "steps": l.steps.iter().map(|d| secs_json(*d)).collect::<Vec<_>>(),
            "exit": exit,
            "err": !l.errs.is_empty(),
            "status": l.status.iter().map(|x| leap_name(*x)).collect::<Vec<_>>(),
            "freqs": l.freqs.iter().map(|f| (f * 1e6).round() as i64).collect::<Vec<_>>(),
            "freqOk": freq_ok,
        })
    }
}

/// polls the wrapper's run() future once: it consumes whatever is ready (the harness makes exactly one thing ready)
async fn poll_loop<F: std::future::Future<Output = ()>>(run: &mut std::pin::Pin<&mut F>) -> Result<(), String> {
    std::future::poll_fn(|cx| {
        let r = util::catch(|| {
            let _ = run.as_mut().poll(cx);
        });
        std::task::Poll::Ready(r)
    })
    .await
}

/// Executes one abstract action on the real objects; returns (observed out, panic message if unexpected)
async fn do_action<F: std::future::Future<Output = ()>>(wd: &mut World, run: &mut std::pin::Pin<&mut F>, a: &Value) -> (Value, Option<String>) {
    let t = s(a, "t");
    let mut panic = None;
    let mut exit = false;
    match t.as_str() {
        "Add" | "Meas" | "Usable" | "Drop" => {
            if let Err(p) = util::catch(|| wd.source_action(a)) {
                panic = Some(p);
            }
        }
        "Recv" | "SlewEnd" | "Ghost" => {
            match t.as_str() {
                "Recv" => {
                    let m = wd.chan.pop_front().expect("model says the channel is not empty");
                    if let WrapperMessage::SourceMessage(sm) = &m.1 {
                        if let Some(k) = wd.slot_of(m.0) {
                            wd.slots[k].stash = Some(*sm);
                        }
                    }
                    wd.to_loop.send(m).ok();
                }
                "SlewEnd" => {
                    // slews are for 1 s at the maximum slew frequency (all modelled slews correct exactly 1 s)
                    let d = 1.0 / wd.cfg.algo.slew_maximum_frequency_offset.min(1.0 / wd.cfg.algo.slew_minimum_duration);
                    tokio::time::advance(std::time::Duration::from_secs_f64(d + 1.0)).await
                }
                _ => {
                    let k = i(a, "i") as usize - 1;
                    let id = wd.slots[k].id.unwrap();
                    let sm = wd.slots[k].stash.expect("ghost needs an earlier message");
                    wd.to_loop.send((id, WrapperMessage::UsabilityChange(true))).ok();
                    wd.to_loop.send((id, WrapperMessage::SourceMessage(sm))).ok();
                }
            }
            match poll_loop(run).await {
                Ok(()) => {}
                Err(p) if p == "Threshold exceeded" => {
                    exit = true;
                    wd.dead = true;
                }
                Err(p) => {
                    wd.dead = true;
                    panic = Some(p);
                }
            }
            wd.drain();
        }
        x => panic!("unknown action {x}"),
    }
    (wd.out_json(exit), panic)
}

/// derived observables of a (state, out) pair in the specification's JSON shape, see ConeTable in ClockCtl.tla
fn derived(st: &Value, out: &Value) -> (Value, Value, Value) {
    let clk = st["clk"].as_i64();
    let rel = |v: &Value, sign: i64| match (v.as_i64(), clk) {
        (Some(x), Some(c)) => json!(x + sign * c),
        _ => json!([v.clone(), st["clk"].clone()]),
    };
    let mut reg = Vec::new();
    let mut abs = Vec::new();
    let mut ok_set = Vec::new();
    for (k, sl) in st["src"].as_array().map(|a| a.as_slice()).unwrap_or(&[]).iter().enumerate() {
        let sn = &sl["snap"];
        let has = sn["has"] == json!(true);
        let wide = sn["wide"] == json!(true);
        reg.push(json!([sl["alive"], sl["reg"], sl["usable"], sn["has"], if has { sn["leap"].clone() } else { json!("none") }]));
        abs.push(json!([
            if has && !wide { rel(&sn["off"], 1) } else { json!(0) },
            if has { rel(&sn["t"], -1) } else { json!(0) },
            wide,
            if sl["sv"]["n"] != json!(0) { rel(&sl["sv"]["off"], 1) } else { json!(0) },
            sl["sv"]["n"],
            sl["sv"]["wide"],
        ]));
        if sl["reg"] == json!(true) && sl["usable"] == json!(true) {
            ok_set.push(json!(k as i64 + 1));
        }
    }
    let used_ok = if out["err"] == json!(true) {
        st["used"].as_array().map(|u| u.iter().all(|x| ok_set.contains(x))).unwrap_or(false)
    } else {
        true
    };
    (json!(reg), json!(abs), json!(used_ok))
}

fn diff_state(expected_post: &Value, expected_out: &Value, st: &Value, out: &Value) -> Vec<String> {
    let mut fields = Vec::new();
    if expected_post["dead"] == json!(true) || st["dead"] == json!(true) {
        if expected_post["dead"] != st["dead"] {
            fields.push("dead".to_string());
        }
    } else {
        util::diff_fields("", expected_post, st, &mut fields);
        let e = derived(expected_post, expected_out);
        let o = derived(st, out);
        if e.0 != o.0 {
            fields.push("srcReg".to_string());
        }
        if e.1 != o.1 {
            fields.push("srcAbs".to_string());
        }
        if e.2 != o.2 {
            fields.push("usedOk".to_string());
        }
    }
    // "cons": this update reached a combined estimate (it went on to the steering decision)
    let cons = |o: &Value| o["err"] == json!(true) || o["exit"] == json!(true);
    if cons(expected_out) != cons(out) {
        fields.push("cons".to_string());
    }
    util::diff_fields("out.", expected_out, out, &mut fields);
    // frequencies are modelled in whole ppm without the second-order term of (1+f)(1+c)-1 (< 0.3 ppm per call,
    // reset by every saturation): compare with a tolerance of 8 ppm; the configured bound is checked exactly (out.freqOk)
    const TOL: i64 = 8;
    let close = |a: &Value, b: &Value| matches!((a.as_i64(), b.as_i64()), (Some(x), Some(y)) if (x - y).abs() <= TOL);
    fields.retain(|f| match f.as_str() {
        "f" => !close(&expected_post["f"], &st["f"]),
        "out.freqs" => match (expected_out["freqs"].as_array(), out["freqs"].as_array()) {
            (Some(e), Some(o)) => !(e.len() == o.len() && e.iter().zip(o).all(|(x, y)| close(x, y))),
            _ => true,
        },
        _ => true,
    });
    fields
}

async fn replay_walk(cfgv: &Value, walk: &Value, seed: u64) -> Value {
    let id = walk["id"].as_u64().unwrap();
    let mut rng = Rng::new(seed ^ id.wrapping_mul(0x9E37));
    let mut wd = World::new(CtlCfg::from(cfgv, &mut rng));
    let w = wd.w.clone();
    let mut run = std::pin::pin!(tokio::task::unconstrained(w.run()));
    let mut fail = Value::Null;
    let mut n = 0;
    for (k, st) in walk["walk"].as_array().unwrap().iter().enumerate() {
        let (out, panic) = do_action(&mut wd, &mut run, &st["act"]).await;
        let obs = wd.observe(&st["post"]);
        let mut fields = diff_state(&st["post"], &st["out"], &obs, &out);
        if panic.is_some() {
            fields.push("panic".to_string());
            // a panic is a difference of everything the step could have produced
            for f in ["out.steps", "out.exit", "out.err", "out.status", "out.freqs", "out.freqOk", "src", "srcReg", "srcAbs", "used", "cons", "acc", "clk"] {
                fields.push(f.to_string());
            }
        }
        if !fields.is_empty() {
            fields.sort();
            fields.dedup();
            fail = json!({"step": k, "fields": fields, "observed": {"st": obs, "out": out}, "panic": panic});
            break;
        }
        n += 1;
        if wd.dead {
            break;
        }
        tokio::task::yield_now().await;
    }
    json!({"id": id, "steps_run": n, "fail": fail})
}

fn run_replay(job: &Value) {
    let walks = util::read_ndjson(job["input"].as_str().unwrap());
    let mut out = util::NdjsonOut::create(job["output"].as_str().unwrap());
    let seed = job["seed"].as_u64().unwrap_or(1);
    for walk in &walks {
        let rt = tokio::runtime::Builder::new_current_thread().enable_time().start_paused(true).build().unwrap();
        let row = rt.block_on(replay_walk(&job["cfg"], walk, seed));
        out.put(&row);
    }
    out.finish();
}

// ------------------------------------------------------------------------------------------------
// C06: history shapes replayed on the real source controller + clock controller, number classes logged
// ------------------------------------------------------------------------------------------------
const BIG: i64 = ((1 << 31) - 2) * UNIT;

fn cls(x: f64, nonneg: bool) -> &'static str {
    if x.is_nan() {
        "nan"
    } else if x.is_infinite() {
        "inf"
    } else if nonneg && x < 0.0 {
        "neg"
    } else {
        "ok"
    }
}

fn worse(a: &str, b: &str) -> bool {
    let rank = |x: &str| match x {
        "ok" => 0,
        "neg" => 1,
        "inf" => 2,
        _ => 3,
    };
    rank(b) > rank(a)
}

struct Classes(std::collections::BTreeMap<&'static str, &'static str>);
impl Classes {
    fn new() -> Self {
        let mut m = std::collections::BTreeMap::new();
        for f in ["est_offset", "est_variance", "est_freq", "est_freq_variance", "est_delay", "est_wander", "obs_offset", "obs_uncertainty",
                  "obs_delay", "clk_freq", "clk_step", "clk_est_error", "clk_max_error", "snap_var0", "snap_var1", "snap_var2", "snap_var3",
                  "snap_dispersion", "snap_delay", "msg_steer"] {
            m.insert(f, "ok");
        }
        Classes(m)
    }
    fn put(&mut self, f: &'static str, x: f64, nonneg: bool) {
        let c = cls(x, nonneg);
        if worse(self.0[f], c) {
            self.0.insert(f, c);
        }
    }
}

async fn run_shape(shape: &Value) -> Value {
    let clock = MockClock::new(0.0);
    let sync = SynchronizationConfig {
        minimum_agreeing_sources: 1,
        single_step_panic_threshold: StepThreshold { forward: None, backward: None },
        startup_step_panic_threshold: StepThreshold { forward: None, backward: None },
        accumulated_step_panic_threshold: None,
        ..SynchronizationConfig::default()
    };
    let algo = AlgorithmConfig::default();
    let mut ctl = KalmanClockController::new(clock.clone(), sync, algo).unwrap();
    let id = ClockId(7);
    // poll configuration: one of several (min <= initial <= max within 0..=17), chosen by the shape, so that the
    // filter's own desired poll interval can be checked against the configured limits (C10)
    let polls: [(u8, u8, u8); 8] = [(4, 4, 10), (0, 0, 17), (0, 17, 17), (6, 6, 6), (3, 5, 9), (17, 17, 17), (0, 0, 0), (4, 10, 10)];
    let hsh = shape.to_string().bytes().fold(0u64, |a, b| a.wrapping_mul(131).wrapping_add(b as u64));
    let (pmin, pinit, pmax) = polls[(hsh % polls.len() as u64) as usize];
    let source_config = SourceConfig {
        poll_interval_limits: crate::time_types::PollIntervalLimits {
            min: crate::time_types::PollInterval::from_byte(pmin),
            max: crate::time_types::PollInterval::from_byte(pmax),
        },
        initial_poll_interval: crate::time_types::PollInterval::from_byte(pinit),
    };
    let (mut poll_lo, mut poll_hi) = (i8::MAX, i8::MIN);
    let mut src = ctl.add_source(id, source_config);
    ctl.source_update(id, true);
    let mut c = Classes::new();
    let mut panics: Vec<String> = Vec::new();
    let mut nanpanic = false;
    let mut stable = false;
    let mut clock_calls = 0usize;
    let mut slew_until: Option<tokio::time::Instant> = None;
    let mut disp_nan_after_step = false;

    let base = &shape["base"];
    let reps = shape["reps"].as_u64().unwrap_or(1) as usize;
    let mut plan: Vec<(String, String, String, String)> = Vec::new();
    for k in 0..8 {
        let off = match s(base, "off").as_str() {
            "alt" => if k % 2 == 0 { "sec".to_string() } else { "secneg".to_string() },
            "jit" => if k % 2 == 0 { "jitpos".to_string() } else { "jitneg".to_string() },
            x => x.to_string(),
        };
        plan.push((off, s(base, "delay"), s(base, "gap"), "zero".to_string()));
    }
    for t in shape["tail"].as_array().unwrap() {
        for _ in 0..reps {
            plan.push((s(t, "off"), s(t, "delay"), s(t, "gap"), s(t, "disp")));
        }
    }
    let ms = UNIT / 1000;
    'outer: for (off, delay, gap, disp) in plan {
        let (gap_fixed, gap_dur) = match gap.as_str() {
            "ms" => (ms, std::time::Duration::from_millis(1)),
            "sec" => (UNIT, std::time::Duration::from_secs(1)),
            _ => ((1 << 17) * UNIT, std::time::Duration::from_secs(1 << 17)),
        };
        tokio::time::advance(gap_dur).await;
        {
            let mut l = clock.log.lock().unwrap();
            l.mono = l.mono + NtpDuration::from_fixed_int(gap_fixed);
        }
        // a slew that ended in the meantime
        if let Some(t) = slew_until {
            if tokio::time::Instant::now() >= t {
                slew_until = None;
                match util::catch(|| ctl.time_update()) {
                    Ok(u) => {
                        if let Some(cm) = u.source_message {
                            if let Err(p) = util::catch(|| src.handle_message(cm)) {
                                panics.push(p);
                                break 'outer;
                            }
                        }
                    }
                    Err(p) => {
                        panics.push(p);
                        break 'outer;
                    }
                }
            }
        }
        let off_fixed = match off.as_str() {
            "zero" => 0,
            "unit" => 1,
            "msneg" => -ms,
            "sec" => UNIT,
            "secneg" => -UNIT,
            // +-20 microseconds of jitter around zero (constant-delay, low-noise links)
            "jitpos" | "jit" => UNIT / 50_000,
            "jitneg" => -(UNIT / 50_000),
            "maxpos" => BIG,
            _ => -BIG,
        };
        let delay_fixed = match delay.as_str() {
            "neg" => -UNIT,
            "zero" => 0,
            "min" => 1 << 14,
            "ms" => ms,
            // further constant delays (a filter fed identical delays must not produce a negative variance)
            "ms3" => 3 * ms,
            "ms7" => 7 * ms,
            "ms10" => 10 * ms,
            "ms33" => 33 * ms,
            "ms100" => 100 * ms,
            "big" => 16 * UNIT,
            _ => BIG,
        };
        let m = InternalMeasurement {
            delay: NtpDuration::from_fixed_int(delay_fixed),
            offset: NtpDuration::from_fixed_int(off_fixed),
            localtime: clock.local(),
            root_delay: NtpDuration::from_fixed_int(0),
            root_dispersion: NtpDuration::from_fixed_int(if disp == "max" { BIG } else { 0 }),
            leap: NtpLeapIndicator::NoWarning,
            precision: 0,
        };
        let msg = match util::catch(|| src.handle_measurement(m)) {
            Ok(x) => x,
            Err(p) => {
                panics.push(p);
                break;
            }
        };
        if let Ok(d) = util::catch(|| src.desired_poll_interval().as_log()) {
            poll_lo = poll_lo.min(d);
            poll_hi = poll_hi.max(d);
        }
        match util::catch(|| src.observe()) {
            Ok(o) => {
                c.put("obs_offset", o.offset.to_seconds(), false);
                c.put("obs_uncertainty", o.uncertainty.to_seconds(), true);
                c.put("obs_delay", o.delay.to_seconds(), true);
            }
            Err(p) => {
                // which reported quantity is not finite (the snapshot this measurement produced, if any)
                let what = match &msg {
                    Some(m) => format!("{p} [snapshot: offset {:e} s, offset variance {:e}, delay {:e} s]",
                                       m.inner.state.offset(), m.inner.state.offset_variance(), m.inner.delay),
                    None => format!("{p} [no snapshot produced by this measurement]"),
                };
                panics.push(what);
                break;
            }
        }
        let Some(msg) = msg else { continue };
        let sn = msg.inner;
        if std::env::var("VERIF_DEBUG").is_ok() {
            eprintln!("step off={off} delay={delay}: offset {:e} var {:e} freq {:e} fvar {:e} delay {:e} wander {:e}",
                      sn.state.offset(), sn.state.offset_variance(), sn.state.frequency(), sn.state.frequency_variance(), sn.delay, sn.wander);
        }
        c.put("est_offset", sn.state.offset(), false);
        c.put("est_variance", sn.state.offset_variance(), true);
        c.put("est_freq", sn.state.frequency(), false);
        c.put("est_freq_variance", sn.state.frequency_variance(), true);
        c.put("est_delay", sn.delay, true);
        c.put("est_wander", sn.wander, true);
        if sn.state.frequency_variance() != INITIALIZATION_FREQ_UNCERTAINTY_PROBE {
            stable = true;
        }
        let upd = match util::catch(|| ctl.source_message(id, msg)) {
            Ok(u) => u,
            Err(p) => {
                panics.push(p);
                break;
            }
        };
        {
            let mut l = clock.log.lock().unwrap();
            clock_calls += l.steps.len() + l.freqs.len();
            for f in l.freqs.drain(..) {
                c.put("clk_freq", f, false);
            }
            for st in l.steps.drain(..) {
                c.put("clk_step", st.to_seconds(), false);
            }
            for (e, mx) in l.errs.drain(..) {
                c.put("clk_est_error", e.to_seconds(), true);
                c.put("clk_max_error", mx.to_seconds(), true);
            }
            l.status.clear();
        }
        if let Some(ts) = upd.time_snapshot {
            c.put("snap_var0", ts.root_variance_base, true);
            c.put("snap_var1", ts.root_variance_linear, false);
            c.put("snap_var2", ts.root_variance_quadratic, true);
            c.put("snap_var3", ts.root_variance_cubic, true);
            c.put("snap_delay", ts.root_delay.to_seconds(), true);
            // what a client is told one second after this update (t >= 0) ...
            let later = ts.root_variance_base_time + NtpDuration::from_fixed_int(UNIT);
            match util::catch(|| ts.root_dispersion(later)) {
                Ok(d) => c.put("snap_dispersion", d.to_seconds(), true),
                Err(p) => panics.push(p),
            }
            // ... and right now on the (possibly just stepped) local clock: after a backward step the elapsed time is
            // negative, which C06 as stated does not cover; recorded as an observation only
            let now = clock.local();
            if util::catch(|| ts.root_dispersion(now)).is_err() {
                disp_nan_after_step = true;
            }
        }
        if let Some(d) = upd.next_update {
            slew_until = Some(tokio::time::Instant::now() + d);
        }
        if let Some(cm) = upd.source_message {
            match &cm.inner {
                KalmanControllerMessageInner::Step { steer } => c.put("msg_steer", *steer, false),
                KalmanControllerMessageInner::FreqChange { steer, .. } => c.put("msg_steer", *steer, false),
            }
            if let Err(p) = util::catch(|| src.handle_message(cm)) {
                panics.push(p);
                break;
            }
        }
    }
    for p in &panics {
        let l = p.to_lowercase();
        if l.contains("nan") || l.contains("infinite") {
            nanpanic = true;
        }
    }
    json!({"cls": c.0, "nanpanic": nanpanic, "panics": panics, "stable": stable, "clock_calls": clock_calls,
           "disp_nan_after_step": disp_nan_after_step,
           "poll": {"min": pmin, "init": pinit, "max": pmax, "seen_lo": poll_lo, "seen_hi": poll_hi,
                    "ok": poll_lo > poll_hi || (poll_lo >= pmin as i8 && poll_hi <= pmax as i8)}})
}

// the frequency variance every initial-phase snapshot carries (source.rs INITIALIZATION_FREQ_UNCERTAINTY)
const INITIALIZATION_FREQ_UNCERTAINTY_PROBE: f64 = 100.0;

fn run_filter(job: &Value) {
    let shapes = util::read_ndjson(job["input"].as_str().unwrap());
    let mut out = util::NdjsonOut::create(job["output"].as_str().unwrap());
    for (n, shape) in shapes.iter().enumerate() {
        let rt = tokio::runtime::Builder::new_current_thread().enable_time().start_paused(true).build().unwrap();
        let mut row = rt.block_on(run_shape(shape));
        row["id"] = json!(n);
        out.put(&row);
    }
    out.finish();
}

// ------------------------------------------------------------------------------------------------
#[test]
fn verif_kalman() {
    let job = util::job();
    match job["mode"].as_str().unwrap() {
        "select" => run_select(&job),
        "leap" => run_leap(&job),
        "replay" => run_replay(&job),
        "filter" => run_filter(&job),
        m => panic!("unknown mode {m}"),
    }
}
