// verification harness (compiled into ntp-proto/src/nts/mod.rs under cfg(all(test, pendulum_project_ntpd_rs_verif)))
