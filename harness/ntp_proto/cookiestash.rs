// Harness for spec/Stash.tla: replays TLC-explored Store/Get walks on the real CookieStash and compares the
// held cookie identities (read through the private ring buffer) and the value returned by every call.
// Compiled into ntp-proto/src/cookiestash.rs under cfg(all(test, pendulum_project_ntpd_rs_verif)).
#![allow(clippy::all, dead_code)]

use super::*;
use serde_json::{Value, json};

#[path = "/verif/harness/common/util.rs"]
mod util;

fn cookie(id: i64) -> Vec<u8> {
    let mut v = id.to_be_bytes().to_vec();
    v.extend_from_slice(&[0xAB; 24]);
    v
}

fn id_of(c: &[u8]) -> i64 {
    if c.len() >= 8 { i64::from_be_bytes(c[..8].try_into().unwrap()) } else { -1 }
}

fn held(s: &CookieStash) -> Vec<i64> {
    (0..s.valid).map(|k| id_of(&s.cookies[(s.read + k) % s.cookies.len()])).collect()
}

#[test]
fn verif_stash() {
    let job = util::job();
    let walks = util::read_ndjson(job["input"].as_str().unwrap());
    let mut out = util::NdjsonOut::create(job["output"].as_str().unwrap());
    for w in walks {
        let mut stash = CookieStash::default();
        let mut next = 1i64;
        let mut fail = Value::Null;
        let mut run = 0;
        for (n, step) in w["walk"].as_array().unwrap().iter().enumerate() {
            let act = step["act"]["t"].as_str().unwrap();
            let r = util::catch(|| match act {
                "Store" => {
                    stash.store(cookie(next));
                    0
                }
                _ => stash.get().map(|c| id_of(&c)).unwrap_or(0),
            });
            if act == "Store" {
                next += 1;
            }
            run = n + 1;
            let mut d: Vec<String> = vec![];
            match r {
                Err(_) => d.push("panic".into()),
                Ok(got) => {
                    let obs = json!({"q": held(&stash), "next": next});
                    let o = json!({"got": got, "gap": stash.gap(), "len": stash.len()});
                    if obs["q"] != step["post"]["q"] {
                        d.push("q".into());
                    }
                    for k in ["got", "gap", "len"] {
                        if o[k] != step["out"][k] {
                            d.push(format!("out.{k}"));
                        }
                    }
                    if !d.is_empty() {
                        fail = json!({"step": n, "fields": d, "observed": {"st": obs, "out": o}, "panic": Value::Null});
                        break;
                    }
                    continue;
                }
            }
            fail = json!({"step": n, "fields": d, "observed": Value::Null, "panic": "panic in CookieStash"});
            break;
        }
        out.put(&json!({"id": w["id"], "steps_run": run, "fail": fail}));
    }
    out.finish();
}
