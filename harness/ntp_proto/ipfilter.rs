// Harness for spec/IpFilter.tla (C31): every subnet set enumerated by TLC over the 8-bit universe is embedded into
// real IPv4 / IPv6 space below a common prefix of k nibbles (masks shifted by 4k, random host bits, random order,
// duplicates, IPv4-mapped spellings) and all 256 addresses are looked up through the real IpFilter; the bitmap must
// equal the specification's Members(S).  Subnet string classes are concretised into strings for IpSubnet::from_str.
// Compiled into ntp-proto/src/ipfilter.rs under cfg(all(test, pendulum_project_ntpd_rs_verif)).
#![allow(clippy::all, dead_code)]

use super::IpFilter;
use crate::server::IpSubnet;
use serde_json::{Value, json};
use std::net::{IpAddr, Ipv4Addr, Ipv6Addr};
use std::str::FromStr;

#[path = "/verif/harness/common/util.rs"]
mod util;
use util::{Rng, i, s};

fn rand128(rng: &mut Rng) -> u128 {
    ((rng.next() as u128) << 64) | rng.next() as u128
}

/// low `n` bits set
fn low(n: u32) -> u128 {
    if n >= 128 { u128::MAX } else { (1u128 << n) - 1 }
}

/// An embedding of the 8-bit universe into a `width`-bit address family below a common prefix of `k` nibbles.
struct Embed {
    width: u32,
    k: u32,
    common: u128, // the 4k common bits, already shifted into place
}

impl Embed {
    fn new(width: u32, k: u32, rng: &mut Rng) -> Self {
        let common = if k == 0 { 0 } else { (rand128(rng) & low(4 * k)) << (width - 4 * k) };
        Embed { width, k, common }
    }
    /// the universe embedded below an all-zero prefix (k >= 24 nibbles of a 128-bit family: inside ::/96, the
    /// deprecated "IPv4-compatible" range, which is IPv6 and not IPv4-mapped)
    fn zero(width: u32, k: u32) -> Self {
        Embed { width, k, common: 0 }
    }
    fn tail_bits(&self) -> u32 {
        self.width - 4 * self.k - 8
    }
    /// universe address `a` with random bits below it
    fn addr(&self, a: u32, rng: &mut Rng) -> u128 {
        self.common | ((a as u128) << self.tail_bits()) | (rand128(rng) & low(self.tail_bits()))
    }
    /// (address with random host bits, mask) of the prefix [val, len]
    fn subnet(&self, val: u32, len: u32, rng: &mut Rng) -> (u128, u32) {
        let mask = 4 * self.k + len;
        let host = self.width - mask;
        let net = self.common | ((val as u128) << self.tail_bits());
        let net = if host >= 128 { 0 } else { (net >> host) << host };
        (net | (rand128(rng) & low(host)), mask)
    }
    /// an address outside the embedded universe: one bit of the common prefix flipped
    fn outside(&self, rng: &mut Rng) -> Option<u128> {
        if self.k == 0 {
            return None;
        }
        let bit = self.width - 1 - rng.below(4 * self.k as u64) as u32;
        Some((self.common | (rand128(rng) & low(self.width - 4 * self.k))) ^ (1u128 << bit))
    }
}

fn v4(x: u128) -> Ipv4Addr {
    Ipv4Addr::from(x as u32)
}
fn v6(x: u128) -> Ipv6Addr {
    Ipv6Addr::from(x)
}
fn is_plain_v6(x: u128) -> bool {
    matches!(IpAddr::V6(v6(x)).to_canonical(), IpAddr::V6(_))
}

fn subnet_string(width: u32, addr: u128, mask: u32, mapped: bool) -> String {
    if width == 32 {
        if mapped { format!("::ffff:{}/{}", v4(addr), mask + 96) } else { format!("{}/{}", v4(addr), mask) }
    } else {
        format!("{}/{}", v6(addr), mask)
    }
}

struct SetCase {
    prefixes: Vec<(u32, u32)>,
    members: [bool; 256],
}

fn build_subnets(case: &SetCase, e: &Embed, mapped_spelling: bool, rng: &mut Rng, strings: &mut Vec<String>) -> Result<Vec<IpSubnet>, String> {
    let mut out = vec![];
    let mut list = case.prefixes.clone();
    // duplicates (with other host bits) and a random order do not change the set
    if !list.is_empty() && rng.chance(1, 3) {
        let d = *rng.pick(&list);
        list.push(d);
    }
    for n in (1..list.len()).rev() {
        let j = rng.below(n as u64 + 1) as usize;
        list.swap(n, j);
    }
    for (val, len) in list {
        let (addr, mask) = e.subnet(val, len, rng);
        let text = subnet_string(e.width, addr, mask, mapped_spelling && rng.chance(1, 2));
        match IpSubnet::from_str(&text) {
            Ok(sn) => out.push(sn),
            Err(err) => return Err(format!("subnet string {text} rejected: {err:?}")),
        }
        strings.push(text);
    }
    Ok(out)
}

/// Looks all 256 universe addresses up; returns the first address whose answer differs from the specification.
fn probe(filter: &IpFilter, case: &SetCase, e: &Embed, spell_mapped: bool, rng: &mut Rng, lookups: &mut u64) -> Option<Value> {
    for a in 0..256u32 {
        let mut x = e.addr(a, rng);
        let ip = if e.width == 32 {
            if spell_mapped && rng.chance(1, 2) { IpAddr::V6(v4(x).to_ipv6_mapped()) } else { IpAddr::V4(v4(x)) }
        } else {
            while !is_plain_v6(x) {
                x = e.addr(a, rng);
            }
            IpAddr::V6(v6(x))
        };
        *lookups += 1;
        let got = filter.is_in(ip);
        if got != case.members[a as usize] {
            return Some(json!({"addr": ip.to_string(), "universe_addr": a, "expected": case.members[a as usize], "observed": got}));
        }
    }
    None
}

fn probe_outside(filter: &IpFilter, e: &Embed, rng: &mut Rng, lookups: &mut u64) -> Option<Value> {
    for _ in 0..4 {
        let Some(x) = e.outside(rng) else { return None };
        let ip = if e.width == 32 { IpAddr::V4(v4(x)) } else if is_plain_v6(x) { IpAddr::V6(v6(x)) } else { continue };
        *lookups += 1;
        if filter.is_in(ip) {
            return Some(json!({"addr": ip.to_string(), "expected": false, "observed": true, "outside": true}));
        }
    }
    None
}

fn run_set(id: u64, act: &Value, out: &Value, seed: u64) -> Value {
    let mut rng = Rng::new(seed ^ id.wrapping_mul(0x9E3779B1));
    let prefixes: Vec<(u32, u32)> = act["s"].as_array().unwrap().iter().map(|p| (i(p, "val") as u32, i(p, "len") as u32)).collect();
    let mut members = [false; 256];
    for m in out["members"].as_array().unwrap() {
        members[m.as_u64().unwrap() as usize] = true;
    }
    let case = SetCase { prefixes, members };
    let mut fields: Vec<String> = vec![];
    let mut detail = json!(null);
    let mut lookups = 0u64;
    let k4a = (id % 7) as u32;
    let k4b = ((id / 7 + 3) % 7) as u32;
    let k6a = (id % 31) as u32;
    let k6b = ((id * 5 + 11) % 31) as u32;
    // (v4 depth, v6 depth, mapped spellings): combined filter, v4 only, v6 only
    // the last two plans put the IPv6 universe inside ::/96 (24..29 zero nibbles), alone and next to IPv4 subnets
    let k6z = 24 + (id % 6) as u32;
    let plans: [(Option<u32>, Option<u32>, bool); 5] = [(Some(k4a), Some(k6a), false), (Some(k4b), None, true), (None, Some(k6b), false),
                                                        (None, Some(100 + k6z), false), (Some(k4b), Some(100 + k6z), false)];
    for (p4, p6, mapped) in plans {
        let e4 = p4.map(|k| Embed::new(32, k, &mut rng));
        let e6 = p6.map(|k| if k >= 100 { Embed::zero(128, k - 100) } else { Embed::new(128, k, &mut rng) });
        let mut strings = vec![];
        let r = util::catch(|| -> Result<Option<(String, Value)>, String> {
            let mut subnets = vec![];
            if let Some(e) = &e4 {
                subnets.extend(build_subnets(&case, e, mapped, &mut rng, &mut strings)?);
            }
            if let Some(e) = &e6 {
                subnets.extend(build_subnets(&case, e, false, &mut rng, &mut strings)?);
            }
            let filter = IpFilter::new(&subnets);
            for e in [&e4, &e6].into_iter().flatten() {
                if let Some(d) = probe(&filter, &case, e, mapped, &mut rng, &mut lookups) {
                    return Ok(Some(("bitmap".into(), d)));
                }
                if let Some(d) = probe_outside(&filter, e, &mut rng, &mut lookups) {
                    return Ok(Some(("outside".into(), d)));
                }
            }
            // the other family never matches a filter that has no subnet of it
            if e4.is_none() {
                lookups += 1;
                if filter.is_in(IpAddr::V4(v4(rand128(&mut rng)))) {
                    return Ok(Some(("outside".into(), json!({"note": "IPv4 address matched a filter without IPv4 subnets"}))));
                }
            }
            if let (Some(e), None) = (&e4, &e6) {
                // ... in particular not ::a.b.c.d for the members a.b.c.d of the IPv4 subnets
                for a in (0..256u32).filter(|a| case.members[*a as usize]).take(8) {
                    let x = e.addr(a, &mut rng) & low(32);
                    lookups += 1;
                    if x > 0xFFFF && filter.is_in(IpAddr::V6(v6(x))) {
                        return Ok(Some(("outside".into(), json!({"addr": v6(x).to_string(), "expected": false, "observed": true,
                                                                 "note": "IPv6 address in ::/96 matched a filter that only has IPv4 subnets"}))));
                    }
                }
            }
            if e6.is_none() {
                let x = rand128(&mut rng);
                if is_plain_v6(x) {
                    lookups += 1;
                    if filter.is_in(IpAddr::V6(v6(x))) {
                        return Ok(Some(("outside".into(), json!({"note": "IPv6 address matched a filter without IPv6 subnets"}))));
                    }
                }
            }
            Ok(None)
        });
        match r {
            Err(p) => {
                fields.push("panic".into());
                detail = json!({"panic": p, "subnets": strings});
            }
            Ok(Err(e)) => {
                fields.push("subnet_string".into());
                detail = json!({"error": e});
            }
            Ok(Ok(Some((f, d)))) => {
                fields.push(f);
                detail = json!({"subnets": strings, "lookup": d, "depth_v4": p4, "depth_v6": p6});
            }
            Ok(Ok(None)) => {}
        }
        if !fields.is_empty() {
            break;
        }
    }
    json!({"id": id, "fields": fields, "detail": detail, "lookups": lookups})
}

fn mask_text(mask: i64, rng: &mut Rng) -> String {
    match mask {
        1000 => String::new(),
        1001 => rng.pick(&["abc", "x", "3 2", "0x10", "1.5", " 8", "8 ", "/8", "2e1", "--1"]).to_string(),
        m => m.to_string(),
    }
}

fn run_string(id: u64, act: &Value, out: &Value, seed: u64) -> Value {
    let mut rng = Rng::new(seed ^ id.wrapping_mul(0x85EBCA6B));
    let c = &act["c"];
    let family = s(c, "family");
    let syntax = s(c, "syntax");
    let mask = i(c, "mask");
    let mut fields: Vec<String> = vec![];
    let mut detail = vec![];
    let mut evals = 0;
    for rep in 0..6 {
        let a4 = match rep {
            0 => Ipv4Addr::new(10, 1, 2, 3),
            1 => Ipv4Addr::new(0, 0, 0, 0),
            2 => Ipv4Addr::new(255, 255, 255, 255),
            _ => Ipv4Addr::from(rng.next() as u32),
        };
        let (addr_text, parsed): (String, IpAddr) = match family.as_str() {
            "v4" => (a4.to_string(), IpAddr::V4(a4)),
            "mapped" => {
                let t = if rep % 2 == 0 {
                    format!("::ffff:{a4}")
                } else {
                    let o = a4.octets();
                    format!("::ffff:{:x}:{:x}", u16::from_be_bytes([o[0], o[1]]), u16::from_be_bytes([o[2], o[3]]))
                };
                (t, IpAddr::V4(a4))
            }
            _ => {
                let a6 = match rep {
                    0 => Ipv6Addr::from_str("2001:db8::1").unwrap(),
                    1 => Ipv6Addr::UNSPECIFIED,
                    2 => Ipv6Addr::from(u128::MAX),
                    _ => loop {
                        let x = rand128(&mut rng);
                        if is_plain_v6(x) {
                            break v6(x);
                        }
                    },
                };
                (a6.to_string(), IpAddr::V6(a6))
            }
        };
        let bad = ["bla", "1.2.3", "1.2.3.256", "1.2.3.4.5", ":::", "2001:db8::g", "", "1.2.3.4 ", "::ffff:1.2.3.256", "[::1]", " ::1"];
        let text = match syntax.as_str() {
            "ok" => format!("{addr_text}/{}", mask_text(mask, &mut rng)),
            "noslash" => {
                if rep % 2 == 0 {
                    addr_text.clone()
                } else {
                    format!("{addr_text} {}", mask_text(mask, &mut rng))
                }
            }
            _ => format!("{}/{}", bad[(rep + id as usize) % bad.len()], mask_text(mask, &mut rng)),
        };
        evals += 1;
        let r = util::catch(|| IpSubnet::from_str(&text));
        let exp_ok = out["ok"].as_bool().unwrap();
        match r {
            Err(p) => {
                fields.push("panic".into());
                detail.push(json!({"text": text, "panic": p}));
            }
            Ok(res) => {
                if res.is_ok() != exp_ok {
                    fields.push("ok".into());
                    detail.push(json!({"text": text, "expected_ok": exp_ok, "observed": format!("{res:?}")}));
                } else if let Ok(sn) = res {
                    let fam = if sn.addr.is_ipv4() { "v4" } else { "v6" };
                    if fam != out["family"].as_str().unwrap() {
                        fields.push("family".into());
                    }
                    if sn.mask as i64 != out["mask"].as_i64().unwrap() {
                        fields.push("mask".into());
                    }
                    if sn.addr != parsed {
                        fields.push("addr".into());
                    }
                    if !fields.is_empty() {
                        detail.push(json!({"text": text, "observed": format!("{sn:?}")}));
                    }
                }
            }
        }
        if !fields.is_empty() {
            break;
        }
    }
    fields.sort();
    fields.dedup();
    json!({"id": id, "fields": fields, "detail": detail, "lookups": evals})
}

fn replay(job: &Value) {
    let seed = job["seed"].as_u64().unwrap_or(0);
    let mut out = util::NdjsonOut::create(job["output"].as_str().unwrap());
    use std::io::BufRead;
    let f = std::fs::File::open(job["input"].as_str().unwrap()).expect("input");
    for line in std::io::BufReader::new(f).lines() {
        let line = line.unwrap();
        if line.trim().is_empty() {
            continue;
        }
        let v: Value = serde_json::from_str(&line).unwrap();
        let id = v["id"].as_u64().unwrap();
        let r = if s(&v["act"], "kind") == "set" { run_set(id, &v["act"], &v["out"], seed) } else { run_string(id, &v["act"], &v["out"], seed) };
        // only failing cases and a running total are reported (130 000 cases per run)
        if !r["fields"].as_array().unwrap().is_empty() {
            out.put(&r);
        } else {
            out.put(&json!({"id": id, "fields": [], "lookups": r["lookups"]}));
        }
    }
    out.finish();
}

#[test]
fn verif_ipfilter() {
    let job = util::job();
    match s(&job, "mode").as_str() {
        "replay" => replay(&job),
        other => panic!("unknown mode {other}"),
    }
}
