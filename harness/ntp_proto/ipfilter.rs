// verification harness (compiled into ntp-proto/src/ipfilter.rs under cfg(all(test, pendulum_project_ntpd_rs_verif)))
