// Harness for spec/KeRecords.tla (C30): concretises the record / message classes enumerated by TLC into byte
// streams and runs the real async parsers (NtsRecord::parse, Request::parse, KeyExchangeResponse::parse) on them,
// fed by a byte-counting AsyncRead that serves the modelled prefix in seeded chunk sizes (with spurious Pending)
// and then either ends or goes on for ever.  Observed: verdict class, bytes consumed, termination, panics, and for
// everything accepted the round trip  parse(serialize(v)) == v  and  serialize(parse(serialize(v))) == serialize(v).
// Compiled into ntp-proto/src/nts/messages.rs under cfg(all(test, pendulum_project_ntpd_rs_verif)).
#![allow(clippy::all, dead_code)]

use super::*;
use crate::nts::record::NtsRecord;
use serde_json::{Value, json};
use std::future::Future;
use std::pin::{Pin, pin};
use std::task::{Context, Poll, Waker};
use tokio::io::ReadBuf;

#[path = "/verif/harness/common/util.rs"]
mod util;
use util::{Rng, b, i, s};

const JUNK: [u8; 8] = [0x41, 0x23, 0x00, 0x04, 0xde, 0xad, 0xbe, 0xef]; // ignorable (non-critical unknown) record
const POLL_BUDGET: usize = 2_000_000;

// ---------------------------------------------------------------------------------------------
// concretisation of record classes
// ---------------------------------------------------------------------------------------------
fn wire_type(t: i64, crit: bool) -> u16 {
    let base: u16 = if t == 99 { 0x4123 } else { t as u16 };
    base | if crit { 0x8000 } else { 0 }
}

/// (declared length, bytes actually present)
fn body(t: i64, cls: &str) -> (usize, Vec<u8>) {
    let text = matches!(t, 6 | 13 | 14);
    let exact: Vec<u8> = match t {
        0 | 8 => vec![],
        1 => vec![0, 0],
        2 => vec![0, 1],
        3 => vec![0, 7],
        4 => vec![0, 15],
        5 => (0..16).map(|x| 0xc0 + x as u8).collect(),
        6 => b"a.b".to_vec(),
        7 => vec![0x10, 0x1b],
        9 => vec![0x80, 1],
        10 => vec![0, 15, 0, 32],
        12 => (0u8..64).collect(),
        13 => b"x.y".to_vec(),
        14 => b"tok".to_vec(),
        _ => vec![1, 2, 3],
    };
    match cls {
        "empty" => (0, vec![]),
        "exact" => (exact.len(), exact),
        "long" => {
            let mut v = exact;
            match t {
                1 | 9 => v.extend_from_slice(&[0x80, 1]),
                4 => v.extend_from_slice(&[0, 17]),
                10 => v.extend_from_slice(&[0, 17, 0, 64]),
                0 | 8 => v.extend_from_slice(&[9, 9, 9, 9]),
                _ if text => v.extend_from_slice(b"cd"),
                _ => v.extend_from_slice(&[0xee, 0xef]),
            }
            (v.len(), v)
        }
        "odd" => (3, if text { b"abc".to_vec() } else { vec![0, 0, 0] }),
        "short" => (4, vec![0, 0]),
        "big" => (5000, vec![b'a'; 5000]),
        "badutf8" => (3, vec![0xff, 0xfe, 0x41]),
        "utf8" => {
            let v = "b\u{fc}cher.\u{4f8b}\u{3048}.example".as_bytes().to_vec();
            (v.len(), v)
        }
        x => panic!("unknown body class {x}"),
    }
}

fn record_bytes(r: &Value, out: &mut Vec<u8>) -> usize {
    let (declared, present) = body(i(r, "t"), &s(r, "cls"));
    out.extend_from_slice(&wire_type(i(r, "t"), b(r, "crit")).to_be_bytes());
    out.extend_from_slice(&(declared as u16).to_be_bytes());
    out.extend_from_slice(&present);
    declared
}

/// (prefix bytes, endless afterwards?)
fn stream_of(case: &Value) -> (Vec<u8>, bool) {
    let mut recs = vec![];
    for r in case["recs"].as_array().unwrap() {
        record_bytes(r, &mut recs);
    }
    let tail = s(case, "tail");
    let eom = [0x80u8, 0, 0, 0];
    let pad = |p: usize| -> Vec<u8> {
        assert!(p == 0 || p >= 4, "cannot pad {p} bytes");
        let mut v = vec![];
        if p >= 4 {
            v.extend_from_slice(&0x4123u16.to_be_bytes());
            v.extend_from_slice(&((p - 4) as u16).to_be_bytes());
            v.extend(std::iter::repeat(0x5a).take(p - 4));
        }
        v
    };
    match tail.as_str() {
        "eom" => {
            recs.extend_from_slice(&eom);
            (recs, true)
        }
        "eof" => (recs, false),
        "endless" => (recs, true),
        "fill" => {
            let mut v = pad(4096 - recs.len() - 4);
            v.extend_from_slice(&recs);
            v.extend_from_slice(&eom);
            assert_eq!(v.len(), 4096);
            (v, true)
        }
        "straddle" => {
            let mut v = pad(4094 - recs.len());
            v.extend_from_slice(&recs);
            v.extend_from_slice(&eom);
            assert_eq!(v.len(), 4098);
            (v, true)
        }
        x => panic!("unknown tail {x}"),
    }
}

// ---------------------------------------------------------------------------------------------
// byte-counting reader
// ---------------------------------------------------------------------------------------------
struct Feed {
    prefix: Vec<u8>,
    endless: bool,
    served: usize,
    rng: Rng,
    max_chunk: usize,
    pended: bool,
}

impl Feed {
    fn new(prefix: &[u8], endless: bool, seed: u64) -> Feed {
        let mut rng = Rng::new(seed);
        let max_chunk = *rng.pick(&[1usize, 2, 3, 7, 64, 600, 1 << 20]);
        Feed { prefix: prefix.to_vec(), endless, served: 0, rng, max_chunk, pended: false }
    }
}

impl AsyncRead for Feed {
    fn poll_read(self: Pin<&mut Self>, cx: &mut Context<'_>, buf: &mut ReadBuf<'_>) -> Poll<std::io::Result<()>> {
        let this = self.get_mut();
        if !this.pended && this.rng.chance(1, 9) {
            this.pended = true;
            cx.waker().wake_by_ref();
            return Poll::Pending;
        }
        this.pended = false;
        let chunk = 1 + this.rng.below(this.max_chunk as u64) as usize;
        let want = buf.remaining().min(chunk);
        for _ in 0..want {
            let at = this.served;
            let byte = if at < this.prefix.len() {
                this.prefix[at]
            } else if this.endless {
                JUNK[(at - this.prefix.len()) % JUNK.len()]
            } else {
                break;
            };
            buf.put_slice(&[byte]);
            this.served += 1;
        }
        Poll::Ready(Ok(()))
    }
}

/// drives a future to completion without a runtime; None = did not terminate within the poll budget
fn drive<F: Future>(f: F) -> Option<F::Output> {
    let mut f = pin!(f);
    let mut cx = Context::from_waker(Waker::noop());
    for _ in 0..POLL_BUDGET {
        if let Poll::Ready(r) = f.as_mut().poll(&mut cx) {
            return Some(r);
        }
    }
    None
}

fn ser<F: Future<Output = Result<(), std::io::Error>>>(f: F) -> Option<()> {
    match drive(f) {
        Some(Ok(())) => Some(()),
        _ => None,
    }
}

fn errname(e: &NtsError) -> String {
    match e {
        NtsError::IO(_) => "IO".into(),
        NtsError::Tls(_) => "Tls".into(),
        NtsError::Dns(_) => "Dns".into(),
        NtsError::UnrecognizedCriticalRecord => "UnrecognizedCriticalRecord".into(),
        NtsError::Invalid => "Invalid".into(),
        NtsError::NoCookie => "NoCookie".into(),
        NtsError::NoOverlappingProtocol => "NoOverlappingProtocol".into(),
        NtsError::NoOverlappingAlgorithm => "NoOverlappingAlgorithm".into(),
        NtsError::UnknownWarning(_) => "UnknownWarning".into(),
        NtsError::Error(_) => "Error".into(),
        NtsError::AeadNotSupported(_) => "AeadNotSupported".into(),
        NtsError::IncorrectSizedKey => "IncorrectSizedKey".into(),
        NtsError::NotPermitted => "NotPermitted".into(),
    }
}

// structural views (Request / KeyExchangeResponse have no PartialEq)
fn view_request(r: &Request<'_>) -> Value {
    match r {
        Request::KeyExchange { algorithms, protocols, denied_servers } => json!({
            "kind": "KeyExchange",
            "algorithms": algorithms.iter().map(|a| u16::from(*a)).collect::<Vec<_>>(),
            "protocols": protocols.iter().map(|p| u16::from(*p)).collect::<Vec<_>>(),
            "denied": denied_servers.iter().map(|d| d.to_string()).collect::<Vec<_>>(),
        }),
        Request::FixedKey { authentication, c2s_key, s2c_key, algorithm, protocol, keep_alive } => json!({
            "kind": "FixedKey", "authentication": authentication.to_string(),
            "c2s": c2s_key.key_bytes(), "s2c": s2c_key.key_bytes(),
            "algorithm": u16::from(*algorithm), "protocol": u16::from(*protocol), "keep_alive": keep_alive,
        }),
        Request::Support { authentication, wants_protocols, wants_algorithms, keep_alive } => json!({
            "kind": "Support", "authentication": authentication.to_string(),
            "wants_protocols": wants_protocols, "wants_algorithms": wants_algorithms, "keep_alive": keep_alive,
        }),
    }
}

fn view_response(r: &KeyExchangeResponse<'_>) -> Value {
    json!({
        "protocol": u16::from(r.protocol), "algorithm": u16::from(r.algorithm),
        "cookies": r.cookies.iter().map(|c| c.to_vec()).collect::<Vec<_>>(),
        "server": r.server.as_ref().map(|x| x.to_string()), "port": r.port, "keep_alive": r.keep_alive,
    })
}

fn fnv(bytes: &[u8]) -> String {
    let mut h: u64 = 0xcbf29ce484222325;
    for x in bytes {
        h ^= *x as u64;
        h = h.wrapping_mul(0x100000001b3);
    }
    format!("{h:016x}")
}

struct Obs {
    verdict: String,
    consumed: usize,
    terminated: bool,
    roundtrip: bool,
    digest: Option<String>,
}

fn run_record(prefix: &[u8], endless: bool, seed: u64) -> Obs {
    let mut feed = Feed::new(prefix, endless, seed);
    let r = drive(NtsRecord::parse(&mut feed));
    let consumed = feed.served;
    match r {
        None => Obs { verdict: "nonterminating".into(), consumed, terminated: false, roundtrip: true, digest: None },
        Some(Err(_)) => Obs { verdict: "err".into(), consumed, terminated: true, roundtrip: true, digest: None },
        Some(Ok(v)) => {
            let mut b1 = vec![];
            let mut ok = ser(v.serialize(&mut b1)).is_some();
            let mut b2 = vec![];
            if ok {
                match drive(NtsRecord::parse(&b1[..])) {
                    Some(Ok(v2)) => {
                        ok &= v2 == v;
                        ok &= ser(v2.serialize(&mut b2)).is_some() && b1 == b2;
                    }
                    _ => ok = false,
                }
            }
            Obs { verdict: "ok".into(), consumed, terminated: true, roundtrip: ok, digest: Some(fnv(&b1)) }
        }
    }
}

fn run_request(prefix: &[u8], endless: bool, seed: u64) -> Obs {
    let mut feed = Feed::new(prefix, endless, seed);
    let r = drive(Request::parse(&mut feed));
    let consumed = feed.served;
    match r {
        None => Obs { verdict: "nonterminating".into(), consumed, terminated: false, roundtrip: true, digest: None },
        Some(Err(e)) => Obs { verdict: format!("err:{}", errname(&e)), consumed, terminated: true, roundtrip: true, digest: None },
        Some(Ok(v)) => {
            let view = view_request(&v);
            let verdict = format!("ok:{}", view["kind"].as_str().unwrap());
            let mut b1 = vec![];
            let mut ok = ser(v.serialize(&mut b1)).is_some();
            let mut b2 = vec![];
            if ok {
                match drive(Request::parse(&b1[..])) {
                    Some(Ok(v2)) => {
                        ok &= view_request(&v2) == view;
                        ok &= ser(v2.serialize(&mut b2)).is_some() && b1 == b2;
                    }
                    _ => ok = false,
                }
            }
            Obs { verdict, consumed, terminated: true, roundtrip: ok, digest: Some(fnv(&b1)) }
        }
    }
}

fn run_response(prefix: &[u8], endless: bool, seed: u64) -> Obs {
    let mut feed = Feed::new(prefix, endless, seed);
    let r = drive(KeyExchangeResponse::parse(&mut feed));
    let consumed = feed.served;
    match r {
        None => Obs { verdict: "nonterminating".into(), consumed, terminated: false, roundtrip: true, digest: None },
        Some(Err(e)) => Obs { verdict: format!("err:{}", errname(&e)), consumed, terminated: true, roundtrip: true, digest: None },
        Some(Ok(v)) => {
            let view = view_response(&v);
            let mut b1 = vec![];
            let mut ok = ser(v.serialize(&mut b1)).is_some();
            let mut b2 = vec![];
            if ok {
                match drive(KeyExchangeResponse::parse(&b1[..])) {
                    Some(Ok(v2)) => {
                        ok &= view_response(&v2) == view;
                        ok &= ser(v2.serialize(&mut b2)).is_some() && b1 == b2;
                    }
                    _ => ok = false,
                }
            }
            Obs { verdict: "ok".into(), consumed, terminated: true, roundtrip: ok, digest: Some(fnv(&b1)) }
        }
    }
}

fn put(o: &mut Value, name: &str, r: Result<Obs, String>, bound: usize) {
    match r {
        Ok(x) => {
            o[name] = json!({"verdict": x.verdict, "consumed": x.consumed, "terminates": x.terminated,
                             "bounded": x.consumed <= bound, "roundtrip": x.roundtrip, "panic": false, "digest": x.digest});
        }
        Err(msg) => {
            o[name] = json!({"verdict": "panic", "consumed": 0, "terminates": true, "bounded": true, "roundtrip": true,
                             "panic": true, "panic_msg": msg, "digest": Value::Null});
        }
    }
}

#[test]
fn verif_nts_messages() {
    let job = util::job();
    assert_eq!(job["mode"], "c30");
    let seed = job["seed"].as_u64().unwrap_or(1);
    let cases = util::read_ndjson(job["input"].as_str().unwrap());
    let mut out = util::NdjsonOut::create(job["output"].as_str().unwrap());
    for c in &cases {
        let id = c["id"].as_u64().unwrap();
        let cs = seed.wrapping_mul(1_000_003).wrapping_add(id);
        let mut o = json!({"id": id});
        if s(c, "f") == "rec" {
            let mut prefix = vec![];
            let declared = record_bytes(&c["recs"][0], &mut prefix);
            let endless = s(c, "tail") == "endless";
            put(&mut o, "rec", util::catch(|| run_record(&prefix, endless, cs)), 4 + declared);
        } else {
            let (prefix, endless) = stream_of(c);
            put(&mut o, "req", util::catch(|| run_request(&prefix, endless, cs)), 4096);
            put(&mut o, "resp", util::catch(|| run_response(&prefix, endless, cs ^ 0x5555)), 4096);
        }
        out.put(&o);
    }
    out.finish();
}
