// verification harness (compiled into ntp-proto/src/lib.rs under cfg(all(test, pendulum_project_ntpd_rs_verif)))
