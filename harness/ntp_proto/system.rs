// verification harness (compiled into ntp-proto/src/system.rs under cfg(all(test, pendulum_project_ntpd_rs_verif)))
