// Harness for spec/SysSnapshot.tla (C33, advertisement clause): for every list of used sources TLC enumerates, the
// real NtpManager is given the sources' snapshots (directly into its snapshot table) and asked what it advertises
// (update_used_sources / observe); stratum and reference id are compared with the specification's.
// Compiled into ntp-proto/src/system.rs under cfg(all(test, pendulum_project_ntpd_rs_verif)).
#![allow(clippy::all, dead_code)]

use super::*;
// explicit imports: do not rely on what the parent module happens to import
#[allow(unused_imports)]
use std::sync::Arc;
#[allow(unused_imports)]
use std::net::IpAddr;
#[allow(unused_imports)]
use std::net::SocketAddr;
use crate::source::Reach;
use crate::time_types::PollInterval;
use serde_json::{Value, json};
use std::net::Ipv4Addr;

#[path = "/verif/harness/common/util.rs"]
mod util;

fn snap(stratum: u8, id: u32) -> NtpSourceSnapshot {
    let mut reach = Reach::never();
    reach.received_packet();
    NtpSourceSnapshot {
        source_addr: SocketAddr::new(IpAddr::V4(Ipv4Addr::new(192, 0, 2, 1)), 123),
        source_id: ReferenceId::from_int(id),
        poll_interval: PollInterval::from_byte(4),
        reach,
        stratum,
        reference_id: ReferenceId::from_int(0x1234_5678),
        protocol_version: ProtocolVersion::V4,
        bloom_filter: None,
    }
}

fn ref_name(r: ReferenceId) -> String {
    if r == ReferenceId::NONE {
        "none".into()
    } else if r == ReferenceId::PPS {
        "pps".into()
    } else if r == ReferenceId::SOCK {
        "sock".into()
    } else if r == ReferenceId::CSPTP {
        "csptp".into()
    } else if r == ReferenceId::from_int(0x7072_6576) {
        "prev".into()
    } else {
        let v = u32::from_be_bytes(r.to_bytes());
        if v & 0xFFFF_FF00 == 0x6E74_7000 { format!("ntp{}", v & 0xFF) } else { format!("other:{v:08x}") }
    }
}

#[test]
fn verif_system() {
    let job = util::job();
    let cases = util::read_ndjson(job["input"].as_str().unwrap());
    let mut out = util::NdjsonOut::create(job["output"].as_str().unwrap());
    for (n, c) in cases.iter().enumerate() {
        let r = util::catch(|| {
            let sync = SynchronizationConfig { local_stratum: c["local"].as_u64().unwrap() as u8, ..Default::default() };
            let mgr = NtpManager::new(sync, Arc::from(vec![IpAddr::V4(Ipv4Addr::new(10, 0, 0, 1))]));
            // a previous advertisement: one reported NTP source of stratum 7
            mgr.source_snapshots.lock().unwrap().insert(ClockId(100), snap(7, 0x7072_6576));
            let prev = mgr.update_used_sources([(ClockId(100), SourceType::Ntp)].into_iter());
            let mut used = vec![];
            for (i, s) in c["list"].as_array().unwrap().iter().enumerate() {
                let id = ClockId(i as u64 + 1);
                let ty = match s["ty"].as_str().unwrap() {
                    "ntp" => SourceType::Ntp,
                    "pps" => SourceType::Pps,
                    "sock" => SourceType::Sock,
                    _ => SourceType::Csptp,
                };
                if ty == SourceType::Ntp && s["snap"].as_bool().unwrap() {
                    mgr.source_snapshots.lock().unwrap().insert(id, snap(s["stratum"].as_u64().unwrap() as u8, 0x6E74_7000 + i as u32 + 1));
                }
                used.push((id, ty));
            }
            let got = mgr.update_used_sources(used.clone().into_iter());
            let seen = mgr.observe();
            // the sources report again (other strata); the same selection is published once more
            let mut then = Value::Null;
            if let Some(l2) = c["then"]["list"].as_array() {
                for (i, s) in l2.iter().enumerate() {
                    if used[i].1 == SourceType::Ntp && s["snap"].as_bool().unwrap() {
                        mgr.source_snapshots.lock().unwrap().insert(used[i].0, snap(s["stratum"].as_u64().unwrap() as u8, 0x6E74_7000 + i as u32 + 1));
                    }
                }
                let got2 = mgr.update_used_sources(used.clone().into_iter());
                let seen2 = mgr.observe();
                then = json!({"stratum": got2.stratum, "ref": ref_name(got2.reference_id),
                              "observe_same": seen2.stratum == got2.stratum && seen2.reference_id == got2.reference_id});
            }
            json!({"prev": {"stratum": prev.stratum, "ref": ref_name(prev.reference_id)},
                   "stratum": got.stratum, "ref": ref_name(got.reference_id), "then": then,
                   "observe_same": seen.stratum == got.stratum && seen.reference_id == got.reference_id})
        });
        let mut fields: Vec<String> = vec![];
        let obs = match r {
            Err(p) => {
                fields.push("panic".into());
                json!({"panic": p})
            }
            Ok(o) => {
                if o["prev"] != json!({"stratum": 8, "ref": "prev"}) {
                    fields.push("out.prev".into());
                }
                if o["stratum"] != c["expect"]["stratum"] {
                    fields.push("out.stratum".into());
                }
                if o["ref"] != c["expect"]["ref"] {
                    fields.push("out.ref".into());
                }
                if o["observe_same"] != json!(true) {
                    fields.push("out.observe".into());
                }
                if !c["then"].is_null() {
                    if o["then"]["stratum"] != c["then"]["expect"]["stratum"] {
                        fields.push("out.then.stratum".into());
                    }
                    if o["then"]["ref"] != c["then"]["expect"]["ref"] {
                        fields.push("out.then.ref".into());
                    }
                    if o["then"]["observe_same"] != json!(true) {
                        fields.push("out.then.observe".into());
                    }
                }
                o
            }
        };
        out.put(&json!({"id": n, "fields": fields, "observed": obs}));
    }
    out.finish();
}
