// verification harness (compiled into ntp-proto/src/keyset.rs under cfg(all(test, pendulum_project_ntpd_rs_verif)))
