// verification harness (compiled into ntp-proto/src/keyset.rs under cfg(all(test, pendulum_project_ntpd_rs_verif)))
// Harness for spec/KeySet.tla: drives the real `KeySetProvider` / `KeySet` and a real key file with the abstract
// actions of the specification (Rotate / Issue / Decode / Open / Write / Close / Crash / Restart / faults) and
//   * mode "replay": compares state projection and outputs with the specification after every step of TLC walks;
//   * mode "record": runs seeded random sessions (real 2^32 wrap-around, longer histories) logged for Trace_KeySet.
// Key material is projected to key identities (first sight order = the specification's `next` counter).
// The start of the daemon (load, falling back to fresh keys) and the open of the store path are the few lines of
// ntpd/src/daemon/nts_key_provider.rs, repeated here with the open flags / mode *observed* on the real task by
// harness/ntpd/nts_key_provider.rs (job cfg "trunc", "mode").
#![allow(clippy::all, dead_code)]

use super::*;
// explicit imports: do not rely on what the parent module happens to import
#[allow(unused_imports)]
use std::sync::Arc;
use serde_json::{Value, json};
use std::io::{Seek, SeekFrom};
use std::os::unix::fs::{OpenOptionsExt, PermissionsExt};

#[path = "/verif/harness/common/util.rs"]
mod util;
use util::Rng;

const MAXV: i64 = 1000;
const CORRUPT_ID: i64 = 500;

struct Cfg {
    history: usize,
    m: u64,
    init_offset: u32,
    init_keys: usize,
    trunc: bool,
    mode: u32,
    path: String,
    all_bits: bool,
}

impl Cfg {
    fn from(v: &Value, path: String) -> Self {
        let m = v["M"].as_u64().unwrap();
        let io = v["InitOffset"].as_u64().unwrap();
        Cfg {
            history: v["History"].as_u64().unwrap() as usize,
            m,
            // the real counter starts just below 2^32 so that it wraps where the model wraps
            init_offset: (0u32).wrapping_sub((m - io) as u32),
            init_keys: v["InitKeys"].as_u64().unwrap() as usize,
            trunc: v["trunc"].as_bool().unwrap(),
            mode: v["mode"].as_u64().unwrap() as u32,
            path,
            all_bits: v["all_bits"].as_bool().unwrap_or(false),
        }
    }
}

#[derive(Clone, PartialEq, Debug)]
struct Payload {
    alg: u16,
    s2c: Vec<u8>,
    c2s: Vec<u8>,
}

fn cookie_of(p: &Payload) -> DecodedServerCookie {
    if p.alg == 15 {
        DecodedServerCookie {
            algorithm: AeadAlgorithm::AeadAesSivCmac256,
            s2c: Box::new(AesSivCmac256::try_from(&p.s2c[..]).unwrap()),
            c2s: Box::new(AesSivCmac256::try_from(&p.c2s[..]).unwrap()),
        }
    } else {
        DecodedServerCookie {
            algorithm: AeadAlgorithm::AeadAesSivCmac512,
            s2c: Box::new(AesSivCmac512::try_from(p.s2c.iter()).unwrap()),
            c2s: Box::new(AesSivCmac512::try_from(p.c2s.iter()).unwrap()),
        }
    }
}

fn payload_of(d: &DecodedServerCookie) -> Payload {
    Payload { alg: u16::from(d.algorithm), s2c: d.s2c.key_bytes().to_vec(), c2s: d.c2s.key_bytes().to_vec() }
}

fn random_payload(rng: &mut Rng) -> Payload {
    if rng.chance(1, 2) {
        Payload { alg: 15, s2c: rng.bytes(32), c2s: rng.bytes(32) }
    } else {
        Payload { alg: 17, s2c: rng.bytes(64), c2s: rng.bytes(64) }
    }
}

type RealSet = (Vec<Vec<u8>>, u32, u32);

fn set_of(p: &KeySetProvider) -> RealSet {
    let ks = p.get();
    (ks.keys.iter().map(|k| k.key_bytes().to_vec()).collect(), ks.id_offset, ks.primary)
}

/// Can this key set issue a cookie and decode it again (no panic, same content)?
fn usable(p: &KeySetProvider, rng: &mut Rng) -> bool {
    let pl = random_payload(rng);
    let ks = p.get();
    matches!(util::catch(|| {
        let c = ks.encode_cookie(&cookie_of(&pl));
        ks.decode_cookie(&c).map(|d| payload_of(&d) == pl).unwrap_or(false)
    }), Ok(true))
}

/// Records the write calls of `store`: one token per write_all.
struct Recorder(Vec<Vec<u8>>);
impl Write for Recorder {
    fn write(&mut self, buf: &[u8]) -> std::io::Result<usize> {
        self.0.push(buf.to_vec());
        Ok(buf.len())
    }
    fn flush(&mut self) -> std::io::Result<()> {
        Ok(())
    }
}

fn tok_size(idx: usize) -> usize {
    match idx {
        0 => 8,
        1 | 2 | 3 => 4,
        _ => 64,
    }
}
fn tok_start(idx: usize) -> usize {
    (0..idx).map(tok_size).sum()
}

struct Sut {
    cfg: Cfg,
    rng: Rng,
    provider: Option<KeySetProvider>,
    ids: Vec<(Vec<u8>, i64)>,
    next_fresh: i64,
    cookies: Vec<(Vec<u8>, Payload)>,
    file: Option<std::fs::File>,
    stream: Vec<Vec<u8>>,
    fd: usize,
    usable: bool,
}

impl Sut {
    fn new(cfg: Cfg, seed: u64) -> Self {
        let mut s = Sut {
            cfg,
            rng: Rng::new(seed),
            provider: None,
            ids: vec![],
            next_fresh: 0,
            cookies: vec![],
            file: None,
            stream: vec![],
            fd: 0,
            usable: true,
        };
        let _ = std::fs::remove_file(&s.cfg.path);
        if s.cfg.init_keys > 0 {
            // a key file left by an earlier run of the daemon (written by the real `store` of a crafted set)
            let n = s.cfg.init_keys;
            let keys: Vec<Vec<u8>> = (0..n).map(|_| s.rng.bytes(64)).collect();
            for (i, k) in keys.iter().enumerate() {
                s.ids.push((k.clone(), 100 + i as i64));
            }
            let p = KeySetProvider {
                current: Arc::new(KeySet {
                    keys: keys.iter().map(|k| AesSivCmac512::try_from(k.iter()).unwrap()).collect(),
                    id_offset: s.cfg.init_offset,
                    primary: n as u32 - 1,
                }),
                history: s.cfg.history,
            };
            let mut f = std::fs::OpenOptions::new().create(true).truncate(true).write(true).mode(0o600).open(&s.cfg.path).unwrap();
            p.store(&mut f).unwrap();
        }
        s
    }

    fn id_of(&mut self, bytes: &[u8], assign: bool) -> i64 {
        if let Some((_, id)) = self.ids.iter().find(|(b, _)| b == bytes) {
            return *id;
        }
        if assign {
            let id = self.next_fresh;
            self.next_fresh += 1;
            self.ids.push((bytes.to_vec(), id));
            id
        } else {
            -99
        }
    }

    fn hv(&self, x: u32) -> i64 {
        if x == u32::MAX { MAXV } else { (x as i64).min(MAXV - 1) }
    }

    fn tokens(&mut self, data: &[u8]) -> Vec<Value> {
        let mut out = vec![];
        let mut pos = 0;
        let mut idx = 0;
        while pos < data.len() {
            let size = tok_size(idx);
            if pos + size <= data.len() {
                let b = &data[pos..pos + size];
                let v = match idx {
                    0 => 0,
                    1 => (u32::from_be_bytes(b.try_into().unwrap()) as u64 % self.cfg.m) as i64,
                    2 | 3 => self.hv(u32::from_be_bytes(b.try_into().unwrap())),
                    _ => self.id_of(b, false),
                };
                out.push(json!({"v": v, "part": false}));
            } else {
                out.push(json!({"v": -7, "part": true}));
            }
            pos += size;
            idx += 1;
        }
        out
    }

    fn disk(&mut self) -> Value {
        match std::fs::metadata(&self.cfg.path) {
            Err(_) => json!({"exists": false, "mode": 0, "toks": []}),
            Ok(meta) => {
                let data = std::fs::read(&self.cfg.path).unwrap();
                let toks = self.tokens(&data);
                json!({"exists": true, "mode": meta.permissions().mode() & 0o7777, "toks": toks})
            }
        }
    }

    fn state(&mut self) -> Value {
        let (keys, offset, primary) = match &self.provider {
            Some(p) => set_of(p),
            None => (vec![], 0, 0),
        };
        let ids: Vec<i64> = keys.iter().map(|k| self.id_of(k, true)).collect();
        let disk = self.disk();
        json!({"up": self.provider.is_some(), "memobs": true, "keys": ids, "offset": offset as u64 % self.cfg.m, "offset32": offset,
               "primary": self.hv(primary), "disk": disk, "usable": self.usable, "ncookies": self.cookies.len()})
    }

    /// What a start of the daemon would do with the file as it is now: "err" (fresh keys), "unusable" (loads a
    /// set that cannot issue/decode), "same"/"other" relative to `expect`, or "ok" when there is nothing to compare.
    fn probe(&mut self, expect: Option<&RealSet>) -> String {
        let path = self.cfg.path.clone();
        let history = self.cfg.history;
        let r = util::catch(|| {
            let mut input = std::fs::File::open(&path).ok()?;
            KeySetProvider::load(&mut input, history).ok().map(|x| x.0)
        });
        match r {
            Err(_) => "panic".into(),
            Ok(None) => "err".into(),
            Ok(Some(p)) => {
                if !usable(&p, &mut self.rng) {
                    "unusable".into()
                } else {
                    match expect {
                        None => "ok".into(),
                        Some(e) => if &set_of(&p) == e { "same".into() } else { "other".into() },
                    }
                }
            }
        }
    }

    fn agree(views: Vec<String>) -> String {
        let mut u = views.clone();
        u.sort();
        u.dedup();
        if u.len() == 1 { u.pop().unwrap() } else { u.join("|") }
    }

    fn materialise(&self, data: &[u8]) {
        // rewrite the content of the existing file, keeping its mode
        let mut f = std::fs::OpenOptions::new().write(true).truncate(true).open(&self.cfg.path).unwrap();
        f.write_all(data).unwrap();
    }

    fn out(res: &str, w: i64, k: i64, load: &str) -> Value {
        json!({"res": res, "w": w, "k": k, "load": load})
    }

    fn apply(&mut self, act: &Value) -> (Value, Value, Option<String>) {
        let r = util::catch(|| self.apply_inner(act));
        let (out, panic) = match r {
            Ok(Ok(o)) => (o, None),
            Ok(Err(p)) => (Self::out("-", -1, -1, "-"), Some(p)),
            Err(p) => (Self::out("-", -1, -1, "-"), Some(format!("harness: {p}"))),
        };
        let st = self.state();
        (st, out, panic)
    }

    fn apply_inner(&mut self, act: &Value) -> Result<Value, String> {
        let t = act["t"].as_str().unwrap();
        match t {
            "Rotate" => {
                let p = self.provider.as_mut().unwrap();
                util::catch(|| p.rotate())?;
                let p = self.provider.as_ref().unwrap();
                self.usable = usable(p, &mut self.rng);
                Ok(Self::out("-", -1, -1, "-"))
            }
            "Issue" => {
                let pl = random_payload(&mut self.rng);
                let ks = self.provider.as_ref().unwrap().get();
                let c = util::catch(|| ks.encode_cookie(&cookie_of(&pl)))?;
                let w = (u32::from_be_bytes(c[0..4].try_into().unwrap()) as u64 % self.cfg.m) as i64;
                // which key made it: the one that opens it
                let mut k = -99;
                let ctlen = u16::from_be_bytes([c[4], c[5]]) as usize;
                for (bytes, id) in &self.ids {
                    let key = AesSivCmac512::try_from(bytes.iter()).unwrap();
                    if key.decrypt(&c[6..22], &c[22..22 + ctlen], &[]).is_ok() {
                        k = *id;
                    }
                }
                self.cookies.push((c, pl));
                Ok(Self::out("cookie", w, k, "-"))
            }
            "Decode" => {
                let (c, pl) = self.cookies[act["c"].as_u64().unwrap() as usize - 1].clone();
                let ks = self.provider.as_ref().unwrap().get();
                let var = act["var"].as_str().unwrap();
                let mut tries: Vec<Vec<u8>> = vec![];
                match var {
                    "intact" => tries.push(c.clone()),
                    "padded" => {
                        for n in [1usize, 2, 3, 16] {
                            let mut x = c.clone();
                            x.extend(self.rng.bytes(n));
                            tries.push(x);
                        }
                    }
                    "cut" => {
                        for n in [1usize, 2, 15, 16, 17, c.len() - 22] {
                            tries.push(c[..c.len() - n].to_vec());
                        }
                    }
                    "short" => {
                        for n in [0usize, 1, 5, 6, 21] {
                            tries.push(c[..n].to_vec());
                        }
                    }
                    "tamper" => {
                        // EVERY byte of the cookie (all are inside its declared length)
                        for i in 0..c.len() {
                            if self.cfg.all_bits {
                                for b in 0..8 {
                                    let mut x = c.clone();
                                    x[i] ^= 1 << b;
                                    tries.push(x);
                                }
                            } else {
                                let mut x = c.clone();
                                x[i] ^= 1 + self.rng.below(255) as u8;
                                tries.push(x);
                            }
                        }
                    }
                    "foreign" => {
                        let wire = u32::from_be_bytes(c[0..4].try_into().unwrap());
                        let fk = self.rng.bytes(64);
                        let foreign = KeySet { keys: vec![AesSivCmac512::try_from(fk.iter()).unwrap()], id_offset: wire, primary: 0 };
                        tries.push(foreign.encode_cookie(&cookie_of(&pl)));
                        tries.push(foreign.encode_cookie(&cookie_of(&random_payload(&mut self.rng))));
                    }
                    v => panic!("unknown variant {v}"),
                }
                let mut views = vec![];
                for x in &tries {
                    let r = util::catch(|| ks.decode_cookie(x))?;
                    views.push(match r {
                        Err(_) => "err".to_string(),
                        Ok(d) => if payload_of(&d) == pl { "ok".to_string() } else { "wrong".to_string() },
                    });
                }
                Ok(Self::out(&Self::agree(views), -1, -1, "-"))
            }
            "Open" => {
                let existed = std::fs::metadata(&self.cfg.path).is_ok();
                let f = std::fs::OpenOptions::new().create(true).truncate(self.cfg.trunc).write(true).mode(self.cfg.mode)
                    .open(&self.cfg.path).map_err(|e| format!("open: {e}"))?;
                self.file = Some(f);
                let p = self.provider.as_ref().unwrap();
                let mut rec = Recorder(vec![]);
                util::catch(|| p.store(&mut rec))?.map_err(|e| format!("store: {e}"))?;
                self.stream = rec.0;
                self.fd = 1;
                let set = set_of(self.provider.as_ref().unwrap());
                let load = self.probe(Some(&set));
                Ok(Self::out(if existed { "opened" } else { "created" }, -1, -1, &load))
            }
            "Write" => {
                let tok = self.stream.get(self.fd - 1).cloned().unwrap_or_default();
                self.file.as_mut().unwrap().write_all(&tok).unwrap();
                self.fd += 1;
                let set = set_of(self.provider.as_ref().unwrap());
                let load = self.probe(Some(&set));
                Ok(Self::out("-", -1, -1, &load))
            }
            "Close" => {
                // a `store` that issues more writes than the specification's token sequence shows up here
                while self.fd - 1 < self.stream.len() {
                    let tok = self.stream[self.fd - 1].clone();
                    self.file.as_mut().unwrap().write_all(&tok).unwrap();
                    self.fd += 1;
                }
                self.file = None;
                self.fd = 0;
                let set = set_of(self.provider.as_ref().unwrap());
                let load = self.probe(Some(&set));
                Ok(Self::out("-", -1, -1, &load))
            }
            "Crash" => {
                let torn = act["torn"].as_bool().unwrap();
                let set = set_of(self.provider.as_ref().unwrap());
                let mut load = "-".to_string();
                if self.fd > 0 {
                    let pos = self.file.as_mut().unwrap().seek(SeekFrom::Current(0)).unwrap() as usize;
                    self.file = None;
                    if torn {
                        // EVERY byte-level crash point inside the token being written
                        let tok = self.stream.get(self.fd - 1).cloned().unwrap_or_default();
                        let base = std::fs::read(&self.cfg.path).unwrap();
                        let mut views = vec![];
                        let keep = 1 + self.rng.below(tok.len() as u64 - 1) as usize;
                        let mut kept = base.clone();
                        for p in 1..tok.len() {
                            let mut data = base.clone();
                            if data.len() < pos + p {
                                data.resize(pos + p, 0);
                            }
                            data[pos..pos + p].copy_from_slice(&tok[..p]);
                            self.materialise(&data);
                            views.push(self.probe(Some(&set)));
                            if p == keep {
                                kept = data;
                            }
                        }
                        self.materialise(&kept);
                        load = Self::agree(views);
                    } else {
                        load = self.probe(Some(&set));
                    }
                }
                self.file = None;
                self.fd = 0;
                self.provider = None;
                Ok(Self::out("-", -1, -1, &load))
            }
            "Restart" => {
                // nts_key_provider.rs spawn(): File::open + KeySetProvider::load, else KeySetProvider::new
                let path = self.cfg.path.clone();
                let history = self.cfg.history;
                let r = util::catch(|| {
                    let mut input = std::fs::File::open(&path).ok()?;
                    KeySetProvider::load(&mut input, history).ok().map(|x| x.0)
                })?;
                let (p, res) = match r {
                    Some(p) => (p, "loaded"),
                    None => (KeySetProvider::new(history), "fresh"),
                };
                self.usable = usable(&p, &mut self.rng);
                self.provider = Some(p);
                Ok(Self::out(res, -1, -1, if res == "loaded" { "ok" } else { "err" }))
            }
            "Truncate" => {
                let n = act["n"].as_u64().unwrap() as usize;
                let part = act["part"].as_bool().unwrap();
                let data = std::fs::read(&self.cfg.path).unwrap();
                let start = tok_start(n);
                if !part {
                    self.materialise(&data[..start]);
                    let load = self.probe(None);
                    return Ok(Self::out("-", -1, -1, &load));
                }
                let size = tok_size(n);
                let keep = 1 + self.rng.below(size as u64 - 1) as usize;
                let mut views = vec![];
                for p in 1..size {
                    self.materialise(&data[..start + p]);
                    views.push(self.probe(None));
                }
                self.materialise(&data[..start + keep]);
                Ok(Self::out("-", -1, -1, &Self::agree(views)))
            }
            "CorruptHeader" => {
                let mut data = std::fs::read(&self.cfg.path).unwrap();
                let f = act["f"].as_str().unwrap();
                let pos = match f { "offset" => 8, "primary" => 12, _ => 16 };
                let len_field = u32::from_be_bytes(data[16..20].try_into().unwrap());
                let nkeys = ((data.len() - 20) / 64) as u32;
                let reference = if f == "len" { nkeys } else { len_field };
                let cur = u32::from_be_bytes(data[pos..pos + 4].try_into().unwrap());
                let v: u32 = match act["cls"].as_str().unwrap() {
                    "zero" => 0,
                    "refm1" => reference.wrapping_sub(1),
                    "ref" => reference,
                    "refp1" => reference.wrapping_add(1),
                    "max" => u32::MAX,
                    "bump" => cur.wrapping_add(1),
                    c => panic!("unknown class {c}"),
                };
                data[pos..pos + 4].copy_from_slice(&v.to_be_bytes());
                self.materialise(&data);
                let load = self.probe(None);
                Ok(Self::out("-", -1, -1, &load))
            }
            "CorruptKey" => {
                let i = act["i"].as_u64().unwrap() as usize;
                let data = std::fs::read(&self.cfg.path).unwrap();
                let start = tok_start(3 + i);
                let keep = self.rng.below(64) as usize;
                let mut kept = data.clone();
                let mut views = vec![];
                // EVERY byte of the key
                for b in 0..64 {
                    let mut x = data.clone();
                    x[start + b] ^= 1 << self.rng.below(8);
                    self.materialise(&x);
                    views.push(self.probe(None));
                    if b == keep {
                        kept = x;
                    }
                }
                self.materialise(&kept);
                self.ids.push((kept[start..start + 64].to_vec(), CORRUPT_ID + i as i64));
                Ok(Self::out("-", -1, -1, &Self::agree(views)))
            }
            t => panic!("unknown action {t}"),
        }
    }
}

fn toks_equal(e: &Value, o: &Value) -> bool {
    let (e, o) = (e.as_array().unwrap(), o.as_array().unwrap());
    e.len() == o.len()
        && e.iter().zip(o).all(|(a, b)| a["part"] == b["part"] && (a["part"] == json!(true) || a["v"] == b["v"]))
}

/// Names of the observables that differ from the specification's expectation.
fn compare(exp_post: &Value, exp_out: &Value, st: &Value, out: &Value, panic: &Option<String>) -> Vec<String> {
    let mut d = vec![];
    if panic.is_some() {
        d.push("panic".to_string());
        return d;
    }
    if exp_post["up"] != st["up"] {
        d.push("up".into());
    }
    if exp_post["up"] == json!(true) {
        for k in ["keys", "offset", "primary"] {
            if exp_post[k] != st[k] {
                d.push(k.to_string());
            }
        }
        if st["usable"] != json!(true) {
            d.push("usable".into());
        }
    }
    let (ed, od) = (&exp_post["disk"], &st["disk"]);
    if ed["exists"] != od["exists"] || (ed["exists"] == json!(true) && ed["mode"] != od["mode"]) || !toks_equal(&ed["toks"], &od["toks"]) {
        d.push("disk".into());
    }
    for k in ["res", "w", "k", "load"] {
        if exp_out[k] != out[k] {
            d.push(format!("out.{k}"));
        }
    }
    d
}

fn replay(job: &Value) {
    let walks = util::read_ndjson(job["input"].as_str().unwrap());
    let mut out = util::NdjsonOut::create(job["output"].as_str().unwrap());
    let seed = job["seed"].as_u64().unwrap_or(0);
    let dir = job["cfg"]["dir"].as_str().unwrap();
    std::fs::create_dir_all(dir).unwrap();
    for w in walks {
        let id = w["id"].as_u64().unwrap_or(0);
        let cfg = Cfg::from(&job["cfg"], format!("{dir}/keys_{id}.dat"));
        let mut sut = Sut::new(cfg, seed ^ (id << 8));
        let steps = w["walk"].as_array().unwrap();
        let mut fail = Value::Null;
        let mut run = 0;
        for (n, st) in steps.iter().enumerate() {
            let (obs_st, obs_out, panic) = sut.apply(&st["act"]);
            run = n + 1;
            let d = compare(&st["post"], &st["out"], &obs_st, &obs_out, &panic);
            if !d.is_empty() {
                fail = json!({"step": n, "fields": d, "observed": {"st": obs_st, "out": obs_out}, "panic": panic});
                break;
            }
        }
        let _ = std::fs::remove_file(&sut.cfg.path);
        out.put(&json!({"id": w["id"], "steps_run": run, "fail": fail}));
    }
    out.finish();
}

/// Seeded random sessions far outside the bounded model (real 32-bit wrap, longer histories, many rotations).
fn record(job: &Value) {
    let mut out = util::NdjsonOut::create(job["output"].as_str().unwrap());
    let seed = job["seed"].as_u64().unwrap_or(0);
    let sessions = job["sessions"].as_u64().unwrap_or(10);
    let steps = job["steps"].as_u64().unwrap_or(100);
    let dir = job["dir"].as_str().unwrap();
    std::fs::create_dir_all(dir).unwrap();
    let mut rng = Rng::new(seed ^ 0x6b65);
    for sess in 0..sessions {
        let cfgv = &job["cfgs"][(sess as usize) % job["cfgs"].as_array().unwrap().len()];
        let cfg = Cfg::from(cfgv, format!("{dir}/rec_{sess}.dat"));
        let mut sut = Sut::new(cfg, seed.wrapping_add(sess * 7919));
        out.put(&json!({"ev": "reset", "cfg": cfgv, "st": sut.state()}));
        for _ in 0..steps {
            if sut.next_fresh >= 90 {
                break; // identities >= 100 are reserved for keys of a pre-existing file
            }
            let up = sut.provider.is_some();
            let act = if !up {
                json!({"t": "Restart"})
            } else if sut.fd > 0 {
                let ntok = 4 + set_of(sut.provider.as_ref().unwrap()).0.len();
                if rng.chance(1, 12) {
                    json!({"t": "Crash", "torn": sut.fd <= ntok && rng.chance(1, 2)})
                } else if sut.fd <= ntok {
                    json!({"t": "Write"})
                } else {
                    json!({"t": "Close"})
                }
            } else {
                let r = rng.below(100);
                if r < 25 {
                    json!({"t": "Rotate"})
                } else if r < 45 && sut.cookies.len() < 40 {
                    json!({"t": "Issue"})
                } else if r < 80 && !sut.cookies.is_empty() {
                    let c = 1 + rng.below(sut.cookies.len() as u64);
                    let var = *rng.pick(&["intact", "intact", "intact", "padded", "cut", "foreign", "short"]);
                    json!({"t": "Decode", "c": c, "var": var})
                } else if r < 95 {
                    json!({"t": "Open"})
                } else {
                    json!({"t": "Crash", "torn": false})
                }
            };
            let (st, o, panic) = sut.apply(&act);
            out.put(&json!({"ev": "step", "act": act, "st": st, "out": o, "panic": panic.clone().unwrap_or_default()}));
            if panic.is_some() {
                break;
            }
        }
        let _ = std::fs::remove_file(&sut.cfg.path);
    }
    out.finish();
}

// ------------------------------------------------------------------------------------------------------------
// spec/CookiePlain.tla: cookies that authenticate under a key the set holds but whose plaintext has any shape
// ------------------------------------------------------------------------------------------------------------
#[path = "/verif/harness/common/wire.rs"]
mod wire;

/// a cookie made like KeySet::encode_cookie makes them, around an arbitrary plaintext
fn forge_cookie(keys: &KeySet, plaintext: &[u8]) -> Vec<u8> {
    let mut output = plaintext.to_vec();
    let n = output.len();
    output.resize(n + 2 + 4 + 16 + 16, 0);
    output.copy_within(0..n, 6);
    let r = keys.keys[keys.primary as usize].encrypt(&mut output[6..], n, &[]).expect("encrypt");
    assert_eq!(r.nonce_length, 16);
    output[0..4].copy_from_slice(&(keys.primary.wrapping_add(keys.id_offset)).to_be_bytes());
    output[4..6].copy_from_slice(&(r.ciphertext_length as u16).to_be_bytes());
    output.truncate(6 + r.nonce_length + r.ciphertext_length);
    output
}

fn plaintexts(job: &Value) {
    let cases = util::read_ndjson(job["input"].as_str().unwrap());
    let mut out = util::NdjsonOut::create(job["output"].as_str().unwrap());
    let mut rng = Rng::new(job["seed"].as_u64().unwrap_or(0) ^ 0x636f_6f6b);
    for history in [0usize, 2] {
        let mut prov = KeySetProvider::new(history);
        for _ in 0..3 {
            prov.rotate();
        }
        let keys = prov.get();
        for (n, c) in cases.iter().enumerate() {
            let plain: Vec<u8> = match c["short"].as_str().unwrap() {
                "none" => vec![],
                "one" => vec![0],
                _ => {
                    let mut v = (c["alg"].as_u64().unwrap() as u16).to_be_bytes().to_vec();
                    v.extend(rng.bytes(c["len"].as_u64().unwrap() as usize));
                    v
                }
            };
            let cookie = forge_cookie(&keys, &plain);
            let alone = match util::catch(|| keys.decode_cookie(&cookie).is_ok()) {
                Ok(true) => "ok".to_string(),
                Ok(false) => "err".to_string(),
                Err(p) => format!("panic:{p}"),
            };
            // inside a request: unique id, the cookie, an authenticator sealed with the c2s key the plaintext names
            // (a random key if it names none); v4 and v5
            let mut in_packet = vec![];
            for ver in [4u8, 5] {
                let c2s: Box<dyn crate::packet::Cipher> = if c["ok"] == json!(true) {
                    let w = (plain.len() - 2) / 2;
                    if w == 32 {
                        Box::new(AesSivCmac256::try_from(&plain[2 + w..]).unwrap())
                    } else {
                        Box::new(AesSivCmac512::try_from(plain[2 + w..].iter()).unwrap())
                    }
                } else {
                    Box::new(AesSivCmac256::try_from(&rng.bytes(32)[..]).unwrap())
                };
                let mut hdr = wire::Hdr::new(ver, 3);
                if ver == 5 {
                    hdr.word3 = [0, 0, 0, 1];
                }
                let mut pre = vec![];
                if ver == 5 {
                    pre.push(wire::Ef::Draft(wire::DRAFT.to_vec()));
                }
                pre.push(wire::Ef::Uid(rng.bytes(32)));
                pre.push(wire::Ef::Cookie(cookie.clone()));
                let (d, _) = wire::datagram(&hdr, &pre, Some((c2s.as_ref(), &[])), &[]);
                let r = match util::catch(|| crate::packet::NtpPacket::deserialize(&d, keys.as_ref()).map(|(_, ck)| ck.is_some())) {
                    Ok(Ok(true)) => "ok".to_string(),
                    Ok(Ok(false)) => "ok-without-cookie".to_string(),
                    Ok(Err(_)) => "err".to_string(),
                    Err(p) => format!("panic:{p}"),
                };
                in_packet.push(json!([ver, r]));
            }
            out.put(&json!({"id": n, "history": history, "alone": alone, "in_packet": in_packet}));
        }
    }
    out.finish();
}

#[test]
fn verif_keyset() {
    let job = util::job();
    match job["mode"].as_str().unwrap() {
        "replay" => replay(&job),
        "record" => record(&job),
        "plaintexts" => plaintexts(&job),
        m => panic!("unknown mode {m}"),
    }
}
