// Byte-level NTP datagram builder used by the harness to concretise abstract datagrams.
// It is deliberately independent of the crate's own encoder: only `Cipher::encrypt` is borrowed,
// so a defect in the encoder cannot hide itself from the checks that parse these datagrams.
#![allow(dead_code)]

use crate::packet::Cipher;

#[derive(Clone, Debug)]
pub enum Ef {
    Uid(Vec<u8>),
    Cookie(Vec<u8>),
    Placeholder(usize),
    Draft(Vec<u8>),
    RefIdReq { len: u16, off: u16 },
    RefIdResp(Vec<u8>),
    Unknown(u16, Vec<u8>),
    /// complete field bytes given verbatim (type, length and body)
    Raw(Vec<u8>),
}

pub const DRAFT: &[u8] = b"draft-ietf-ntp-ntpv5-09";

fn pad4(n: usize) -> usize {
    n.div_ceil(4) * 4
}

/// One extension field. v4: the length word includes padding; v5: it is the unpadded length.
pub fn ef_bytes(ef: &Ef, v5: bool, minimum: usize) -> Vec<u8> {
    let (ty, body): (u16, Vec<u8>) = match ef {
        Ef::Uid(b) => (0x0104, b.clone()),
        Ef::Cookie(b) => (0x0204, b.clone()),
        Ef::Placeholder(n) => (0x0304, vec![0; *n]),
        Ef::Draft(b) => (0xF5FF, b.clone()),
        Ef::RefIdReq { len, off } => {
            let mut b = vec![0u8; (*len as usize).max(2)];
            b[0..2].copy_from_slice(&off.to_be_bytes());
            b.truncate(*len as usize);
            (0xF503, b)
        }
        Ef::RefIdResp(b) => (0xF504, b.clone()),
        Ef::Unknown(t, b) => (*t, b.clone()),
        Ef::Raw(b) => return b.clone(),
    };
    let unpadded = (body.len() + 4).max(minimum);
    let wire = pad4(unpadded);
    let declared = if v5 { unpadded } else { wire };
    let mut out = Vec::with_capacity(wire);
    out.extend_from_slice(&ty.to_be_bytes());
    out.extend_from_slice(&(declared as u16).to_be_bytes());
    out.extend_from_slice(&body);
    out.resize(wire, 0);
    out
}

#[derive(Clone, Debug)]
pub struct Hdr {
    pub leap: u8,
    pub version: u8,
    pub mode: u8,
    pub stratum: u8,
    pub poll: u8,
    pub precision: i8,
    pub root_delay: [u8; 4],
    pub root_disp: [u8; 4],
    /// v3/v4: reference id; v5: timescale, era, flags(2)
    pub word3: [u8; 4],
    /// v3/v4: reference timestamp; v5: server cookie
    pub word4: [u8; 8],
    /// v3/v4: origin timestamp; v5: client cookie
    pub origin: [u8; 8],
    pub recv: [u8; 8],
    pub xmit: [u8; 8],
}

impl Hdr {
    pub fn new(version: u8, mode: u8) -> Self {
        Hdr {
            leap: 0,
            version,
            mode,
            stratum: 2,
            poll: 4,
            precision: -20,
            root_delay: [0, 0, 0, 16],
            root_disp: [0, 0, 0, 16],
            word3: [0; 4],
            word4: [0; 8],
            origin: [0; 8],
            recv: [0; 8],
            xmit: [0; 8],
        }
    }
    pub fn bytes(&self) -> Vec<u8> {
        let mut o = Vec::with_capacity(48);
        o.push((self.leap << 6) | ((self.version & 7) << 3) | (self.mode & 7));
        o.push(self.stratum);
        o.push(self.poll);
        o.push(self.precision as u8);
        o.extend_from_slice(&self.root_delay);
        o.extend_from_slice(&self.root_disp);
        o.extend_from_slice(&self.word3);
        o.extend_from_slice(&self.word4);
        o.extend_from_slice(&self.origin);
        o.extend_from_slice(&self.recv);
        o.extend_from_slice(&self.xmit);
        o
    }
}

/// Byte ranges of the regions of a sealed datagram (for tamper experiments).
#[derive(Clone, Debug, Default)]
pub struct Layout {
    pub header: (usize, usize),
    pub auth_fields: Vec<(usize, usize)>,
    /// start of the authenticator field, offsets of: type/len word, nonce-len/ct-len word, nonce, nonce padding,
    /// ciphertext, ciphertext padding, end
    pub authenticator: Option<[usize; 7]>,
    pub trailing: (usize, usize),
}

/// header ++ authenticated fields ++ [authenticator(sealing `enc`)] ++ unauthenticated fields
pub fn datagram(
    hdr: &Hdr,
    auth: &[Ef],
    seal: Option<(&dyn Cipher, &[Ef])>,
    unt: &[Ef],
) -> (Vec<u8>, Layout) {
    let v5 = hdr.version == 5;
    let mut lay = Layout::default();
    let mut out = hdr.bytes();
    lay.header = (0, out.len());
    for ef in auth {
        let s = out.len();
        out.extend(ef_bytes(ef, v5, if seal.is_some() { 16 } else { 4 }));
        lay.auth_fields.push((s, out.len()));
    }
    if let Some((cipher, enc)) = seal {
        let mut plain = Vec::new();
        for ef in enc {
            plain.extend(ef_bytes(ef, v5, 4));
        }
        let pt_len = plain.len();
        let mut buf = plain;
        buf.resize(pt_len + 64, 0);
        let r = cipher.encrypt(&mut buf, pt_len, &out).expect("encrypt");
        let nonce = buf[..r.nonce_length].to_vec();
        let ct = buf[r.nonce_length..r.nonce_length + r.ciphertext_length].to_vec();
        let start = out.len();
        let total = 8 + pad4(nonce.len()) + pad4(ct.len());
        out.extend_from_slice(&0x0404u16.to_be_bytes());
        out.extend_from_slice(&(total as u16).to_be_bytes());
        out.extend_from_slice(&(nonce.len() as u16).to_be_bytes());
        out.extend_from_slice(&(ct.len() as u16).to_be_bytes());
        let n0 = out.len();
        out.extend_from_slice(&nonce);
        let n1 = out.len();
        out.resize(n0 + pad4(nonce.len()), 0);
        let c0 = out.len();
        out.extend_from_slice(&ct);
        let c1 = out.len();
        out.resize(c0 + pad4(ct.len()), 0);
        lay.authenticator = Some([start, start + 4, n0, n1, c0, c1, out.len()]);
    }
    let t0 = out.len();
    let n = unt.len();
    for (i, ef) in unt.iter().enumerate() {
        let minimum = if v5 { 4 } else if i + 1 == n { 28 } else { 16 };
        out.extend(ef_bytes(ef, v5, minimum));
    }
    lay.trailing = (t0, out.len());
    (out, lay)
}

/// Extension fields of a datagram as (type, body-with-padding) pairs, parsed leniently: stops at the
/// first malformed field. `skip` = header length.
pub fn fields(data: &[u8], skip: usize) -> Vec<(u16, Vec<u8>)> {
    let mut out = Vec::new();
    let mut p = skip;
    while p + 4 <= data.len() {
        let ty = u16::from_be_bytes([data[p], data[p + 1]]);
        let len = u16::from_be_bytes([data[p + 2], data[p + 3]]) as usize;
        if len < 4 || p + pad4(len) > data.len() {
            break;
        }
        out.push((ty, data[p + 4..p + len].to_vec()));
        p += pad4(len);
    }
    out
}
