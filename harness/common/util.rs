// Shared helpers for the verification harness modules (included with #[path] into each of them).
#![allow(dead_code)]

use serde_json::Value;
use std::io::{BufRead, BufReader, BufWriter, Write};

pub fn job() -> Value {
    let path = std::env::var("VERIF_JOB").expect("VERIF_JOB not set");
    let text = std::fs::read_to_string(&path).expect("cannot read job file");
    serde_json::from_str(&text).expect("job file is not JSON")
}

pub fn read_ndjson(path: &str) -> Vec<Value> {
    let f = std::fs::File::open(path).unwrap_or_else(|e| panic!("cannot open {path}: {e}"));
    BufReader::new(f)
        .lines()
        .map(|l| l.unwrap())
        .filter(|l| !l.trim().is_empty())
        .map(|l| serde_json::from_str(&l).expect("bad ndjson line"))
        .collect()
}

pub struct NdjsonOut {
    w: BufWriter<std::fs::File>,
}

impl NdjsonOut {
    pub fn create(path: &str) -> Self {
        let f = std::fs::File::create(path).unwrap_or_else(|e| panic!("cannot create {path}: {e}"));
        NdjsonOut { w: BufWriter::new(f) }
    }
    pub fn put(&mut self, v: &Value) {
        serde_json::to_writer(&mut self.w, v).unwrap();
        self.w.write_all(b"\n").unwrap();
    }
    pub fn finish(mut self) {
        self.w.flush().unwrap();
    }
}

/// Runs `f`, turning a panic of the code under test into data (the panic message).
pub fn catch<R>(f: impl FnOnce() -> R) -> Result<R, String> {
    use std::sync::Once;
    static HOOK: Once = Once::new();
    HOOK.call_once(|| {
        let default = std::panic::take_hook();
        std::panic::set_hook(Box::new(move |info| {
            if std::env::var("VERIF_SHOW_PANICS").is_ok() {
                default(info);
            }
        }));
    });
    match std::panic::catch_unwind(std::panic::AssertUnwindSafe(f)) {
        Ok(r) => Ok(r),
        Err(e) => {
            let msg = if let Some(s) = e.downcast_ref::<&str>() {
                (*s).to_string()
            } else if let Some(s) = e.downcast_ref::<String>() {
                s.clone()
            } else {
                "<non-string panic>".to_string()
            };
            Err(msg)
        }
    }
}

/// Deterministic small PRNG (xorshift*), so harness randomness depends only on VERIF_SEED.
pub struct Rng(pub u64);

impl Rng {
    pub fn new(seed: u64) -> Self {
        Rng(seed.wrapping_mul(0x9E37_79B9_7F4A_7C15) ^ 0xD1B5_4A32_D192_ED03 | 1)
    }
    pub fn next(&mut self) -> u64 {
        let mut x = self.0;
        x ^= x >> 12;
        x ^= x << 25;
        x ^= x >> 27;
        self.0 = x;
        x.wrapping_mul(0x2545_F491_4F6C_DD1D)
    }
    pub fn below(&mut self, n: u64) -> u64 {
        if n == 0 { 0 } else { self.next() % n }
    }
    pub fn pick<'a, T>(&mut self, xs: &'a [T]) -> &'a T {
        &xs[self.below(xs.len() as u64) as usize]
    }
    pub fn chance(&mut self, num: u64, den: u64) -> bool {
        self.below(den) < num
    }
    pub fn bytes(&mut self, n: usize) -> Vec<u8> {
        (0..n).map(|_| self.next() as u8).collect()
    }
}

pub fn s(v: &Value, k: &str) -> String {
    v.get(k).and_then(|x| x.as_str()).unwrap_or_else(|| panic!("missing string field {k} in {v}")).to_string()
}
pub fn i(v: &Value, k: &str) -> i64 {
    v.get(k).and_then(|x| x.as_i64()).unwrap_or_else(|| panic!("missing int field {k} in {v}"))
}
pub fn b(v: &Value, k: &str) -> bool {
    v.get(k).and_then(|x| x.as_bool()).unwrap_or_else(|| panic!("missing bool field {k} in {v}"))
}

/// Field-wise difference of two JSON objects: names of keys whose values differ (prefix applied).
pub fn diff_fields(prefix: &str, expected: &Value, observed: &Value, out: &mut Vec<String>) {
    if let (Some(e), Some(o)) = (expected.as_object(), observed.as_object()) {
        for (k, ev) in e {
            match o.get(k) {
                Some(ov) if ov == ev => {}
                Some(ov) if ov.is_null() => {
                    let _ = ov; // not observable in this harness: skip
                }
                _ => out.push(format!("{prefix}{k}")),
            }
        }
    }
}
