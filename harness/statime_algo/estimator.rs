// crate::estimator::verif_hook (child of statime-algo/src/estimator.rs)
// Harness for spec/EstState.tla (C42, C43): replays TLC-explored walks on the REAL EstimatorState (crate-private),
// over both storages of storage.rs (StdKalmanStorage, NoAllocKalmanStorage), with model slots mapped to real
// ClockIds through several permutations (the interface does not depend on the numeric order of identifiers).
// Estimates (clock_offset, clock_frequency of every internal clock, link_delay of every link: value and
// uncertainty) are snapshotted bitwise around every operation.
// statime-algo has no serde_json: the job file is the usual JSON object but only flat string / integer fields are
// read (by hand); walks and results are line-oriented text (written / parsed by checks/statime.py).
//
// walks:   W <id> <seed>
//          <action tokens> ; <res> ; <sameC> ; <sameL> ; <int> ; <ext> ; <links>      (csv, "-" = empty, links a-b)
//          E
// results: R <id> <steps_run> <variants_run>
//          F <id> <step> <variant> <fields csv> <fatal|soft> | <observed>     (all of the first differing variant)
#![allow(clippy::all, dead_code)]

use super::*;
use crate::storage::{NoAllocKalmanStorage, StdKalmanStorage};
use statime_base::Direction;
use std::collections::BTreeMap;
use std::io::Write;
use std::string::{String, ToString};
use std::vec::Vec;
use std::{format, vec};

// ---------------------------------------------------------------------------------------------------------------
// small helpers (harness/common/util.rs needs serde_json)
// ---------------------------------------------------------------------------------------------------------------
fn catch<R>(f: impl FnOnce() -> R) -> Result<R, String> {
    use std::sync::Once;
    static HOOK: Once = Once::new();
    HOOK.call_once(|| {
        let default = std::panic::take_hook();
        std::panic::set_hook(std::boxed::Box::new(move |info| {
            if std::env::var("VERIF_SHOW_PANICS").is_ok() {
                default(info);
            }
        }));
    });
    match std::panic::catch_unwind(std::panic::AssertUnwindSafe(f)) {
        Ok(r) => Ok(r),
        Err(e) => Err(if let Some(s) = e.downcast_ref::<&str>() {
            (*s).to_string()
        } else if let Some(s) = e.downcast_ref::<String>() {
            s.clone()
        } else {
            "panic".to_string()
        }),
    }
}

struct Rng(u64);
impl Rng {
    fn next(&mut self) -> u64 {
        self.0 = self.0.wrapping_add(0x9E37_79B9_7F4A_7C15);
        let mut z = self.0;
        z = (z ^ (z >> 30)).wrapping_mul(0xBF58_476D_1CE4_E5B9);
        z = (z ^ (z >> 27)).wrapping_mul(0x94D0_49BB_1331_11EB);
        z ^ (z >> 31)
    }
    fn below(&mut self, n: u64) -> u64 { self.next() % n }
    /// uniform in [-1, 1)
    fn unit(&mut self) -> f64 { (self.next() >> 11) as f64 / (1u64 << 52) as f64 - 1.0 }
}

fn job_str(job: &str, key: &str) -> String {
    let pat = format!("\"{key}\"");
    let i = job.find(&pat).unwrap_or_else(|| panic!("job has no {key}")) + pat.len();
    let rest = job[i..].trim_start().strip_prefix(':').expect("job syntax").trim_start();
    if let Some(r) = rest.strip_prefix('"') {
        r[..r.find('"').expect("job string")].to_string()
    } else {
        rest.chars().take_while(|c| c.is_ascii_digit() || *c == '-').collect()
    }
}

fn csv_usize(s: &str) -> Vec<usize> {
    if s == "-" { vec![] } else { s.split(',').map(|x| x.parse().expect("slot")).collect() }
}
fn csv_links(s: &str) -> Vec<(usize, usize)> {
    if s == "-" { return vec![]; }
    s.split(',').map(|x| { let (a, b) = x.split_once('-').expect("link"); (a.parse().unwrap(), b.parse().unwrap()) }).collect()
}

// ---------------------------------------------------------------------------------------------------------------
#[derive(Debug, Clone)]
enum Act {
    AddClock(usize), AddExt(usize), RemoveClock(usize), RemoveExt(usize),
    AddLink(usize, usize), RemoveLink(usize, usize),
    Measure { a: usize, b: usize, fwd: bool, delay_link: bool },
    Progress, Back, Step(usize), Freq(usize),
}

#[derive(Debug, Clone)]
struct Stp { act: Act, res: String, same_c: Vec<usize>, same_l: Vec<(usize, usize)>, int: Vec<usize>, ext: Vec<usize>, links: Vec<(usize, usize)> }

fn parse_step(line: &str) -> Stp {
    let parts: Vec<&str> = line.split(';').map(|x| x.trim()).collect();
    assert_eq!(parts.len(), 7, "bad step line {line}");
    let t: Vec<&str> = parts[0].split_whitespace().collect();
    let n = |i: usize| -> usize { t[i].parse().expect("number") };
    let act = match t[0] {
        "AddClock" => Act::AddClock(n(1)), "AddExt" => Act::AddExt(n(1)),
        "RemoveClock" => Act::RemoveClock(n(1)), "RemoveExt" => Act::RemoveExt(n(1)),
        "AddLink" => Act::AddLink(n(1), n(2)), "RemoveLink" => Act::RemoveLink(n(1), n(2)),
        "Measure" => Act::Measure { a: n(1), b: n(2), fwd: t[3] == "F", delay_link: t[4] == "1" },
        "Progress" => Act::Progress, "Back" => Act::Back, "Step" => Act::Step(n(1)), "Freq" => Act::Freq(n(1)),
        x => panic!("unknown action {x}"),
    };
    Stp { act, res: parts[1].to_string(), same_c: csv_usize(parts[2]), same_l: csv_links(parts[3]),
          int: csv_usize(parts[4]), ext: csv_usize(parts[5]), links: csv_links(parts[6]) }
}

fn err_name(e: &AlgoError) -> &'static str {
    match e {
        AlgoError::UnknownClock(_) => "UnknownClock",
        AlgoError::ClockAlreadyExists(_) => "ClockAlreadyExists",
        AlgoError::UnknownLink(_) => "UnknownLink",
        AlgoError::LinkAlreadyExists(_) => "LinkAlreadyExists",
        AlgoError::LinkNotExternal(_) => "LinkNotExternal",
        AlgoError::BothClocksExternal(..) => "BothClocksExternal",
        AlgoError::ClocksEqual(_) => "ClocksEqual",
        AlgoError::NonMonotonicTimeProgression { .. } => "NonMonotonicTimeProgression",
        AlgoError::CannotRemoveSystemClock(_) => "CannotRemoveSystemClock",
        AlgoError::MatrixError(_) => "MatrixError",
        AlgoError::ClockError(_) => "ClockError",
        AlgoError::NotEnoughMeasurements(_) => "NotEnoughMeasurements",
        AlgoError::ClockInUse(..) => "ClockInUse",
    }
}

#[derive(Debug, Clone, PartialEq, Default)]
struct Snap {
    int: Vec<usize>,
    ext: Vec<usize>,
    known_bad: Vec<usize>,                      // is_known_clock differs from is_internal || is_external
    clocks: BTreeMap<usize, [u64; 4]>,          // offset value, offset uncertainty, frequency value, frequency uncertainty
    links: BTreeMap<(usize, usize), [u64; 2]>,  // delay value, delay uncertainty
    panic: Option<String>,
}

struct World<S: KalmanStorageBase> {
    state: EstimatorState<S>,
    ids: Vec<ClockId>,                          // slot (1-based) -> identifier; [0] unused
    links: BTreeMap<(usize, usize), (LinkId, bool)>, // one LinkId per pair; bool: first_clock is the pair's smaller slot
    rng: Rng,
    adds: u64,
}

impl<S: KalmanStorageBase> World<S> {
    fn snapshot(&self) -> Snap {
        let mut s = Snap::default();
        for x in 1..self.ids.len() {
            let id = self.ids[x];
            let r = catch(|| {
                let (i, e, k) = (self.state.is_internal_clock(id), self.state.is_external_clock(id), self.state.is_known_clock(id));
                (i, e, k, self.state.clock_offset(id), self.state.clock_frequency(id))
            });
            match r {
                Err(p) => { s.panic = Some(format!("query of clock {x}: {p}")); }
                Ok((i, e, k, o, f)) => {
                    if i { s.int.push(x); }
                    if e { s.ext.push(x); }
                    if k != (i || e) { s.known_bad.push(x); }
                    match (o, f) {
                        (Ok(o), Ok(f)) => { s.clocks.insert(x, [o.value.to_bits(), o.uncertainty.to_bits(), f.value.to_bits(), f.uncertainty.to_bits()]); }
                        (Err(_), Err(_)) => {}
                        _ => { s.known_bad.push(x); }
                    }
                }
            }
        }
        for (k, (id, _)) in &self.links {
            match catch(|| self.state.link_delay(*id)) {
                Err(p) => { s.panic = Some(format!("query of link {k:?}: {p}")); }
                Ok(Ok(d)) => { s.links.insert(*k, [d.value.to_bits(), d.uncertainty.to_bits()]); }
                Ok(Err(_)) => {}
            }
        }
        s
    }
}

fn close(got: f64, want: f64) -> bool { (got - want).abs() <= 1e-9 * want.abs().max(got.abs()) + 1e-300 }

/// Replays one walk on a fresh estimator.  Returns the differing steps: (index, fields, observed, fatal).  A step whose
/// only difference is the reported membership of identifiers (out.members) after an operation that behaved as specified
/// does not end the walk (the estimator has still been given exactly the model's operations); any other difference does.
fn run_variant<S: KalmanStorageBase>(steps: &[Stp], nslots: usize, perm: &[usize], flip: bool, seed: u64) -> Vec<(usize, Vec<String>, String, bool)> {
    let mut fails = vec![];
    // identifiers are allocated increasing; slot x gets the perm[x-1]-th of them
    let fresh: Vec<ClockId> = (0..nslots).map(|_| ClockId::new()).collect();
    let mut ids = vec![fresh[0]];
    for x in 1..=nslots { ids.push(fresh[perm[x - 1]]); }
    let mut links = BTreeMap::new();
    for a in 1..=nslots { for b in (a + 1)..=nslots {
        let first_is_a = !flip ^ ((a + b) % 2 == 0);
        let id = if first_is_a { LinkId::new(ids[a], ids[b]) } else { LinkId::new(ids[b], ids[a]) }.expect("distinct clocks");
        links.insert((a, b), (id, first_is_a));
    } }
    let t0 = Timestamp::UNIX_EPOCH + Duration::from_f64_seconds(1000.0);
    let mut w: World<S> = World { state: EstimatorState::empty(t0), ids, links, rng: Rng(seed), adds: 0 };

    let mut members_differ = false;
    for (i, st) in steps.iter().enumerate() {
        let before = w.snapshot();
        let mut fields: Vec<String> = vec![];
        let mut note = String::new();
        // what the harness passes in (for the numeric relations)
        let mut init: Option<(usize, [f64; 4])> = None;
        let mut delta: Option<(usize, bool, f64)> = None;
        let state = w.state.clone();
        let r: Result<Result<EstimatorState<S>, AlgoError>, String> = match st.act.clone() {
            Act::AddClock(x) => {
                w.adds += 1;
                let g = w.adds as f64;
                let v = [0.01 * x as f64 + 0.001 * g, 1e-3 * (1.0 + x as f64) + 1e-5 * g, 1e-6 * x as f64 - 1e-7 * g, 2e-6 * (1.0 + (w.adds % 3) as f64) + 1e-8 * x as f64];
                init = Some((x, v));
                let idx = w.ids[x];
                catch(move || state.add_clock(idx, (v[0], v[1]).into(), (v[2], v[3]).into(), 1e-8 * x as f64))
            }
            Act::AddExt(x) => { let idx = w.ids[x]; catch(move || state.add_external_clock(idx)) }
            Act::RemoveClock(x) => { let idx = w.ids[x]; catch(move || state.remove_clock(idx)) }
            Act::RemoveExt(x) => { let idx = w.ids[x]; catch(move || state.remove_external_clock(idx)) }
            Act::AddLink(a, b) => {
                let l = w.links[&(a, b)].0;
                let d = 1e-4 * (a + 2 * b) as f64 + 1e-6 * w.rng.below(50) as f64;
                catch(move || state.add_link(l, (d, 0.1 * d).into(), 0.01))
            }
            Act::RemoveLink(a, b) => { let l = w.links[&(a, b)].0; catch(move || state.remove_link(l)) }
            Act::Measure { a, b, fwd, delay_link } => {
                let (l, first_is_a) = w.links[&(a, b)];
                let dir = if fwd == first_is_a { Direction::Forward } else { Direction::Reverse };
                let value = 0.05 * w.rng.unit();
                let unc = [1e-5, 1e-4, 1e-3][w.rng.below(3) as usize];
                catch(move || state.measurement(DirectedLinkId::new(l, dir), (value, unc).into(), delay_link))
            }
            Act::Progress => {
                let dt = [0.125, 1.0, 16.0][w.rng.below(3) as usize];
                let t = state.current_time() + Duration::from_f64_seconds(dt);
                catch(move || state.progress_time(t))
            }
            Act::Back => {
                let t = state.current_time() - Duration::from_f64_seconds([1e-9, 1.0][w.rng.below(2) as usize]);
                catch(move || state.progress_time(t))
            }
            Act::Step(x) => {
                let d = 0.1 * w.rng.unit();
                delta = Some((x, true, d));
                let idx = w.ids[x];
                catch(move || state.absorb_offset_change(idx, d))
            }
            Act::Freq(x) => {
                let d = 1e-5 * w.rng.unit();
                delta = Some((x, false, d));
                let idx = w.ids[x];
                catch(move || state.absorb_frequency_steer(idx, d))
            }
        };
        let res = match r {
            Ok(Ok(s)) => { w.state = s; "ok".to_string() }
            Ok(Err(e)) => err_name(&e).to_string(),
            Err(p) => { fields.push("panic".into()); note = format!("panic: {p}"); "panic".to_string() }
        };
        if res != "panic" && res != st.res {
            fields.push(if res == "ok" || st.res == "ok" { "out.res".into() } else { "out.errkind".into() });
        }
        let after = w.snapshot();
        if let Some(p) = &after.panic { fields.push("panic".into()); note = format!("panic: {p}"); }
        let exp_links: Vec<(usize, usize)> = { let mut l = st.links.clone(); l.sort(); l };
        let got_links: Vec<(usize, usize)> = after.links.keys().copied().collect();
        // out.live: a failing operation altered which identifiers the estimator reports as internal / external / linked;
        // out.members: the reported membership differs from the specification's (reported when it starts to differ)
        let before_links: Vec<(usize, usize)> = before.links.keys().copied().collect();
        if st.res != "ok" && (after.int != before.int || after.ext != before.ext || got_links != before_links) { fields.push("out.live".into()); }
        let mismatch = after.int != st.int || after.ext != st.ext || !after.known_bad.is_empty() || got_links != exp_links;
        if mismatch && !members_differ { fields.push("out.members".into()); }
        members_differ = mismatch;
        let bad_c: Vec<usize> = st.same_c.iter().copied().filter(|x| !before.clocks.contains_key(x) || before.clocks.get(x) != after.clocks.get(x)).collect();
        let bad_l: Vec<(usize, usize)> = st.same_l.iter().copied().filter(|x| !before.links.contains_key(x) || before.links.get(x) != after.links.get(x)).collect();
        if !bad_c.is_empty() || !bad_l.is_empty() { fields.push("out.same".into()); }
        if res == "ok" {
            if let Some((x, v)) = init {
                match after.clocks.get(&x) {
                    Some(c) => {
                        let g: Vec<f64> = c.iter().map(|b| f64::from_bits(*b)).collect();
                        if !(g[0] == v[0] && close(g[1], v[1]) && g[2] == v[2] && close(g[3], v[3])) {
                            fields.push("out.init".into());
                            note = format!("added with offset {:e} +- {:e}, frequency {:e} +- {:e}; queries report offset {:e} +- {:e}, frequency {:e} +- {:e}", v[0], v[1], v[2], v[3], g[0], g[1], g[2], g[3]);
                        }
                    }
                    None => { fields.push("out.init".into()); note = "added clock does not answer".into(); }
                }
            }
            if let Some((x, is_step, d)) = delta {
                match (before.clocks.get(&x), after.clocks.get(&x)) {
                    (Some(b), Some(a)) => {
                        let k = if is_step { 0 } else { 2 };
                        let (v0, v1) = (f64::from_bits(b[k]), f64::from_bits(a[k]));
                        if !((v1 - (v0 + d)).abs() <= 1e-9 * v0.abs().max(d.abs()) + 1e-300) {
                            fields.push("out.delta".into());
                            note = format!("{} of clock {x}: before {v0:e}, applied {d:e}, after {v1:e}", if is_step { "offset" } else { "frequency" });
                        }
                        // everything else (outside C43's statement): the other three numbers of this clock, all other clocks, all links
                        let mut rest_same = (0..4).all(|j| j == k || a[j] == b[j]);
                        rest_same &= before.clocks.iter().all(|(y, v)| *y == x || after.clocks.get(y) == Some(v));
                        rest_same &= before.links == after.links;
                        if !rest_same { fields.push("out.absorb_rest".into()); }
                    }
                    _ => { fields.push("out.delta".into()); note = "steered clock does not answer".into(); }
                }
            }
        }
        if !fields.is_empty() {
            fields.sort();
            fields.dedup();
            let show = |m: &BTreeMap<usize, [u64; 4]>| -> String {
                m.iter().map(|(x, c)| format!("{x}:[{:e}+-{:e},{:e}+-{:e}]", f64::from_bits(c[0]), f64::from_bits(c[1]), f64::from_bits(c[2]), f64::from_bits(c[3]))).collect::<Vec<_>>().join(" ")
            };
            let obs = format!("res={res} int={:?} ext={:?} links={:?} known_inconsistent={:?} changed_clocks_that_must_not={:?} changed_links_that_must_not={:?} before={{{}}} after={{{}}} {note}",
                              after.int, after.ext, got_links, after.known_bad, bad_c, bad_l, show(&before.clocks), show(&after.clocks));
            let fatal = !(fields.len() == 1 && fields[0] == "out.members" && res == st.res);
            fails.push((i, fields, obs.replace('\n', " "), fatal));
            if fatal { return fails; }
        }
    }
    fails
}

fn permutations(n: usize) -> Vec<Vec<usize>> {
    fn rec(cur: &mut Vec<usize>, used: &mut Vec<bool>, n: usize, out: &mut Vec<Vec<usize>>) {
        if cur.len() == n { out.push(cur.clone()); return; }
        for i in 0..n { if !used[i] { used[i] = true; cur.push(i); rec(cur, used, n, out); cur.pop(); used[i] = false; } }
    }
    let mut out = vec![];
    rec(&mut vec![], &mut vec![false; n], n, &mut out);
    out
}

#[test]
fn verif_estimator_state() {
    let path = std::env::var("VERIF_JOB").expect("VERIF_JOB not set");
    let job = std::fs::read_to_string(&path).expect("cannot read job file");
    assert_eq!(job_str(&job, "mode"), "replay");
    let nslots: usize = job_str(&job, "slots").parse().unwrap();
    let nperm: usize = job_str(&job, "perms").parse().unwrap();     // 0 = all permutations
    let seed: u64 = job_str(&job, "seed").parse().unwrap();
    let text = std::fs::read_to_string(job_str(&job, "input")).expect("cannot read walks");
    let mut out = std::io::BufWriter::new(std::fs::File::create(job_str(&job, "output")).expect("cannot create output"));

    let all = permutations(nslots);
    let mut cur: Option<(u64, u64, Vec<Stp>)> = None;
    let mut total_steps = 0u64;
    for line in text.lines() {
        let line = line.trim();
        if line.is_empty() { continue; }
        if let Some(h) = line.strip_prefix("W ") {
            let t: Vec<&str> = h.split_whitespace().collect();
            cur = Some((t[0].parse().unwrap(), t[1].parse().unwrap(), vec![]));
        } else if line == "E" {
            let (id, wseed, steps) = cur.take().expect("E without W");
            // variants: ascending and descending identifiers always, then permutations drawn by the walk's seed
            // (or all of them); storage and link orientation alternate
            let mut perms: Vec<Vec<usize>> = vec![all[0].clone(), all[all.len() - 1].clone()];
            if nperm == 0 { perms = all.clone(); } else {
                let mut r = Rng(wseed ^ seed.wrapping_mul(0x2545_F491_4F6C_DD1D));
                while perms.len() < nperm.min(all.len()) { let p = all[r.below(all.len() as u64) as usize].clone(); if !perms.contains(&p) { perms.push(p); } }
            }
            let mut fail = None;
            let mut nvar = 0;
            'v: for (k, p) in perms.iter().enumerate() {
                for storage in 0..2 {
                    if nperm != 0 && storage != k % 2 { continue; }
                    let flip = (k / 2 + storage) % 2 == 1;
                    let vseed = wseed ^ (k as u64) << 32 ^ seed;
                    let r = if storage == 0 { run_variant::<StdKalmanStorage<()>>(&steps, nslots, p, flip, vseed) }
                            else { run_variant::<NoAllocKalmanStorage<(), 256>>(&steps, nslots, p, flip, vseed) };
                    nvar += 1;
                    total_steps += steps.len() as u64;
                    if !r.is_empty() {
                        let variant = format!("ids={:?},storage={},link_first_is_smaller_slot={}", p.iter().map(|x| x + 1).collect::<Vec<_>>(), if storage == 0 { "std" } else { "noalloc" }, !flip).replace(' ', "");
                        fail = Some((variant, r));
                        break 'v;
                    }
                }
            }
            match &fail {
                None => writeln!(out, "R {id} {} {nvar}", steps.len()).unwrap(),
                Some((variant, fs)) => {
                    let last = fs.last().unwrap();
                    writeln!(out, "R {id} {} {nvar}", if last.3 { last.0 + 1 } else { steps.len() }).unwrap();
                    for (i, fields, obs, fatal) in fs {
                        writeln!(out, "F {id} {i} {variant} {} {} | {obs}", fields.join(","), if *fatal { "fatal" } else { "soft" }).unwrap();
                    }
                }
            }
        } else {
            cur.as_mut().expect("step outside walk").2.push(parse_step(line));
        }
    }
    writeln!(out, "S steps_replayed {total_steps}").unwrap();
    out.flush().unwrap();
}
