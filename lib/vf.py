"""Core of the /verif machinery: TLC runner, harness builder/runner, model-graph tours,
evidence writer, known-findings handling.  Everything is driven from bin/check.

Exit-code contract (bin/check): 0 held / only KNOWN-FINDINGs; 1 VIOLATION (with replay file);
2 tool error (TLC/cargo failure, timeout, vacuity) -- never accompanied by a VIOLATION line.
"""
import json, os, re, subprocess, sys, time, hashlib, random, shutil, collections

ROOT = os.path.dirname(os.path.dirname(os.path.abspath(__file__)))
REPO = os.environ.get("VERIF_REPO", "/repo")
SPEC = os.path.join(ROOT, "spec")
WORK = os.path.join(ROOT, "work")
TARGET = os.path.join(ROOT, "target")
EVID = os.path.join(ROOT, "evidence")
REPLAYS = os.path.join(ROOT, "replays")
GUARD = "pendulum_project_ntpd_rs_verif"
TLA_CP = "/opt/veriftools/tla/tla2tools.jar:/opt/veriftools/tla/CommunityModules-deps.jar"


class ToolError(Exception):
    pass


def log(*a):
    print("[verif]", *a, file=sys.stderr, flush=True)


def workdir(name):
    d = os.path.join(WORK, name)
    os.makedirs(d, exist_ok=True)
    return d


# --------------------------------------------------------------------------------------------
# TLC
# --------------------------------------------------------------------------------------------
class TlcResult:
    def __init__(self):
        self.stdout = ""
        self.generated = 0
        self.distinct = 0
        self.depth = 0
        self.ok = False           # "No error has been found"
        self.violated = []        # names of violated invariants / properties
        self.coverage = {}        # action name -> (distinct, generated)
        self.lines = {}           # tag -> [decoded json]
        self.wall = 0.0
        self.error_trace = ""


_PRINT_RE = re.compile(r'^<<"([A-Z]+)", "(.*)">>$')


def _unescape(s):
    # TLC prints TLA+ strings with \" and \\ escapes
    return s.replace('\\"', '"').replace("\\\\", "\\")


def run_tlc(module, cfg, *, workers=8, sim=None, seed=None, timeout=600, env=None, tags=("EDGE",),
            cwd=SPEC, depth_first=False, xmx="8g", coverage=True, line_sink=None, name=None):
    """Runs TLC on spec/<module>.tla with spec/<cfg>.  sim=(num, depth) switches to simulation.
    Printed tuples <<"TAG", "<json>">> are collected in result.lines[TAG] (or streamed to
    line_sink(tag, obj))."""
    name = name or (module + "_" + os.path.splitext(os.path.basename(cfg))[0])
    md = os.path.join(WORK, "tlc", "%s_%d_%d" % (name, os.getpid(), int(time.time() * 1000) % 100000))
    os.makedirs(md, exist_ok=True)
    jopts = ["-XX:+UseParallelGC", "-Xmx" + xmx, "-Xss1g"]
    if depth_first:
        jopts.append("-Dtlc2.tool.queue.IStateQueue=StateDeque")
    cmd = ["java"] + jopts + ["-cp", TLA_CP, "tlc2.TLC", "-workers", str(workers), "-metadir", md,
                              "-cleanup", "-noGenerateSpecTE", "-config", cfg]
    if coverage and not sim:
        cmd += ["-coverage", "1"]
    if sim:
        cmd += ["-simulate", "num=%d" % sim[0], "-depth", str(sim[1])]
        if seed is not None:
            cmd += ["-seed", str(seed)]
    cmd.append(module + ".tla")
    e = dict(os.environ)
    e.pop("JAVA_TOOL_OPTIONS", None)
    if env:
        e.update({k: str(v) for k, v in env.items()})
    t0 = time.time()
    res = TlcResult()
    try:
        p = subprocess.Popen(cmd, cwd=cwd, env=e, stdout=subprocess.PIPE, stderr=subprocess.STDOUT, text=True)
    except OSError as ex:
        raise ToolError("cannot start TLC: %s" % ex)
    out = []
    deadline = t0 + timeout
    import threading
    timer = threading.Timer(timeout, p.kill)
    timer.start()
    try:
        for line in p.stdout:
            line = line.rstrip("\n")
            m = _PRINT_RE.match(line) if line.startswith("<<\"") else None
            if m and (m.group(1) in tags):
                try:
                    obj = json.loads(_unescape(m.group(2)))
                except Exception as ex:
                    raise ToolError("bad JSON from TLC: %s: %s" % (ex, line[:300]))
                if line_sink:
                    line_sink(m.group(1), obj)
                else:
                    res.lines.setdefault(m.group(1), []).append(obj)
            else:
                out.append(line)
        p.wait()
    finally:
        timer.cancel()
        shutil.rmtree(md, ignore_errors=True)
    res.wall = time.time() - t0
    res.stdout = "\n".join(out)
    if time.time() >= deadline and p.returncode != 0:
        raise ToolError("TLC timeout after %ds on %s/%s" % (timeout, module, cfg))
    _parse_tlc(res)
    res.returncode = p.returncode
    if not res.ok and not res.violated:
        # parse error, semantic error, evaluation error...
        tail = "\n".join(out[-40:])
        raise ToolError("TLC failed on %s/%s (rc=%s):\n%s" % (module, cfg, p.returncode, tail))
    return res


def _parse_tlc(res):
    s = res.stdout
    m = re.search(r"(\d+) states generated, (\d+) distinct states found", s)
    if m:
        res.generated, res.distinct = int(m.group(1)), int(m.group(2))
    m = re.search(r"The depth of the complete state graph search is (\d+)", s)
    if m:
        res.depth = int(m.group(1))
    res.ok = ("No error has been found" in s) or ("Finished computing initial states" in s and "Error:" not in s and "states generated" in s)
    for m in re.finditer(r"Invariant (\w+) is violated", s):
        res.violated.append(m.group(1))
    for m in re.finditer(r"Action property (\w+) is violated", s):
        res.violated.append(m.group(1))
    for m in re.finditer(r"Temporal properties were violated", s):
        res.violated.append("TEMPORAL")
    if "Error: " in s and not res.violated and "is violated" in s:
        res.violated.append("UNKNOWN")
    if res.violated:
        res.ok = False
        i = s.find("Error:")
        res.error_trace = s[i:i + 6000]
    for m in re.finditer(r"^<(\w+) line \d+, col \d+ to line \d+, col \d+ of module (\w+)(?: \([\d ]+\))?>: (\d+):(\d+)", s, re.M):
        nm = m.group(1)
        d, g = int(m.group(3)), int(m.group(4))
        od, og = res.coverage.get(nm, (0, 0))
        res.coverage[nm] = (od + d, og + g)


def require_coverage(res, actions, what):
    """Vacuity guard: every named action must have produced at least one successor."""
    missing = [a for a in actions if res.coverage.get(a, (0, 0))[1] == 0]
    if missing:
        raise ToolError("vacuous model run (%s): actions never taken: %s" % (what, ", ".join(missing)))


# --------------------------------------------------------------------------------------------
# Harness (Rust) build & run
# --------------------------------------------------------------------------------------------
_BUILD_CACHE = {}


def cargo_env():
    e = dict(os.environ)
    e["CARGO_TARGET_DIR"] = TARGET
    e["CARGO_NET_OFFLINE"] = "true"
    e["RUSTFLAGS"] = "--cfg %s --check-cfg cfg(%s)" % (GUARD, GUARD)
    e.pop("RUST_LOG", None)
    return e


def build_harness(which="repo"):
    """Builds the test binaries of ntp-proto and ntpd (which='repo') or of statime-algo (which='algo': hook in
    statime-algo/src/estimator.rs, crate name statime_algo) from /repo's current working tree with the guard
    cfg on, or the stand-alone statime harness (which='ext').
    Returns {crate_name: path_to_test_binary}."""
    if which in _BUILD_CACHE:
        return _BUILD_CACHE[which]
    t0 = time.time()
    if which == "algo":
        cmd = ["cargo", "test", "--offline", "--manifest-path", os.path.join(REPO, "Cargo.toml"),
               "-p", "statime-algo", "--lib", "--no-run", "--message-format=json"]
        env = cargo_env()
    elif which == "repo":
        cmd = ["cargo", "test", "--offline", "--manifest-path", os.path.join(REPO, "Cargo.toml"),
               "-p", "ntp-proto", "-p", "ntpd", "--lib", "--no-run", "--message-format=json",
               "--features", "ntp-proto/__internal-fuzz,ntp-proto/__internal-test"]
        env = cargo_env()
    else:
        ext = os.path.join(ROOT, "harness", "ext")
        lock_src = os.path.join(REPO, "Cargo.lock")
        # path deps are taken from /repo's working tree; lock file seeded from the repository's own
        if not os.path.exists(os.path.join(ext, "Cargo.lock")):
            shutil.copy(lock_src, os.path.join(ext, "Cargo.lock"))
        cmd = ["cargo", "test", "--offline", "--manifest-path", os.path.join(ext, "Cargo.toml"),
               "--no-run", "--message-format=json"]
        env = dict(os.environ)
        env["CARGO_TARGET_DIR"] = os.path.join(TARGET, "ext")
        env["CARGO_NET_OFFLINE"] = "true"
    p = subprocess.run(cmd, env=env, stdout=subprocess.PIPE, stderr=subprocess.PIPE, text=True)
    if p.returncode != 0:
        raise ToolError("harness build failed (%s):\n%s" % (which, p.stderr[-6000:]))
    bins = {}
    for line in p.stdout.splitlines():
        if not line.startswith("{"):
            continue
        try:
            o = json.loads(line)
        except ValueError:
            continue
        if o.get("reason") == "compiler-artifact" and o.get("executable") and o.get("profile", {}).get("test"):
            bins[o["target"]["name"].replace("-", "_")] = o["executable"]
    if not bins:
        raise ToolError("harness build produced no test binaries")
    log("harness build (%s) %.1fs" % (which, time.time() - t0))
    _BUILD_CACHE[which] = bins
    return bins


def run_harness(crate, test, job, *, timeout=900, which="repo", env_extra=None):
    """Runs one #[test] entry of a harness binary with VERIF_JOB pointing to a job file.
    The job names its own input and output files; returns (rc, combined output)."""
    bins = build_harness(which)
    if crate not in bins:
        raise ToolError("no test binary for crate %s (have %s)" % (crate, list(bins)))
    jd = workdir("jobs")
    jf = os.path.join(jd, "job_%d_%s.json" % (os.getpid(), hashlib.sha1(json.dumps(job, sort_keys=True).encode()).hexdigest()[:10]))
    with open(jf, "w") as f:
        json.dump(job, f)
    e = dict(os.environ)
    e["VERIF_JOB"] = jf
    e["RUST_BACKTRACE"] = "0"
    e.pop("RUST_LOG", None)
    if env_extra:
        e.update(env_extra)
    cmd = [bins[crate], test, "--exact", "--nocapture", "--test-threads", "1"]
    try:
        p = subprocess.run(cmd, env=e, stdout=subprocess.PIPE, stderr=subprocess.STDOUT, text=True, timeout=timeout,
                           cwd=workdir("run"))
    except subprocess.TimeoutExpired:
        raise ToolError("harness %s::%s timed out after %ds" % (crate, test, timeout))
    finally:
        try:
            os.unlink(jf)
        except OSError:
            pass
    if p.returncode != 0 or "test result: ok. 1 passed" not in p.stdout:
        raise ToolError("harness %s::%s failed rc=%d:\n%s" % (crate, test, p.returncode, p.stdout[-5000:]))
    return p.stdout


def read_ndjson(path):
    out = []
    with open(path) as f:
        for line in f:
            line = line.strip()
            if line:
                out.append(json.loads(line))
    return out


def write_ndjson(path, rows):
    with open(path, "w") as f:
        for r in rows:
            f.write(json.dumps(r, separators=(",", ":"), sort_keys=True))
            f.write("\n")


# --------------------------------------------------------------------------------------------
# Model graph -> transition tours (spec -> implementation replay)
# --------------------------------------------------------------------------------------------
def key(o):
    return json.dumps(o, sort_keys=True, separators=(",", ":"))


class Graph:
    """State graph reconstructed from the EDGE lines TLC printed: one line per explored transition
    {pre, act, post, out, cones}.  Deterministic specs: (pre, act) identifies the edge."""

    def __init__(self):
        self.ids = {}
        self.states = []
        self.out = collections.defaultdict(list)   # sid -> [edge index]
        self.edges = []                            # (src, dst, record)
        self.init = None

    def sid(self, st):
        k = key(st)
        i = self.ids.get(k)
        if i is None:
            i = len(self.states)
            self.ids[k] = i
            self.states.append(st)
        return i

    def add(self, rec):
        a = self.sid(rec["pre"])
        b = self.sid(rec["post"])
        self.out[a].append(len(self.edges))
        self.edges.append((a, b, rec))

    def tours(self, init_state, max_len=80, rng=None, edge_filter=None):
        """Greedy transition tour: walks from the initial state that together cover every edge
        (subject to edge_filter) at least once.  Returns list of walks (lists of edge indices)."""
        rng = rng or random.Random(0)
        start = self.ids.get(key(init_state))
        if start is None:
            raise ToolError("initial state not in the graph")
        want = set(i for i, e in enumerate(self.edges) if (edge_filter is None or edge_filter(e[2])))
        uncovered = set(want)
        unc_out = collections.defaultdict(set)
        for i in uncovered:
            unc_out[self.edges[i][0]].add(i)
        # BFS parents from start for shortest prefixes
        walks = []
        # precompute reverse BFS lazily: nearest state with uncovered out-edges, by forward BFS
        def path_to_uncovered(src):
            if unc_out.get(src):
                return []
            seen = {src: None}
            q = collections.deque([src])
            while q:
                u = q.popleft()
                for ei in self.out.get(u, ()):
                    v = self.edges[ei][1]
                    if v in seen:
                        continue
                    seen[v] = (u, ei)
                    if unc_out.get(v):
                        path = []
                        w = v
                        while seen[w] is not None:
                            pu, pe = seen[w]
                            path.append(pe)
                            w = pu
                        path.reverse()
                        return path
                    q.append(v)
            return None
        while uncovered:
            cur = start
            walk = []
            progress = False
            while len(walk) < max_len:
                cand = unc_out.get(cur)
                if cand:
                    ei = min(cand) if rng is None else rng.choice(sorted(cand))
                    cand.discard(ei)
                    uncovered.discard(ei)
                    walk.append(ei)
                    cur = self.edges[ei][1]
                    progress = True
                    continue
                p = path_to_uncovered(cur)
                if p is None or len(walk) + len(p) + 1 > max_len:
                    if p is None and cur == start and not progress:
                        # unreachable remainder (should not happen: TLC only prints reachable edges)
                        uncovered.clear()
                    break
                walk.extend(p)
                cur = self.edges[p[-1]][1] if p else cur
            if not progress:
                # remaining uncovered edges need a prefix longer than max_len: allow a long walk
                p = path_to_uncovered(start)
                if p is None:
                    break
                cur = self.edges[p[-1]][1] if p else start
                walk = list(p)
                cand = unc_out.get(cur)
                ei = sorted(cand)[0]
                cand.discard(ei)
                uncovered.discard(ei)
                walk.append(ei)
            walks.append(walk)
        return walks


def collect_graph(module, cfg, *, workers=8, timeout=600, env=None, name=None):
    """One TLC run that checks the configuration's invariants AND prints every explored transition
    (EDGE lines), the initial state (INIT) and the cone table (CONES).  Each edge record gets its
    cones resolved from the table via its cone key `ck`."""
    g = Graph()
    inits = []
    table = {}

    def sink(tag, obj):
        if tag == "EDGE":
            g.add(obj)
        elif tag == "INIT":
            inits.append(obj)
        elif tag == "CONES":
            table.update(obj)
    res = run_tlc(module, cfg, workers=workers, timeout=timeout, env=env, tags=("EDGE", "INIT", "CONES"), line_sink=sink,
                  coverage=False, name=name)
    if table:
        for (_, _, rec) in g.edges:
            if "cones" not in rec:
                rec["cones"] = table[rec["ck"]]
    return g, res, inits


# --------------------------------------------------------------------------------------------
# Known findings
# --------------------------------------------------------------------------------------------
def load_known():
    p = os.path.join(ROOT, "known_findings.json")
    if not os.path.exists(p):
        return []
    with open(p) as f:
        return json.load(f).get("findings", [])


def known_open(prop, signature):
    for k in load_known():
        if k.get("property") == prop and k.get("status") == "open" and k.get("signature") == signature:
            return k
    return None


# --------------------------------------------------------------------------------------------
# Verdict / evidence
# --------------------------------------------------------------------------------------------
class Outcome:
    """Accumulates what one check run covered and found."""

    def __init__(self, prop, tier, seed, level):
        self.prop, self.tier, self.seed, self.level = prop, tier, seed, level
        self.coverage = {"samples": []}
        self.assumptions = []
        self.violations = []      # (signature, detail dict)
        self.known = []
        self.notes = []
        self.divergences = []
        self.t0 = time.time()

    def add(self, k, n):
        self.coverage[k] = self.coverage.get(k, 0) + n

    def sample(self, s, cap=6):
        if len(self.coverage["samples"]) < cap:
            self.coverage["samples"].append(s)

    def violation(self, signature, detail):
        k = known_open(self.prop, signature)
        if k:
            if signature not in [s for s, _ in self.known]:
                self.known.append((signature, k.get("what", "")))
            return
        self.violations.append((signature, detail))

    def finish(self):
        os.makedirs(EVID, exist_ok=True)
        os.makedirs(REPLAYS, exist_ok=True)
        for sig, what in self.known:
            print("KNOWN-FINDING: property=%s %s [%s]" % (self.prop, what, sig))
        seen = set()
        nviol = 0
        for sig, detail in self.violations:
            if sig in seen:
                continue
            seen.add(sig)
            nviol += 1
            h = hashlib.sha1((self.prop + sig).encode()).hexdigest()[:10]
            path = os.path.join(REPLAYS, "%s-%s.json" % (self.prop, h))
            with open(path, "w") as f:
                json.dump({"property": self.prop, "signature": sig, "detail": detail}, f, indent=1, sort_keys=True)
            if nviol <= 20:
                print("VIOLATION property=%s replay=%s" % (self.prop, path))
                print("  signature: %s" % sig)
        if self.divergences:
            dd = workdir("divergences")
            with open(os.path.join(dd, self.prop + ".json"), "w") as f:
                json.dump(self.divergences[:200], f, indent=1, sort_keys=True)
        cov = dict(self.coverage)
        if not cov.get("samples"):
            cov["samples"] = ["(no sample recorded)"]
        ev = {
            "property_id": self.prop, "tier": self.tier, "seed": self.seed, "level": self.level,
            "coverage": cov, "assumptions": self.assumptions, "wall_s": round(time.time() - self.t0, 2),
            "violations": nviol, "known_findings": [s for s, _ in self.known], "notes": self.notes[:50],
        }
        with open(os.path.join(EVID, self.prop + ".json"), "w") as f:
            json.dump(ev, f, indent=1, sort_keys=True)
        for n in self.notes[:10]:
            log("note:", n)
        log("%s %s: %s in %.1fs" % (self.prop, self.tier, "VIOLATED" if nviol else "held", time.time() - self.t0))
        return 1 if nviol else 0
