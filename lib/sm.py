"""Generic pipeline for modules specified as a deterministic state machine  st' = Post(st, a),
observable output Out(st, a), and per-property cones Cones(st, a):

  (M) TLC checks the declarative property invariants on the bounded model MC_<X>/<cfg>;
  (G) TLC prints every explored transition; a transition tour is replayed on the real code by the
      Rust harness, which compares state and output after every step with the specification's;
  (T) the harness records seeded random sessions; TLC re-executes the specification along each
      trace (Trace_<X>) and prints every disagreement.

A disagreement is attributed to the properties whose cone (computed by the specification for that
very step) contains a differing observable.  Disagreements outside the checked property's cone are
reported as notes only.
"""
import json, os, random, time, hashlib
import vf


def sha_file(p):
    h = hashlib.sha1()
    with open(p, "rb") as f:
        for chunk in iter(lambda: f.read(1 << 20), b""):
            h.update(chunk)
    return h.hexdigest()


class SM:
    module = None          # TLA+ module with Post/Out/Cones
    mc_module = None       # MC_<module>
    trace_module = None    # Trace_<module> (optional)
    crate = "ntp_proto"
    test = None            # harness #[test] path
    which = "repo"
    act_actions = ()       # TLC action names that must be covered in (M)

    # ---- to be provided by subclasses -------------------------------------------------------
    def configs(self, prop, tier):
        """list of cfg names (MC_<module>_<name>.cfg / Gen_<module>_<name>.cfg)"""
        raise NotImplementedError

    def harness_cfg(self, cfgname, init_state):
        """constants handed to the harness for this configuration"""
        raise NotImplementedError

    def act_sig(self, act):
        return json.dumps(act, sort_keys=True)[:200]

    def record_jobs(self, prop, tier, seed):
        """list of (name, job dict without output) for trace recording; [] to skip (T)"""
        return []

    # ---- (M) + (G) ---------------------------------------------------------------------------
    def model_and_replay(self, out, prop, tier, seed, cfgname, max_len=60):
        wd = vf.workdir("%s_%s" % (self.module, cfgname))
        g, mc, inits = vf.collect_graph(self.mc_module, "Gen_%s_%s.cfg" % (self.module, cfgname), workers=8, timeout=1500)
        if mc.violated:
            # the specification itself contradicts a declarative property: a modelling error or a design defect;
            # never reported as a violation of the code.
            raise vf.ToolError("model %s/%s violates %s at design level:\n%s" % (self.module, cfgname, mc.violated, mc.error_trace[:3000]))
        out.add("states", mc.distinct)
        out.add("transitions", mc.generated)
        if not inits:
            raise vf.ToolError("generator printed no INIT state")
        init = inits[0]
        rng = random.Random(seed)
        flt = (lambda rec: bool(rec["cones"].get(prop))) if prop else None
        walks = g.tours(init, max_len=max_len, rng=rng, edge_filter=flt)
        wanted = sum(1 for e in g.edges if flt is None or flt(e[2]))
        if wanted == 0:
            raise vf.ToolError("vacuous: no transition of %s/%s is constrained by %s" % (self.module, cfgname, prop))
        wf = os.path.join(wd, "walks_%s.ndjson" % prop)
        rows = []
        for n, w in enumerate(walks):
            rows.append({"id": n, "walk": [{"act": g.edges[e][2]["act"], "post": g.edges[e][2]["post"], "out": g.edges[e][2]["out"]} for e in w]})
        vf.write_ndjson(wf, rows)
        rf = os.path.join(wd, "results_%s.ndjson" % prop)
        job = {"mode": "replay", "cfg": self.harness_cfg(cfgname, init), "input": wf, "output": rf, "seed": seed}
        vf.run_harness(self.crate, self.test, job, which=self.which)
        results = vf.read_ndjson(rf)
        if len(results) != len(walks):
            raise vf.ToolError("harness returned %d results for %d walks" % (len(results), len(walks)))
        steps = 0
        covered = set()
        for r in results:
            w = walks[r["id"]]
            steps += r["steps_run"]
            ok_upto = r["steps_run"] if r["fail"] is None else r["fail"]["step"]
            for e in w[:ok_upto]:
                covered.add(e)
            if r["fail"] is not None:
                f = r["fail"]
                e = w[f["step"]]
                rec = g.edges[e][2]
                self.attribute(out, prop, cfgname, rec, f, [g.edges[x][2]["act"] for x in w[:f["step"] + 1]], "replay")
        out.add("replayed_steps", steps)
        out.add("replayed_walks", len(walks))
        out.add("model_transitions_constrained_by_property", wanted)
        out.add("model_transitions_confirmed_on_impl", len([e for e in covered if flt is None or flt(g.edges[e][2])]))
        if walks:
            w = walks[0][:6]
            out.sample({"cfg": cfgname, "walk_prefix": [g.edges[e][2]["act"] for e in w],
                        "expected_after_last": g.edges[w[-1]][2]["post"], "expected_out": g.edges[w[-1]][2]["out"]})

    def attribute(self, out, prop, cfgname, rec, fail, acts, how):
        fields = set(fail["fields"])
        cones = rec["cones"]
        hit = [p for p, c in cones.items() if fields & set(c)]
        sig = "%s:%s:%s:%s" % (self.module, cfgname, self.act_sig(rec["act"]), ",".join(sorted(fields & set(cones.get(prop, [])))))
        detail = {"how": how, "cfg": cfgname, "history": acts, "expected": {"post": rec["post"], "out": rec["out"]},
                  "observed": fail.get("observed"), "panic": fail.get("panic"), "differing": sorted(fields),
                  "attributed_to": sorted(hit)}
        if prop in hit:
            out.violation(sig, detail)
        else:
            out.divergences.append(detail)
            out.notes.append("divergence outside %s's cone (%s/%s, fields %s, attributed to %s)" % (
                prop, self.module, cfgname, sorted(fields), sorted(hit)))

    # ---- (T) ---------------------------------------------------------------------------------
    def trace_validate(self, out, prop, tier, seed):
        jobs = self.record_jobs(prop, tier, seed)
        for name, job in jobs:
            wd = vf.workdir("%s_trace" % self.module)
            tf = os.path.join(wd, "trace_%s_%s.ndjson" % (name, prop))
            job = dict(job)
            job["output"] = tf
            job["mode"] = "record"
            vf.run_harness(self.crate, self.test, job, which=self.which)
            events = sum(1 for _ in open(tf))
            mism = []
            done = []

            def sink(tag, obj):
                if tag == "MISMATCH":
                    mism.append(obj)
                elif tag == "DONE":
                    done.append(obj)
            res = vf.run_tlc(self.trace_module, "%s.cfg" % self.trace_module, workers=1, timeout=1500,
                             env={"TRACE": tf}, tags=("MISMATCH", "DONE"), line_sink=sink, depth_first=True,
                             coverage=False, xmx="4g")
            if res.violated:
                raise vf.ToolError("trace spec failed: %s\n%s" % (res.violated, res.error_trace[:2000]))
            if not done or done[-1].get("consumed") != events:
                raise vf.ToolError("trace validation did not consume the whole trace (%s of %d events)\n%s" % (
                    done[-1] if done else None, events, res.stdout[-1500:]))
            out.add("traces_validated_against_impl", done[-1].get("behaviours", 0))
            out.add("trace_events", events)
            for m in mism:
                rec = {"act": m["act"], "cones": m["cones"], "post": m["expected"]["st"], "out": m["expected"]["out"]}
                fail = {"fields": m["fields"], "observed": m["observed"], "panic": m.get("panic")}
                self.attribute(out, prop, m.get("cfg", name), rec, fail, m.get("history", []), "trace")
            if events:
                with open(tf) as f:
                    lines = [next(f) for _ in range(min(3, events))]
                out.sample({"trace_file_head": [json.loads(x) for x in lines[1:3]]})
