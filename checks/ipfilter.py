"""C31 (IP filters match exactly the configured subnets) decided with spec/IpFilter.tla."""
import os, json, concurrent.futures
import vf

TEST = "ipfilter::verif_hook::verif_ipfilter"


def _cfg(wd, name, family, stride, phase):
    p = os.path.join(wd, "Gen_IpFilter_%s.cfg" % name)
    with open(p, "w") as f:
        f.write("CONSTANTS\n  Family = \"%s\"\n  Stride = %d\n  Phase = %d\nINIT GenInit\nNEXT GenNext\nCHECK_DEADLOCK FALSE\n"
                "INVARIANTS C31_SetSemantics C31_CoverLemma C31_Strings\n" % (family, stride, phase))
    return p


def _enumerate(wd, name, family, stride, phase, workers):
    """TLC enumerates the cases of one family, checks the lemmas and writes the cases (with the specification's answer)."""
    cases = os.path.join(wd, "cases_%s.ndjson" % name)
    n = [0]
    with open(cases, "w") as f:
        def sink(tag, obj):
            obj["id"] = n[0]
            n[0] += 1
            f.write(json.dumps(obj, separators=(",", ":")) + "\n")
        res = vf.run_tlc("MC_IpFilter", _cfg(wd, name, family, stride, phase), workers=workers, timeout=3000, line_sink=sink,
                         coverage=False, name="MC_IpFilter_" + name)
    if res.violated:
        raise vf.ToolError("IpFilter model (%s) violates %s at design level:\n%s" % (name, res.violated, res.error_trace[:3000]))
    if n[0] == 0:
        raise vf.ToolError("vacuous: TLC enumerated no case for %s" % name)
    return name, cases, n[0], res


def _shape(act):
    if act["kind"] == "string":
        c = act["c"]
        m = {1000: "missing", 1001: "garbage"}.get(c["mask"], c["mask"])
        return "string[%s,mask=%s,%s]" % (c["family"], m, c["syntax"])
    return "set[lens=%s]" % ",".join(str(p["len"]) for p in sorted(act["s"], key=lambda p: (p["len"], p["val"])))


def run(prop, tier, seed):
    out = vf.Outcome(prop, tier, seed, "model_checking")
    wd = vf.workdir("IpFilter")
    stride = 8 if tier == "quick" else 1
    plan = [("Strings", "strings", 1, 0), ("Covers", "covers", 1, 0), ("Small", "small", stride, seed % stride)]
    vf.build_harness()
    with concurrent.futures.ThreadPoolExecutor(len(plan)) as ex:
        futs = [ex.submit(_enumerate, wd, n, fam, st, ph, 6) for (n, fam, st, ph) in plan]
        enumerated = [f.result() for f in futs]
    # "subnet_string": a well-formed subnet string (address parses, mask fits) generated for a set was rejected by from_str
    cone = {"set": {"bitmap", "outside", "panic", "subnet_string"}, "string": {"ok", "panic"}}
    lookups = 0
    for name, cases, n, res in enumerated:
        out.add("states", res.distinct)
        out.add("transitions", res.generated)
        out.add("cases_%s" % name.lower(), n)
        rf = os.path.join(wd, "results_%s.ndjson" % name)
        vf.run_harness("ntp_proto", TEST, {"mode": "replay", "input": cases, "output": rf, "seed": seed}, timeout=3000)
        results = vf.read_ndjson(rf)
        if len(results) != n:
            raise vf.ToolError("harness returned %d results for %d cases (%s)" % (len(results), n, name))
        bad = {r["id"]: r for r in results if r["fields"]}
        lookups += sum(r.get("lookups", 0) for r in results)
        if bad:
            with open(cases) as f:
                for line in f:
                    c = json.loads(line)
                    r = bad.get(c["id"])
                    if not r:
                        continue
                    fields = set(r["fields"])
                    hit = fields & cone[c["act"]["kind"]]
                    detail = {"how": "replay", "family": name, "case": c["act"], "expected": c["out"], "observed": r["detail"],
                              "differing": sorted(fields)}
                    if hit:
                        out.violation("IpFilter:%s:%s:%s" % (name, _shape(c["act"]), ",".join(sorted(hit))), detail)
                    else:
                        out.divergences.append(detail)
                        out.notes.append("divergence outside C31's cone (%s, fields %s)" % (_shape(c["act"]), sorted(fields)))
        with open(cases) as f:
            first = json.loads(f.readline())
        out.sample({"family": name, "case": first["act"], "specification_answer": first["out"]})
    out.add("lookups_on_real_filter", lookups)
    out.add("traces_validated_against_impl", 0)
    out.coverage["exhaustive"] = (tier != "quick")
    out.coverage["rule"] = (
        "TLC enumerates subnet sets over the 8-bit universe (every set of size 1, %s sets of size 2, all 3..5-part partitions of 21 "
        "aligned blocks with their near misses) and the 144 subnet string classes, checks the set-semantics lemmas and computes "
        "Members(S); each set is embedded into real IPv4 and IPv6 space at rotating nibble depths 0..6 / 0..30 (combined, IPv4-only with "
        "IPv4-mapped spellings, IPv6-only), built through IpSubnet::from_str + IpFilter::new and all 256 addresses are looked up" % (
            "all" if stride == 1 else "one eighth (chosen by the seed) of the"))
    out.assumptions += [
        "an IPv6 subnet is not expected to match IPv4 or IPv4-mapped addresses (mapped lookups are made only on filters without IPv6 subnets)",
        "trie behaviour beyond two varying nibbles below a common prefix is covered only through the depth embeddings",
        "code observed as compiled for tests (debug assertions, overflow checks)",
    ]
    return out


PROPS = ["C31"]

MANIFEST = {
    "C31": dict(
        level="model_checking",
        text=("IpFilter.tla defines membership of an address in a subnet list over an 8-bit universe (two nibbles). TLC enumerates every subnet "
              "set of size <= 2 (quick: all singletons and one eighth of the 130 305 pairs; thorough: all), every partition of 21 aligned blocks "
              "into 3..5 sibling prefixes with the variants 'one part missing' and 'one part halved' (4 885 sets, exercising the cover-merging "
              "branch), checks the set lemmas and computes the member set; the harness embeds each set at every nibble depth of IPv4 and IPv6 "
              "space (rotating), with random host bits, order, duplicates and IPv4-mapped spellings, and compares IpFilter::is_in on all 256 "
              "addresses plus outside probes. Subnet strings: family x 16 mask classes x syntax; from_str is Ok exactly per the acceptance rule."),
        note=("bounded universe (8 varying bits below a common prefix); sets of size > 5 not enumerated; the server's allow/deny path is not "
              "driven here (the filter object is); no trace stage (pure function)"),
        technique=("TLA+ set semantics (spec/IpFilter.tla) enumerated and checked with TLC; every enumerated case replayed on the real "
                   "IpFilter / IpSubnet under address-space embeddings"),
        design_ref="6.9, 7 (C31)",
        engine="tlc+replay"),
}
