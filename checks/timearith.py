"""C05 (offset / delay formulas) and C32 (time arithmetic) decided with spec/Measure.tla and spec/TimeArith.tla (W = 8)."""
import os, json
import vf

W = 8
MIN, MAX = -(1 << (W - 1)), (1 << (W - 1)) - 1


def _enumerate(module, cfgname, wd):
    cases = os.path.join(wd, "cases_%s_%s.ndjson" % (module, cfgname))
    n = [0]
    first = []
    with open(cases, "w") as f:
        def sink(tag, obj):
            obj["id"] = n[0]
            n[0] += 1
            if len(first) < 3 or (n[0] % 20011 == 0 and len(first) < 6):
                first.append(obj)
            f.write(json.dumps(obj, separators=(",", ":")) + "\n")
        res = vf.run_tlc("MC_" + module, "Gen_%s_%s.cfg" % (module, cfgname), workers=8, timeout=3000, line_sink=sink, coverage=False)
    if res.violated:
        raise vf.ToolError("%s model violates %s at design level:\n%s" % (module, res.violated, res.error_trace[:3000]))
    if n[0] == 0:
        raise vf.ToolError("vacuous: TLC enumerated no case for %s/%s" % (module, cfgname))
    return cases, n[0], res, first


def _cls(x):
    return "MIN" if x == MIN else "MAX" if x == MAX else "*"


# ------------------------------------------------------------------------------------------------ C05
def run_c05(prop, tier, seed):
    out = vf.Outcome(prop, tier, seed, "model_checking")
    wd = vf.workdir("Measure")
    cases, n, res, first = _enumerate("Measure", "Quick" if tier == "quick" else "All", wd)
    out.add("states", res.distinct)
    out.add("transitions", res.generated)
    rf = os.path.join(wd, "results.ndjson")
    vf.run_harness("ntp_proto", "algorithm::verif_hook::verif_measure", {"mode": "replay", "input": cases, "output": rf, "seed": seed}, timeout=3000)
    rows = vf.read_ndjson(rf)
    summary = [r for r in rows if r.get("summary")]
    if not summary or summary[0]["cases"] != n:
        raise vf.ToolError("Measure harness did not process all %d cases: %s" % (n, summary))
    if summary[0]["odd_sums"] == 0:
        raise vf.ToolError("vacuous: no exchange with an odd offset sum (rounding of the halving never exercised)")
    cone = {"offset", "delay", "missing", "panic"}     # offset_rounding (direction of the rounding) and localtime: compared, not C05
    for r in rows:
        if r.get("summary"):
            continue
        detail = {"how": "replay", "exchange": r["act"], "specification": r["out"], "observed": {k: v for k, v in r.items() if k not in ("act", "out")}}
        if r["field"] in cone:
            out.violation("Measure:%s:%s:%s" % (r["path"], r["emb"], r["field"]), detail)
        else:
            out.divergences.append(detail)
            out.notes.append("divergence outside C05's cone (%s/%s %s)" % (r["path"], r["emb"], r["field"]))
    out.add("exchanges_enumerated", n)
    out.add("evaluations_on_real_code", summary[0]["evaluations"])
    out.add("exchanges_with_odd_sum", summary[0]["odd_sums"])
    out.add("traces_validated_against_impl", 0)
    for c in first[:3]:
        out.sample({"exchange": c["act"], "specification": c["out"]})
    out.coverage["rule"] = (
        "TLC enumerates T1 representatives around every wrap position x true differences (a, b, c) in {0, +-1..8, +-31, +-40}^3 at W = 8, checks "
        "C05_Formula / C05_OneWay on each and prints the W-bit timestamps and results; each exchange is evaluated on the real code under the "
        "high-bits embedding (x * 2^56: era wrap) and the low-bits embedding (base + true times: rounding of the halving, 2^63 and 2^64 "
        "boundaries) along three paths: Measurement pair -> TwoWaySourceControllerWrapper, real datagram -> NtpSource::handle_incoming -> "
        "measurements_from_packet -> wrapper, and OneWaySourceControllerWrapper")
    out.assumptions += [
        "the statement does not fix the rounding of the halving: offsets within one unit of the exact half are accepted (direction compared outside the cone)",
        "only exchanges whose true differences AND the sums formed of them are representable are generated",
        "code observed as compiled for tests (debug assertions, overflow checks)",
    ]
    return out


# ------------------------------------------------------------------------------------------------ C32
def run_c32(prop, tier, seed):
    out = vf.Outcome(prop, tier, seed, "model_checking")
    wd = vf.workdir("TimeArith")
    cases, n, res, first = _enumerate("TimeArith", "Quick" if tier == "quick" else "All", wd)
    out.add("states", res.distinct)
    out.add("transitions", res.generated)
    rf = os.path.join(wd, "results.ndjson")
    vf.run_harness("ntp_proto", "time_types::verif_hook::verif_time_types", {"mode": "replay", "input": cases, "output": rf, "seed": seed}, timeout=3000)
    rows = vf.read_ndjson(rf)
    summary = [r for r in rows if r.get("summary")]
    if not summary or summary[0]["cases"] != n:
        raise vf.ToolError("TimeArith harness did not process all %d cases: %s" % (n, summary))
    sm_ = summary[0]
    if sm_["float_nontrivial"] < 2 or sm_["evaluations"] == 0:
        raise vf.ToolError("vacuous TimeArith run: %s" % sm_)
    cone = {"v", "panic", "ineq"}          # "accuracy" of from_seconds alone is not claimed by C32
    for r in rows:
        if r.get("summary"):
            continue
        a = r["act"]
        if "a" in a:
            binary = a["op"] in ("TsSub", "TsAddDur", "TsSubDur", "DurAdd", "DurSub", "DurMul")
            cls = "a=%s" % _cls(a["a"]) + (",b=%s" % _cls(a["b"]) if binary else "")
        else:
            cls = "e=%s,delta=%s,neg=%s" % (a["e"], a["delta"], a["neg"])
        detail = {"how": "replay", "operation": a, "specification": r["out"], "embedding": r["emb"], "observed": r["detail"]}
        if r["field"] in cone:
            out.violation("TimeArith:%s:%s:%s:%s" % (a["op"], r["emb"], cls, r["field"]), detail)
        else:
            out.divergences.append(detail)
            out.notes.append("divergence outside C32's cone (%s %s %s)" % (a["op"], cls, r["field"]))
    ext = _ptp(out, wd, cases, seed)
    out.add("operation_instances_enumerated", n)
    out.add("evaluations_on_real_code", sm_["evaluations"])
    out.add("float_wire_class_evaluations", sm_["float_evaluations"])
    out.add("float_wire_classes_nontrivial", sm_["float_nontrivial"])
    out.add("traces_validated_against_impl", 0)
    for c in first[:4]:
        out.sample({"operation": c["act"], "specification": c["out"]})
    out.coverage["rule"] = (
        "TLC enumerates, at W = 8, every first operand x %s second operands for TsSub / TsAddDur / TsSubDur / DurAdd / DurSub / DurMul / PollInc / "
        "PollDec and every operand for DurNeg / DurAbs / PollForceInc, checks the C32 laws on each and prints the model result with its "
        "saturation flag; the harness evaluates the real 64-bit operation (operator and assign forms, several scalar types) on the image "
        "x * 2^56 and on the low-bits embedding under catch_unwind and compares with the image of the model result. Float / wire clauses "
        "(exploration): TLC enumerates boundary classes +-(2^e + delta), the inequalities are evaluated by the harness in i128 / f64%s" % (
            "boundary-representative" if tier == "quick" else "all", ext))
    out.assumptions += [
        "float and wire-format clauses: TLC only enumerates the classes, the inequality is evaluated by the harness in i128 / f64 (exploration level)",
        "PollInterval::inc / dec are taken to be covered by 'never panics' (observe_at of C32 names PollInterval operations)",
        "division is not claimed by C32 (NtpDuration / -1 on i64::MIN and / 0 panic); not generated",
        "code observed as compiled for tests (debug assertions, overflow checks)",
    ]
    return out


def _ptp(out, wd, cases, seed):
    """statime_base Timestamp / Duration (128-bit) under the same homomorphism, through harness/ext when it is present."""
    ext = os.path.join(vf.ROOT, "harness", "ext")
    if not (os.path.exists(os.path.join(ext, "Cargo.toml")) and os.path.exists(os.path.join(ext, "src", "timearith.rs"))
            and "mod timearith;" in open(os.path.join(ext, "src", "lib.rs")).read()):
        out.notes.append("PTP (statime_base) types not evaluated: harness/ext/src/timearith.rs is not wired into harness/ext on this tree")
        out.assumptions.append("PTP 128-bit types: covered only when harness/ext contains the timearith module")
        return ""
    rf = os.path.join(wd, "results_ptp.ndjson")
    vf.run_harness("verif_ext", "timearith::verif_timearith", {"mode": "replay", "input": cases, "output": rf, "seed": seed}, which="ext", timeout=3000)
    rows = vf.read_ndjson(rf)
    summary = [r for r in rows if r.get("summary")]
    if not summary or summary[0]["evaluations"] == 0:
        raise vf.ToolError("PTP harness evaluated nothing")
    for r in rows:
        if r.get("summary"):
            continue
        a = r["act"]
        cls = "a=%s,b=%s" % (_cls(a["a"]), _cls(a["b"]))
        out.violation("TimeArith:PTP:%s:%s:%s:%s" % (a["op"], r["emb"], cls, r["field"]),
                      {"how": "replay", "operation": a, "specification": r["out"], "embedding": r["emb"], "observed": r["detail"]})
    out.add("ptp_evaluations_on_real_code", summary[0]["evaluations"])
    return "; the same operand pairs are evaluated on statime_base::time Timestamp (u128, x * 2^120) and Duration (i128)"


def run(prop, tier, seed):
    vf.build_harness()
    return run_c05(prop, tier, seed) if prop == "C05" else run_c32(prop, tier, seed)


PROPS = ["C05", "C32"]

MANIFEST = {
    "C05": dict(
        level="model_checking",
        text=("Measure.tla (W = 8): offset = ((T2-T1)+(T3-T4))/2 and delay = (T4-T1)-(T3-T2) computed with the code's wrapping / saturating "
              "operators equal the formulas over the true timestamps for every enumerated exchange in the representable region (T1 around "
              "every wrap position, differences up to +-40 of 128), one-way offset = remote - local; every exchange replayed on the real "
              "wrappers and end-to-end through NtpSource::handle_incoming / measurements_from_packet under the high-bits (era wrap) and "
              "low-bits (rounding, 2^63 / 2^64 boundaries) embeddings."),
        note=("bounded: W = 8 word model, 11 (thorough 36) T1 representatives x 21^3 difference triples; conformance by small-word "
              "homomorphism on the enumerated cases; rounding direction of the halving not constrained; no trace stage (pure function)"),
        technique="TLA+ word-level model (spec/Measure.tla over spec/TimeArith.tla) checked by TLC; every enumerated case replayed on the real code under two embeddings",
        design_ref="5.1, 6.4, 7 (C05)", engine="tlc+replay"),
    "C32": dict(
        level="model_checking",
        text=("TimeArith.tla (W = 8): wrapping timestamp difference is the shortest signed difference and adding it back restores the "
              "timestamp; duration add / sub / neg / abs / scalar mul equal Clamp(exact); PollInterval inc / dec / force_inc stay in range - "
              "laws checked by TLC over the enumerated operand pairs (thorough: all 2^16 per operator); every instance evaluated on the real "
              "NtpTimestamp / NtpDuration / PollInterval (and, when harness/ext is wired, statime_base Timestamp / Duration) under the "
              "x * 2^(64-W) homomorphism and the low-bits embedding, each under catch_unwind. Float / wire clauses are exploration: "
              "boundary classes enumerated by TLC, inequalities evaluated by the harness."),
        note=("W = 8 model + homomorphism: covers wrap, sign and saturation structure, not every 64-bit value; float (seconds <-> duration), "
              "short and time32 clauses are exploration-level (weak oracle evaluated in the harness); division not claimed"),
        technique="TLA+ word-level model (spec/TimeArith.tla) checked by TLC; every enumerated operation replayed on the real types under two embeddings; boundary-class exploration for float / wire formats",
        design_ref="5.1, 6.4, 7 (C32), 9 (F-11, F-12)", engine="tlc+replay"),
}
